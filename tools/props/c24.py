"""C24 Only fresh, well-formed, in-band oracle prices are used.
Spec: OracleValidate.tla (validate_one / merge_range / finish / SmallPrices::from_price / price adjustment /
check_and_get_price / with_prices_opts / the oracle time validators of time.rs, written like the code), OracleValidateProps.tla (monitors),
MC_OracleValidate (bounded model, three families), Trace_OracleValidate (TLC trace validation of the real code
driven in memory through cfg-guarded hooks, including Oracle::with_prices_opts end to end on in-memory accounts)."""
import vlib


def _ref(p, ref):
    pw = lambda m: 10 ** m
    if ref["some"]:
        return ref["v"] * pw(ref["m"])
    return (p["minv"] * pw(p["minm"]) + p["maxv"] * pw(p["maxm"])) // 2


def zero_dev_batch(e):
    """every token with a configured deviation has floor(ref * k / 100) = 0 (the check is skipped)"""
    devs = [t for t in e["toks"] if t["cfg"]["dev"] != 0]
    return bool(devs) and all((_ref(t["p"], t["ref"]) * t["cfg"]["dev"]) // 100 == 0 for t in devs
                              if not _in_band_tok(t))


def _tol(r, k, m):
    c = -(-(r * k) // 100)
    return -(-c // 10 ** m) * 10 ** m


def _in_band_tok(t):
    k = t["cfg"]["dev"]
    if k == 0:
        return True
    p = t["p"]
    r = _ref(p, t["ref"])
    tol = _tol(r, k, p["maxm"])
    return abs(p["maxv"] * 10 ** p["maxm"] - r) <= tol and abs(p["minv"] * 10 ** p["minm"] - r) <= tol


def _in_band_item(it, s):
    k = it["tc"]["dev"]
    if k == 0:
        return True
    r = it["fd"]["price"] * 10 ** it["tc"]["mult"]
    tol = _tol(r, k, it["tc"]["mult"])
    return abs(s["max"] - r) <= tol and abs(s["min"] - r) <= tol


def classify(e, mon):
    c = {"monitor": mon, "op": e["op"], "class": "-"}
    if mon == "InBand":
        if e["op"] == "batch":
            bad = [t for t in e["toks"] if not _in_band_tok(t)]
            zero = bad and all((_ref(t["p"], t["ref"]) * t["cfg"]["dev"]) // 100 == 0 for t in bad)
        else:
            bad = [it for it, s in zip(e["items"], e["seen"]) if not _in_band_item(it, s)]
            zero = bad and all((it["fd"]["price"] * 10 ** it["tc"]["mult"] * it["tc"]["dev"]) // 100 == 0 for it in bad)
        c["class"] = "dev_rounds_to_zero" if zero else "out_of_band"
    return c


def mc(ctx, module, cfg, timeout=1200, workers=8):
    """ctx.model_check without TLC's -coverage (coverage instrumentation of the recursive batch operators
    exhausts the heap); same verdict rules."""
    r = vlib.tlc(ctx.spec(module + ".tla"), ctx.spec(cfg + ".cfg"), workers=workers, timeout=timeout, coverage=False)
    vlib.log("  tlc %s: %d generated, %d distinct, depth %d, %.1fs%s" % (
        cfg, r.generated, r.distinct, r.depth, r.wall, "" if r.ok else " [NOT OK: %s]" % (r.violated or r.error)))
    if r.violated:
        raise vlib.ToolError("specification %s violates its own invariant %s (monitor calibration)\n%s"
                             % (module, r.violated, r.raw[-3000:]))
    if not r.ok:
        raise vlib.ToolError("TLC failed on %s: %s\n%s" % (module, r.error, r.raw[-3000:]))
    ctx.states += r.distinct
    ctx.transitions += r.generated
    return r


def validate_chunked(ctx, module, path, chunk=150000, timeout=3000):
    """ctx.validate_trace on slices of a big trace (events are self-contained); returns (fails, drifts) with
    global 1-based indices."""
    n = sum(1 for _ in open(path))
    if n <= chunk:
        f, d, _ = ctx.validate_trace(module, path, timeout=timeout)
        return f, d
    fails, drifts = [], []
    with open(path) as src:
        k = 0
        while True:
            lines = [l for _, l in zip(range(chunk), src)]
            if not lines:
                break
            part = "%s.part%d" % (path, k)
            with open(part, "w") as out:
                out.writelines(lines)
            f, d, _ = ctx.validate_trace(module, part, timeout=timeout, heap="8g")
            fails += [dict(x, i=x["i"] + k * chunk) for x in f]
            drifts += [dict(x, i=x["i"] + k * chunk) for x in d]
            import os
            os.remove(part)
            k += 1
    return fails, drifts


def judge(ctx, path, driver):
    fails, drifts, r = ctx.validate_trace("Trace_OracleValidate", path)
    ev = vlib.read_ndjson(path)
    for f in fails:
        e = ev[f["i"] - 1]
        ctx.report(dict(classify(e, f["mon"]), conforms=f.get("conforms", True)), {"driver": driver, "event": e})
    return ev, len(r.tagged("STAT"))


def run(ctx):
    ctx.build("h-programs", "c24")
    q = ctx.quick
    # 1. the design satisfies the monitors (three families of the bounded model)
    for cfg in ("MC_OracleValidate_time", "MC_OracleValidate_price", "MC_OracleValidate_tv",
                "MC_OracleValidate_with_quick" if q else "MC_OracleValidate_with"):
        mc(ctx, "MC_OracleValidate", cfg)
    # 2. validator pieces on the real code: the model's domain, then random larger values
    acc = 0
    evs = []
    for name, args in (("batch-small", ["small", "--kind", "batch"]),
                       ("batch-random", ["random", "--kind", "batch", "--seed", ctx.seed, "--n", 4000 if q else 60000]),
                       ("with-tv", ["small", "--kind", "with"]),
                       ("with", ["random", "--kind", "with", "--seed", ctx.seed, "--n", 6000 if q else 80000])):
        tr = ctx.path(name + ".ndjson")
        ctx.run_bin("c24", args + ["--out", tr])
        ev, a = judge(ctx, tr, "h-programs c24 " + " ".join(map(str, args)))
        acc += a
        evs.append(ev)
        ctx.cov.setdefault("accepted", {})[name] = a
        ctx.cov["samples"] += [ev[len(ev) // 2]]
    if acc == 0:
        if not ctx.violations:
            raise vlib.ToolError("vacuity: no accepted price in the validated traces")
    wp = evs[2] + evs[3]
    cls = {"cleared_after_ok": sum(1 for e in wp if e["called"] and e["res"] == "ok"),
           "cleared_after_op_error": sum(1 for e in wp if e["called"] and e["res"] == "err"),
           "cleared_after_load_error": sum(1 for e in wp if not e["called"]),
           "dirty_before": sum(1 for e in wp if not e["pre"]["cleared"] or e["pre"]["n"] != 0),
           # oracle time validation (time.rs) inside the wrapped operation
           "time_accepted_with_lower_bound": sum(1 for e in wp if e["vt"] == "" and e["tgt"]["after"]["some"]),
           "time_too_old": sum(1 for e in wp if e["vt"] == "OracleTimestampsAreSmallerThanRequired"),
           "time_too_new": sum(1 for e in wp if e["vt"] == "OracleTimestampsAreLargerThanRequired"),
           "time_slot_rejected": sum(1 for e in wp if e["vt"] == "InvalidOracleSlot"),
           "time_bound_straddled": sum(1 for e in wp if e["called"] and e["tgt"]["after"]["some"] and
                                       e["srs"]["lo"] < e["tgt"]["after"]["v"] <= e["srs"]["hi"]),
           "max_age_accepted": sum(1 for e in wp if e["vma"] == ""),
           "max_age_straddled": sum(1 for e in wp if e["called"] and
                                    e["srs"]["lo"] < e["vs"]["now"] - e["max_age"] <= e["srs"]["hi"])}
    for k, v in cls.items():
        if v == 0:
            if not ctx.violations:
                raise vlib.ToolError("vacuity: no with_prices event of class " + k)
    ctx.cov["with_prices_classes"] = cls
    import json
    ctx.distinct += len({json.dumps(e, sort_keys=True) for ev in evs for e in ev})
    ctx.assumptions += ["deviation factors are whole percents (ratio = k * 10^6) so that apply_factor is exact in small integers",
                        "custom price feeds only (Pyth / Switchboard account parsing is not exercised)",
                        "time is translation invariant: the bounded model fixes now = 6"]
    ctx.cov["trusted_base"] += ["TLC", "h-programs c24 driver (in-memory accounts, projections)",
                                "cfg-guarded hooks in states/oracle/{mod,validator,price_map,feed}.rs (thin wrappers)"]
    return ctx.finish("model_checking",
                      "validator batches over the bounded model's time and price families (%d) + random batches (%d) + "
                      "with_prices_opts runs on in-memory accounts incl. oracle time validation (%d enumerated + %d random); "
                      "distinct = distinct events" % (len(evs[0]), len(evs[1]), len(evs[2]), len(evs[3])), exhaustive=False)
