"""C17 A newly created market starts from the documented default configuration.
Spec: ConfigKV.tla (DefaultTable, PoolPure), ConfigKVProps.tla (MonDefault, MonPoolPure, MonPoolZero),
MC_ConfigKV (InitCfg on the design), Trace_ConfigInit (observations after the real Market::init)."""
import re, os
import vlib


def classify(e, mon):
    return {"monitor": mon, "op": e["op"], "key": e["key"], "v": e["v"], "kind": e["kind"], "pure": e["pure"]}


def run(ctx):
    ctx.build("h-programs", "c17")
    if ctx.replay_file:
        ctx.note("replay: the recorded case lies inside the finite domain of this check, which is re-executed as a whole")
    ctx.model_check("MC_ConfigKV", workers=8, timeout=900, expect_actions=["DoWrite"])
    tr = ctx.path("init.ndjson")
    ctx.run_bin("c17", ["all", "--out", tr])
    fails, drifts, _ = ctx.validate_trace("Trace_ConfigInit", tr)
    ev = vlib.read_ndjson(tr)
    # vacuity is judged from what the harness set up (market kinds, pool kinds), never from what the code answered
    for want_pure in (True, False):
        kinds = {e["kind"] for e in ev if e["op"] == "pool" and e["pure"] == want_pure}
        if len(kinds) < 16 or not {"position_impact", "borrowing_factor", "total_borrowing", "primary"} <= kinds:
            raise vlib.ToolError("vacuity: pools of a %s market were not all observed (%d kinds)"
                                 % ("single-token" if want_pure else "two-token", len(kinds)))
    ctx.distinct += len({(e["op"], e["pure"], e["key"], e["kind"]) for e in ev})
    small = lambda e: {k: (v if not isinstance(v, dict) else "{%d constants}" % len(v)) for k, v in e.items()}
    ctx.cov["samples"] += [small(ev[0]), small([e for e in ev if e["op"] == "pool"][0])]
    # cross-check: constants declared in the source that the driver's name table does not know (drift, not a verdict)
    src = vlib.REPO + "/programs/store/src/constants/market.rs"
    if os.path.exists(src):
        declared = set(re.findall(r"pub const (DEFAULT_[A-Z0-9_]+)", open(src).read()))
        known = set(ev[0]["consts"].keys())
        if declared - known:
            ctx.note("constants declared in constants/market.rs but unknown to the driver's name table: %s" % sorted(declared - known))
    for f in fails[:100]:      # the first failures are enough to decide and to replay
        e = ev[f["i"] - 1]
        ctx.report(classify(e, f["mon"]), {"driver": "h-programs c17 all", "event_index": f["i"], "event": small(e),
                                           "expected_constant_values": {k: v for k, v in e["consts"].items() if "RESERVE" in k or "RECEIVER" in k}})
    ctx.assumptions += ["'documented default' of a key = the constant named by the rule in ConfigKV.tla (DEFAULT_<KEY> with the listed exceptions)"]
    ctx.cov["trusted_base"] += ["TLC", "harness h-programs c17 driver", "hooks pool::verif, revertible::buffer_verif", "syscall stubs (clock)"]
    return ctx.finish("model_checking",
                      "every config key and flag of the code's enums and every pool kind, for pure/impure x enabled/disabled markets; "
                      "distinct = distinct (observation kind, pure, key, pool kind)", exhaustive=True)
