"""C43 SDK amount and Decimal conversions round-trip.
Spec: DecimalConv.tla (the conversions of crates/sdk/src/utils/fixed.rs and rust_decimal's rescale, over
constants), DecimalConvProps.tla (monitors on digit strings + conformance), MC_DecimalConv (scaled-down
world, exhaustive laws and the exact failure classes of the design), Trace_DecimalConv (TLC trace
validation of the real code: dense small values with conformance, full-width values as strings)."""
import json
import vlib

MAXR = 2 ** 96 - 1
I128 = 2 ** 127 - 1



def vacuity(ctx, msg):
    """a vacuity alarm is a tool error only when nothing else explains the missing cases: with violations or
    drift on record the verdict comes first and the alarm is demoted to a note"""
    if ctx.violations or ctx.drift:
        ctx.note("vacuity (demoted: violations or drift on record): " + msg)
    else:
        raise vlib.ToolError("vacuity: " + msg)

def ilog10(x):
    return len(str(x)) - 1


def rescale_up(m, s, t):
    """rust_decimal rescale towards a larger scale: multiply while the 96-bit mantissa holds"""
    while s < t and m * 10 <= MAXR:
        m, s = m * 10, s + 1
    return m, s


def error_path_panics(m, s, neg, d):
    """decimal_to_*: rescale leaves scale s2 < d, the compensation overflows, and the error message has
    to print a Decimal whose scale (plus sign) does not fit rust_decimal's string buffer"""
    if m == 0 or s >= d:
        return False
    m2, s2 = rescale_up(m, s, d)
    if s2 >= d:
        return False
    k = d - s2
    overflow = k > 38 or m2 * 10 ** k > I128
    return overflow and s2 + (1 if neg else 0) > 30


def classify(e, mon):
    x, d, m, s = int(e["x"]), e["d"], int(e["m"]), e["s"]
    cls = "other"
    if e["dir"] == "to":
        fixed = e["op"] in ("ufixed", "sfixed", "uvalue", "svalue")
        if fixed and x > MAXR:
            diff = ilog10(x) - 27
            if mon == "NoPanic" and e["st"] == "panic" and d >= diff and d - diff > 28:
                cls = "fixed_above_2p96_scale_gt_28_panic"
            elif mon in ("ToExact", "RoundTrip") and x % 10 ** diff != 0:
                cls = "fixed_above_2p96_truncated"
            elif mon == "RoundTrip" and e["op"] in ("ufixed", "uvalue") and x > I128:
                cls = "u128_above_i128_max_back_fails"
        elif not fixed and mon == "ToExact" and d > 28:
            k = d - 28
            if (k > 19 and x != 0) or (k <= 19 and x % 10 ** k != 0):
                cls = "amount_decimals_gt_28_rescaled"
        if mon == "NoPanic" and e["bst"] == "panic" and error_path_panics(m, s, e["dneg"], d):
            cls = "from_dec_error_path_panics"
    else:
        if mon == "FromExact" and s > d and m % 10 ** (s - d) != 0:
            cls = "from_dec_rounds_excess_fraction"
        if mon == "NoPanic" and e["bst"] == "panic" and error_path_panics(m, s, e["dneg"], d):
            cls = "from_dec_error_path_panics"
    return {"monitor": mon, "class": cls, "op": e["op"], "x": e["x"], "neg": e["neg"], "d": d,
            "m": e["m"], "s": s, "dneg": e["dneg"]}


def judge(ctx, tr, driver, counts):
    fails, drifts, _ = ctx.validate_trace("Trace_DecimalConv", tr)
    ev = vlib.read_ndjson(tr)
    seen = {}
    for f in fails:
        e = ev[f["i"] - 1]
        c = classify(e, f["mon"])
        c["conforms"] = f.get("conforms", True)
        k = (c["monitor"], c["class"])
        seen[k] = seen.get(k, 0) + 1
        counts[c["class"]] = counts.get(c["class"], 0) + 1
        if seen[k] <= 20 or vlib.match_known(ctx.pid, c) is not None:
            ctx.report(c, {"driver": driver, "event": e})
    return ev


def run(ctx):
    ctx.build("h-sdk", "c43")
    counts = {}
    if ctx.replay_file:
        rp = json.load(open(ctx.replay_file))
        inp = ctx.path("replay-in.ndjson")
        vlib.write_ndjson(inp, [rp["replay"]["event"]])
        tr = ctx.path("replay.ndjson")
        ctx.run_bin("c43", ["replay", "--in", inp, "--out", tr])
        ev = judge(ctx, tr, "h-sdk c43 replay", counts)
        ctx.distinct += max(2, len(ev))
        return ctx.finish("exploration", "replay of one recorded case", exhaustive=False)
    # 1. scaled-down world: laws of the conversions and the exact classes where the design fails the property
    ctx.model_check("MC_DecimalConv", cfg="MC_DecimalConv" if ctx.quick else "MC_DecimalConv_thorough",
                    workers=8, timeout=600 if ctx.quick else 2400)
    # 2. real code, dense small values: monitors + conformance with DecimalConv on everything that fits 31 bits
    tr = ctx.path("small.ndjson")
    ctx.run_bin("c43", ["small", "--dense", 40 if ctx.quick else 400, "--out", tr])
    ev = judge(ctx, tr, "h-sdk c43 small", counts)
    small = sum(1 for e in ev if e["small"])
    # 3. real code, boundary-biased full-width values (u64 / u128 / i128, decimals 0..255), digit strings
    tr2 = ctx.path("wide.ndjson")
    ctx.run_bin("c43", ["wide", "--seed", ctx.seed, "--n", 20000 if ctx.quick else 250000, "--out", tr2])
    ev2 = judge(ctx, tr2, "h-sdk c43 wide", counts)
    small += sum(1 for e in ev2 if e["small"])
    allev = ev + ev2
    rt = sum(1 for e in allev if e["dir"] == "to" and e["st"] == "some" and e["d"] <= 28 and e["bst"] == "ok"
             and e["back"] == e["x"])
    big_rt = sum(1 for e in ev2 if e["dir"] == "to" and e["st"] == "some" and e["d"] <= 28 and e["bst"] == "ok"
                 and e["back"] == e["x"] and int(e["x"]) > MAXR)
    none = sum(1 for e in allev if e["st"] == "none")
    errs = sum(1 for e in allev if e["bst"] == "err")
    if min(rt, big_rt, none, errs, small) == 0:
        vacuity(ctx, "round trips %d (above 2^96: %d), none %d, errors %d, small %d" % (rt, big_rt, none, errs, small))
    ctx.distinct += len({(e["dir"], e["op"], e["x"], e["neg"], e["d"], e["m"], e["s"]) for e in allev})
    ctx.cov["samples"] += [ev[len(ev) // 3], ev2[0], ev2[-1]]
    ctx.cov["trusted_base"] += ["TLC", "harness h-sdk c43 driver (calls the conversions, logs digit strings; "
                                "mantissa/scale/sign read through rust_decimal's accessors)"]
    ctx.assumptions += ["full-width values are a boundary-biased seeded sample; the scaled-down world is exhaustive",
                        "'decimals are supported' is read as decimals <= 28 (rust_decimal's maximum scale)",
                        "amount conversions are paired with decimal_to_amount (unsigned) / decimal_to_signed_value "
                        "(signed: the SDK has no signed amount inverse)"]
    return ctx.finish("model_checking",
                      "every op on dense small values x decimals (conformance on %d events that fit 31 bits) and "
                      "boundary-biased full-width values as digit strings; distinct = distinct (op, value, decimals)"
                      % small,
                      extra={"round_trips_ok": rt, "round_trips_ok_above_2p96": big_rt, "failure_classes": counts,
                             "conformance_events": small}, exhaustive=False)
