"""C33 Referral relationships are write-once and never self-referential.
Spec: Referral.tla (precise actions incl. every failure case), ReferralProps.tla (monitors),
MC_Referral (bounded model: monitors on every state/transition of the design; prints one history per
distinct state), Trace_Referral (TLC trace validation of REAL instructions run by the in-process runtime)."""
import json, re
import vlib

OPS = ("prepare", "create", "set", "transfer", "cancel", "accept")


def classify(e, mon):
    return {"monitor": mon, "op": e["op"], "ok": e["ok"], "err": e["err"]}


def action_coverage(raw):
    cov = {}
    for m in re.finditer(r"^<(Do\w+) line [^>]*>: (\d+):(\d+)", raw, re.M):
        cov[m.group(1)] = (int(m.group(2)), int(m.group(3)))
    return cov


def run(ctx):
    ctx.build("h-runtime", "c33")
    # 1. the design satisfies the monitors: bounded exhaustive model, 3 users x 2 codes
    cfg = "MC_Referral" if ctx.quick else "MC_Referral_thorough"
    depth = 7 if ctx.quick else 12
    r = ctx.model_check("MC_Referral", cfg=cfg, workers=8, timeout=900)
    cov = action_coverage(r.raw)
    for a in ("DoPrepare", "DoCreate", "DoSet", "DoTransfer", "DoCancel", "DoAccept"):
        if cov.get(a, (0, 0))[1] == 0:
            raise vlib.ToolError("vacuity: action %s of MC_Referral never taken" % a)
    if not ctx.quick:
        # wider instance (4 users x 3 codes), design only
        ctx.model_check("MC_Referral", cfg="MC_Referral_wide", workers=8, timeout=1200)
    # 2. spec -> implementation: one history per distinct state, then EVERY operation attempted there
    paths, seen = [], set()
    for t in r.tagged("T"):
        if len(t["path"]) > depth:
            continue
        k = json.dumps(t["st"], sort_keys=True)
        if k not in seen:
            seen.add(k)
            paths.append(t)
    complete = not any(len(t["path"]) == depth for t in paths) and r.depth <= depth + 1
    pp = ctx.path("paths.ndjson")
    vlib.write_ndjson(pp, paths)
    tr = ctx.path("replay.ndjson")
    out = ctx.run_bin("c33", ["replay", "--in", pp, "--out", tr])
    stat = json.loads(out.strip().splitlines()[-1])
    vlib.log("  replay: %s" % stat)
    if stat["unreachable"] or stat["state_mismatch"]:
        ctx.note("replay: %d model states not reached by the real code, %d reached with a different projection"
                 % (stat["unreachable"], stat["state_mismatch"]))
        ctx.drift += stat["unreachable"] + stat["state_mismatch"]
    traces = [("replay", tr)]
    # 3. implementation -> spec: random histories (4 users, 3 codes)
    seeds = [ctx.seed] if ctx.quick else [ctx.seed + k for k in range(4)]
    for k, s in enumerate(seeds):
        rp = ctx.path("random%d.ndjson" % k)
        ctx.run_bin("c33", ["random", "--seed", s, "--n", 6000 if ctx.quick else 40000, "--out", rp])
        traces.append(("random seed %d" % s, rp))
    classes = set()
    for name, path in traces:
        fails, drifts, _ = ctx.validate_trace("Trace_Referral", path)
        ev = vlib.read_ndjson(path)
        for e in ev:
            classes.add((e["op"], e["ok"], e["err"]))
        ctx.distinct += len({(e["op"], e["u"], e["c"], e["v"], json.dumps(e["pre"], sort_keys=True)) for e in ev})
        ctx.cov["samples"] += [ev[len(ev) // 2], ev[-1]]
        for f in fails:
            e = ev[f["i"] - 1]
            ctx.report(classify(e, f["mon"]), {"driver": "h-runtime c33 (%s)" % name, "event": e,
                                               "events": ev[max(0, f["i"] - 3):f["i"]]})
    # vacuity of the monitors' antecedents: the interesting accepted and rejected classes were seen
    need = [("set", True, "ok"), ("accept", True, "ok"), ("create", True, "ok"), ("transfer", True, "ok"),
            ("cancel", True, "ok"), ("set", False, "SelfReferral"), ("set", False, "MutualReferral"),
            ("set", False, "ReferrerHasBeenSet")]
    missing = [c for c in need if c not in classes]
    if missing and not ctx.violations and not ctx.drift:
        raise vlib.ToolError("vacuity: classes never observed in the traces: %s" % missing)
    ctx.cov["per_class"] = sorted("%s/%s/%s" % c for c in classes)
    ctx.cov["replayed_states"] = stat["states"]
    ctx.cov["trusted_base"] += ["TLC", "h-runtime in-process program runtime (account/CPI emulation, System program)",
                                "c33 driver projection of UserHeader / ReferralCodeV2 bytes"]
    ctx.assumptions += ["users/codes in the exhaustive part: 3 x 2 (random histories 4 x 3); every accepted history of the "
                        "model up to depth %d is replayed and all 57 operations are attempted from each state" % depth,
                        "accept passes the current owner's user account as `user` (as a client would)",
                        "migrate_referral_code (legacy v1 codes) and GT/order side effects on referral are outside the property"]
    return ctx.finish("model_checking",
                      "distinct = distinct (abstract pre-state, operation, arguments) executed through the real "
                      "instructions; every operation incl. the ones the specification rejects is attempted from "
                      "every reachable model state",
                      exhaustive=bool(complete and not ctx.drift))
