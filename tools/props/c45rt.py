"""C45, instruction-level binding on the in-process runtime (helper module, not a registered property).
`run_rt(ctx)` builds and runs harness/h-runtime/src/bin/c45rt.rs: the REAL initialize_glv, insert_glv_market,
toggle_glv_market_flag, update_glv_market_config, create / execute / close of GLV deposits and GLV withdrawals
(programs/store/src/ops/glv.rs, states/glv.rs; GLV token = Token-2022 mint) in world R2.  TLC judges the trace with
Trace_GlvRt (monitors prefixed "rt."; values as BigNum records), failures go through ctx.report.  Returns nothing."""
import json
import vlib


def classify(e, mon):
    return {"monitor": mon, "op": e["op"], "ok": e["ok"], "err": e["err"], "case": e["case"], "binding": "runtime"}


def run_rt(ctx):
    ctx.build("h-runtime", "c45rt")
    tr = ctx.path("rt.trace.ndjson")
    out = ctx.run_bin("c45rt", ["run", "--out", tr])
    st = json.loads(out.strip().splitlines()[-1])["stats"]
    fails, drifts, _ = ctx.validate_trace("Trace_GlvRt", tr, timeout=1200)
    ev = vlib.read_ndjson(tr)
    stats = {"init_ok": 0, "init_token_mismatch_rejected": 0, "insert_ok": 0, "insert_token_mismatch_rejected": 0,
             "deposit_executed_under_amount_limit": 0, "deposit_executed_under_value_limit": 0, "deposit_reaching_limit": 0,
             "deposit_cancelled_by_limit": 0, "deposit_with_token_leg": 0, "roundtrips": 0, "roundtrip_lossy": 0,
             "roundtrip_with_spread": 0}
    for e in ev:
        same = e["mlong"] == e["glong"] and e["mshort"] == e["gshort"]
        if e["op"] == "init":
            stats["init_ok"] += e["ok"]
            stats["init_token_mismatch_rejected"] += (not e["ok"]) and not same
        elif e["op"] == "insert":
            stats["insert_ok"] += e["ok"]
            stats["insert_token_mismatch_rejected"] += (not e["ok"]) and not same
        elif e["op"] == "deposit":
            q = e["post"]
            if e["ok"]:
                stats["deposit_executed_under_amount_limit"] += q["maxAmount"] > 0
                stats["deposit_executed_under_value_limit"] += q["maxValue"]["s"] != "0"
                stats["deposit_reaching_limit"] += q["maxAmount"] > 0 and q["bal"] == q["maxAmount"]
                stats["deposit_with_token_leg"] += e["case"].endswith(":3")
            else:
                stats["deposit_cancelled_by_limit"] += e["err"] == "cancelled"
        else:
            stats["roundtrips"] += e["ok"]
            stats["roundtrip_lossy"] += e["ok"] and e["returned"] < e["m"]
            stats["roundtrip_with_spread"] += e["ok"] and "spread50" in e["case"]
    vlib.log("  c45rt: %d instructions, %s" % (st["instructions"], stats))
    ctx.distinct += len({(e["op"], e["case"]) for e in ev})
    ctx.cov["samples"] += [ev[len(ev) // 2]]
    ctx.cov["rt_classes"] = stats
    ctx.cov["rt_instructions"] = st["instructions"]
    for f in fails:
        e = ev[f["i"] - 1]
        ctx.report(classify(e, f["mon"]), {"driver": "h-runtime c45rt run", "event": e})
    empty = [k for k, v in stats.items() if v == 0]
    if empty and not fails and not drifts:
        raise vlib.ToolError("vacuity (runtime binding): no event of class %s" % empty)
    ctx.assumptions += [
        "runtime binding: GLV over the two A/B markets of world R2 (one with a synthetic index token); GLV deposits of market tokens "
        "and of the short token (market deposit leg), limits max amount / max value set by update_glv_market_config; the value of "
        "the balance is the program's own get_market_token_value (MaxAfterDeposit, maximised)",
        "runtime binding: round trips at constant prices with 0 / 50 bp spread, with and without a profitable open position in the "
        "market; no swap paths, no GLV shifts; which pool value (maximised / minimised) each step uses is not observable at this "
        "level and stays with the model-level check"]
    ctx.cov["trusted_base"] += ["h-runtime in-process program runtime + world R2 (real SPL Token / Token-2022 / ATA processors; "
                                "fabricated prices and Oracle account)", "h-runtime c45rt driver"]
