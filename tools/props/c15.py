"""C15 Single-token pools account for every token exactly once.
Spec: Pool.tla (the pool written like pool.rs), PoolProps.tla (monitors), MC_Pool (every state/operation pair of
the bounded domain), Trace_Pool (TLC trace validation of the real Pool), Wide_Pool (Apalache, u128 limits)."""
import vlib

SCHEMA = {"op": "Str", "pure": "Bool", "dl": "Int", "ds": "Int", "ok": "Bool", "panic": "Bool",
          "l0": "Int", "s0": "Int", "l1": "Int", "s1": "Int", "vl0": "Int", "vs0": "Int", "vl1": "Int", "vs1": "Int"}


def classify(e, mon):
    return {"monitor": mon, "op": e["op"], "pure": e["pure"], "dl": e["dl"], "ds": e["ds"], "l0": e["l0"], "s0": e["s0"]}


def key(e):
    return (e["op"], e["pure"], e["dl"], e["ds"], e["l0"], e["s0"])


def run(ctx):
    ctx.build("h-programs", "c15")
    if ctx.replay_file:
        ctx.note("replay: the recorded case lies inside the finite domain of this check, which is re-executed as a whole")
    # 1. the design: every (state, operation) pair of the bounded domain satisfies the monitors
    ctx.model_check("MC_Pool", cfg="MC_Pool" if ctx.quick else "MC_Pool_thorough", workers=8, timeout=1500,
                    expect_actions=["DoLong", "DoShort", "DoBoth", "DoCancel"])
    # 2. the same finite domain on the real Pool + random 4-step sequences on a persistent object
    traces = []
    tr = ctx.path("small.ndjson")
    ctx.run_bin("c15", ["small", "--pmax", 40, "--imax", 6 if ctx.quick else 16, "--out", tr])
    traces.append(("small", tr))
    tr = ctx.path("random.ndjson")
    ctx.run_bin("c15", ["random", "--seed", ctx.seed, "--n", 2000 if ctx.quick else 30000, "--out", tr])
    traces.append(("random", tr))
    seen = set()
    for mode, tr in traces:
        fails, drifts, _ = ctx.validate_trace("Trace_Pool", tr)
        ev = vlib.read_ndjson(tr)
        seen |= {key(e) for e in ev}
        ctx.cov["samples"] += [ev[len(ev) // 2], ev[-1]]
        for f in fails[:100]:      # the first failures are enough to decide and to replay
            e = ev[f["i"] - 1]
            ctx.report(classify(e, f["mon"]), {"driver": "h-programs c15 " + mode, "event": e})
    # 3. wide tier: u128 totals up to 2^128-1, deltas at +-2^127 (Apalache, unbounded integers)
    wp = ctx.path("wide.ndjson")
    ctx.run_bin("c15", ["wide", "--seed", ctx.seed, "--n", 40 if ctx.quick else 400, "--out", wp])
    wev = vlib.read_ndjson(wp)
    res = vlib.apalache_events(ctx, "Wide_Pool", ["Pool", "PoolProps"], wev, SCHEMA, "CInit128",
                               ["bad", "drift"], chunk=100 if ctx.quick else 200)
    ctx.evaluations += len(wev)
    seen |= {key(e) for e in wev}
    ctx.cov["samples"].append(wev[0])
    for i in res["bad"][:100]:
        e = wev[i - 1]
        ctx.report(classify(e, "Wide"), {"driver": "h-programs c15 wide", "event": e})
    if res["drift"]:
        ctx.drift += len(res["drift"])
        ctx.drift_first = ctx.drift_first or wev[res["drift"][0] - 1]
    # 4. the SDK's copy of the pool (crates/programs/src/model/pool.rs, the IDL `Pool` type): the same operations,
    #    domains and event format from harness/h-sdk/src/bin/c15s.rs, judged by the same Trace_Pool / Wide_Pool
    ctx.build("h-sdk", "c15s")
    for mode, args in (("small", ["small", "--pmax", 40, "--imax", 4 if ctx.quick else 12]),
                       ("random", ["random", "--seed", ctx.seed, "--n", 1500 if ctx.quick else 20000])):
        tr = ctx.path("sdk-%s.ndjson" % mode)
        ctx.run_bin("c15s", args + ["--out", tr])
        fails, drifts, _ = ctx.validate_trace("Trace_Pool", tr)
        ev = vlib.read_ndjson(tr)
        seen |= {("sdk",) + key(e) for e in ev}
        for f in fails[:100]:
            e = ev[f["i"] - 1]
            c = classify(e, f["mon"])
            c["target"] = "sdk"
            ctx.report(c, {"driver": "h-sdk c15s " + mode, "event": e})
    swp = ctx.path("sdk-wide.ndjson")
    ctx.run_bin("c15s", ["wide", "--seed", ctx.seed, "--n", 30 if ctx.quick else 500, "--out", swp])
    swev = vlib.read_ndjson(swp)
    sres = vlib.apalache_events(ctx, "Wide_Pool", ["Pool", "PoolProps"], swev, SCHEMA, "CInit128",
                                ["bad", "drift"], chunk=100 if ctx.quick else 250)
    ctx.evaluations += len(swev)
    seen |= {("sdk",) + key(e) for e in swev}
    ctx.cov["samples"].append(swev[0])
    for i in sres["bad"][:100]:
        e = swev[i - 1]
        c = classify(e, "Wide")
        c["target"] = "sdk"
        ctx.report(c, {"driver": "h-sdk c15s wide", "event": e})
    if sres["drift"]:
        ctx.drift += len(sres["drift"])
        ctx.drift_first = ctx.drift_first or swev[sres["drift"][0] - 1]
    ctx.distinct += len(seen)
    ctx.assumptions += ["full-width (u128) totals and deltas are a boundary-biased sample; the small domain is exhaustive",
                        "the SDK copy (crates/programs/src/model/pool.rs) runs the same domains through h-sdk c15s; its wide "
                        "tier starts with the u128 limits (totals MAX, MAX-1, 2^127 +- 1) deterministically"]
    ctx.cov["trusted_base"] += ["TLC", "Apalache/Z3", "harness h-programs c15 driver", "hook pool::verif (raw amounts, pure flag)",
                                "harness h-sdk c15s driver (SDK Pool, public fields)"]
    return ctx.finish("model_checking",
                      "every (stored state, operation) pair: pure totals 0..40, impure l,s in a square, deltas -40..40 per side / "
                      "9x9 both-side pairs, cancel; random 4-step sequences on one pool object; boundary-biased u128 calls; "
                      "distinct = distinct (op, pure, deltas, state before)",
                      extra={"wide_events": len(wev)}, exhaustive=False)
