"""C39 The competition leaderboard is the top traders by volume.
Spec: Leaderboard.tla (on_executed transcribed), LeaderboardProps.tla (monitors), MC_Leaderboard (bounded
design check + one shortest path per distinct state), Trace_Leaderboard (TLC judges the real program).
Binding: every operation is a real `gmsol_competition::entry` call (`on_executed`) on fabricated accounts."""
import vlib


def classify(e, mon):
    return {"monitor": mon, "op": e["op"], "t": e["t"], "now": e["now"],
            "board_len": len(e["post"]["board"]), "extended": e["post"]["end"] != e["pre"]["end"]}


def judge(ctx, name, tr, stats):
    fails, drifts, _ = ctx.validate_trace("Trace_Leaderboard", tr)
    ev = vlib.read_ndjson(tr)
    for e in ev:
        pre, post = e["pre"], e["post"]
        if post != pre:
            stats["changed"] += 1
        on = {x["a"] for x in post["board"]}
        if len(post["board"]) == 5 and any(v > 0 and (i + 1) not in on for i, v in enumerate(post["vol"])):
            stats["left_off"] += 1
        if post["end"] > pre["end"]:
            stats["extended"] += 1
            if post["end"] == e["now"] + e["c"]["cap"] and post["end"] < pre["end"] + e["c"]["ext"]:
                stats["capped"] += 1
        if post == pre and not (e["success"] and e["hasev"]):
            stats["ignored"] += 1
        if e["panic"]:
            stats["panics"] += 1
    ctx.cov["samples"] += [ev[len(ev) // 2], ev[-1]]
    for f in fails:
        e = ev[f["i"] - 1]
        ctx.report(classify(e, f["mon"]), {"driver": "h-aux c39 " + name, "event": e})
    return len(ev)


def run(ctx):
    ctx.build("h-aux", "c39")
    q = ctx.quick
    stats = {"changed": 0, "left_off": 0, "extended": 0, "capped": 0, "ignored": 0, "panics": 0}
    # 1. the design satisfies the monitors: 7 traders x volumes 1..3 x 8 calls (quick: 6 x 6)
    ctx.model_check("MC_Leaderboard", cfg="MC_Leaderboard_q" if q else "MC_Leaderboard", workers=8,
                    timeout=2400, expect_actions=["Step"])
    # 2. one shortest path per distinct state of the bounded models, replayed on the real program
    total = 0
    for cfg in (("MC_Leaderboard_paths_q", "MC_Leaderboard_time_q") if q else
                ("MC_Leaderboard_paths", "MC_Leaderboard_time")):
        r = ctx.model_check("MC_Leaderboard", cfg=cfg, workers=8, timeout=1500, expect_actions=["Step"])
        paths = r.tagged("T")
        if len(paths) != r.distinct - 1:
            raise vlib.ToolError("%s printed %d paths for %d states" % (cfg, len(paths), r.distinct))
        pp, tr = ctx.path(cfg + ".paths.ndjson"), ctx.path(cfg + ".trace.ndjson")
        vlib.write_ndjson(pp, paths)
        ctx.run_bin("c39", ["replay", "--in", pp, "--out", tr])
        total += judge(ctx, "replay " + cfg, tr, stats)
    for k in ("left_off", "extended", "capped", "ignored"):
        if stats[k] == 0 and not ctx.violations:
            raise vlib.ToolError("vacuity: no replayed model path of class %s" % k)
    # 3. random runs: random configuration, 2..9 participants, clock running past the end
    tr = ctx.path("random.ndjson")
    ctx.run_bin("c39", ["random", "--seed", ctx.seed, "--n", 150 if q else 1500, "--len", 40, "--out", tr])
    total += judge(ctx, "random --seed %s" % ctx.seed, tr, stats)
    ctx.distinct += stats["changed"]
    if stats["panics"]:
        ctx.note("%d call(s) panicked" % stats["panics"])
    ctx.assumptions += ["volumes and times are small (no u128/i64 saturation); saturation is outside the explored world",
                        "participants are pre-created; accounts are fabricated in memory, the handler and Anchor's account validation are the program's own"]
    ctx.cov["trusted_base"] += ["TLC", "h-aux rt (syscall stubs, account buffers)", "h-aux c39 driver (fabrication and projection of accounts)"]
    return ctx.finish("model_checking",
                      "one real on_executed call per distinct state of the bounded models (6 traders x volumes 1..3 behind a 4-call prefix, and "
                      "2 traders with time steps, failed/event-less/decreasing calls) plus random runs; distinct = calls "
                      "that changed the state",
                      extra={"classes": stats, "calls": total}, exhaustive=False)
