"""C40 The SDK market model agrees with the on-chain program.
Spec: MarketView.tla (one account image, the program's and the SDK's projection transcribed separately),
MarketViewProps.tla (monitor prog = sdk), MC_MarketView (every flag combination / pool shape),
Trace_MarketView (TLC trace validation of side-by-side views, layouts, action results and discounts
recorded from the real program code and the real SDK code on the same bytes)."""
import json
import vlib



def vacuity(ctx, msg):
    """a vacuity alarm is a tool error only when nothing else explains the missing cases: with violations or
    drift on record the verdict comes first and the alarm is demoted to a note"""
    if ctx.violations or ctx.drift:
        ctx.note("vacuity (demoted: violations or drift on record): " + msg)
    else:
        raise vlib.ToolError("vacuity: " + msg)

def diff_keys(e):
    ks = sorted(set(e["prog"]) | set(e["sdk"]))
    return [k for k in ks if e["prog"].get(k) != e["sdk"].get(k)]


def classify(e, mon):
    d = diff_keys(e)
    return {"monitor": mon, "kind": e["kind"], "class": e["class"], "name": e["name"], "differs": d[:8],
            "first": {"key": d[0], "prog": e["prog"].get(d[0]), "sdk": e["sdk"].get(d[0])} if d else None}


def run(ctx):
    ctx.build("h-sdk", "c40")
    # 1. the two transcribed projections agree on every image of the bounded model
    ctx.model_check("MC_MarketView", workers=8, timeout=600)
    # 2. real code: random account images through the program's trait impls and through the SDK model
    tr = ctx.path("random.ndjson")
    seed = ctx.seed
    if ctx.replay_file:
        seed = json.load(open(ctx.replay_file)).get("seed", ctx.seed)
    ctx.run_bin("c40", ["random", "--seed", seed, "--n", 400 if ctx.quick else 6000, "--out", tr])
    fails, _, _ = ctx.validate_trace("Trace_MarketView", tr)
    ev = vlib.read_ndjson(tr)
    seen = {}
    for f in fails:
        e = ev[f["i"] - 1]
        c = classify(e, f["mon"])
        k = (c["kind"], c["class"], tuple(c["differs"][:2]))
        seen[k] = seen.get(k, 0) + 1
        if seen[k] <= 10 or vlib.match_known(ctx.pid, c) is not None:
            ctx.report(c, {"driver": "h-sdk c40 random --seed %s" % seed, "event": e})
    kinds = {}
    for e in ev:
        kinds[e["kind"] + "/" + e["class"]] = kinds.get(e["kind"] + "/" + e["class"], 0) + 1
    acts = [e for e in ev if e["kind"] == "action"]
    ok_acts = sum(1 for e in acts if not e["prog"]["report"].startswith("Err") and e["prog"]["report"] != "panic")
    by_act = {}
    for e in acts:
        if not e["prog"]["report"].startswith("Err"):
            a = e["name"].split("(")[0].split("#")[0]
            by_act[a] = by_act.get(a, 0) + 1
    closed = sum(1 for e in ev if e["kind"] == "view" and e["prog"].get("flag.closed") == "true")
    pure = sum(1 for e in ev if e["kind"] == "view" and e["prog"].get("flag.pure") == "true")
    for need in ("view/wild", "view/plausible", "layout/sizes", "layout/offsets", "action/pure", "action/impure",
                 "discount/wild", "discount/plausible"):
        if kinds.get(need, 0) == 0:
            vacuity(ctx, "no event of kind %s" % need)
    for a in ("Deposit", "Withdraw", "Swap", "Distribute"):
        if by_act.get(a, 0) == 0:
            vacuity(ctx, "no successful %s action" % a)
    if closed == 0 or pure == 0:
        vacuity(ctx, "closed=%d pure=%d" % (closed, pure))
    ctx.distinct += len({json.dumps(e["prog"], sort_keys=True) for e in ev})
    ctx.cov["samples"] += [ev[0], ev[2], next(e for e in acts if not e["prog"]["report"].startswith("Err"))]
    ctx.cov["trusted_base"] += ["TLC", "harness h-sdk c40 driver: ONE generic projection function applied to both types; "
                                "ProgModel adapter (program parameters + program Pool type, harness-owned pool map)",
                                "hook gmsol_programs::model::clock_verif (pins the SDK model's wall clock); "
                                "solana program_stubs Clock sysvar for the program side"]
    ctx.assumptions += ["Market images: every byte random ('wild', views only; the pool is_pure byte is 0/1) and "
                        "plausible parameters with every flag combination (views and actions)",
                        "order_fee_params: discount_factor None (program's read-only Market) and Some(0) (SDK default) "
                        "are the same parameters (FeeParams::discount_factor reads None as zero)",
                        "program-side actions run the model crate on the program's trait impls for parameters and "
                        "the program's Pool type, not through RevertibleMarket (not constructible without hooks)",
                        "the SDK keeps its MarketFlag enum private; its flag view is the raw container decoded in the "
                        "documented order, except is_pure() which is public"]
    return ctx.finish("model_checking",
                      "random account images (all bytes random / plausible), all read accessors of the model traits for "
                      "both sides, sizes and offsets, %d model actions (%d successful), discounts; distinct = distinct "
                      "program-side projections" % (len(acts), ok_acts),
                      extra={"event_kinds": kinds, "successful_actions": by_act, "closed_markets": closed,
                             "pure_markets": pure}, exhaustive=False)
