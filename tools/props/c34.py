"""C34 Fixed-capacity maps behave like sorted maps until full.
Spec: FixedMap.tla (ordinary-map reference + the same on sorted entry sequences), FixedMapProps.tla
(monitors), MC_FixedMap (keys 5, Cap 3, values 2: every reachable (map, op) pair, prints one op
sequence per transition), Trace_FixedMap (TLC trace validation).  Drivers: h-model c34 (the macro
instantiated at capacities 1..512 and three key shapes), h-programs c34p (the store's RoleMap, Members,
Tokens)."""
import vlib


def classify(e, mon):
    return {"monitor": mon, "tgt": e["tgt"], "cap": e["cap"], "op": e["op"], "k": e["k"], "new": e["new"],
            "pre_len": len(e["pre"]), "panic": e["panic"]}


def run(ctx):
    ctx.build("h-model", "c34")
    ctx.build("h-programs", "c34p")
    r = ctx.model_check("MC_FixedMap", workers=4)
    paths = r.tagged("P")
    if len(paths) < 4000:
        raise vlib.ToolError("MC_FixedMap printed only %d paths" % len(paths))
    pp = ctx.path("paths.ndjson")
    vlib.write_ndjson(pp, paths)
    n_rand = 1200 if ctx.quick else 12000
    big_every = 16 if ctx.quick else 2
    runs = []
    for bin_ in ("c34", "c34p"):
        a = ctx.path("%s-replay.ndjson" % bin_)
        ctx.run_bin(bin_, ["replay", "--in", pp, "--seed", ctx.seed, "--big-every", big_every, "--out", a])
        b = ctx.path("%s-random.ndjson" % bin_)
        ctx.run_bin(bin_, ["random", "--seed", ctx.seed, "--n", n_rand, "--out", b])
        runs += [(a, "%s replay (paths of MC_FixedMap) --seed %s" % (bin_, ctx.seed)), (b, "%s random --seed %s" % (bin_, ctx.seed))]
    distinct = set()
    full_rejects = {}
    for path, drv in runs:
        fails, drifts, _ = ctx.validate_trace("Trace_FixedMap", path, timeout=3000, heap="8g")
        ev = vlib.read_ndjson(path)
        for e in ev:
            distinct.add((e["tgt"], e["op"], e["k"], e["v"], e["new"], tuple(map(tuple, e["pre"]))))
            if e["op"] == "insert" and len(e["pre"]) >= e["cap"] and not e["ok"] and all(p[0] != e["k"] for p in e["pre"]):
                full_rejects[e["tgt"]] = full_rejects.get(e["tgt"], 0) + 1
        ctx.cov["samples"] += [{k: (v if k not in ("pre", "post") else v[:4]) for k, v in ev[len(ev) // 2].items()}]
        for f in fails:
            e = ev[f["i"] - 1]
            ctx.report(classify(e, f["mon"]), {"driver": drv, "event": e})
    tgts = {t for (t, *_rest) in distinct}
    missing = [t for t in tgts if full_rejects.get(t, 0) == 0]
    if missing:
        raise vlib.ToolError("vacuity: no 'full map + new key' insert was exercised on %s" % missing)
    ctx.distinct += len(distinct)
    ctx.note("insert() (the convenience wrapper) is insert_with_options(..).expect(\"must be success\"): it panics by "
             "construction on a full map with a new key; the drivers only call it where it cannot fail and judge the "
             "fallible insert_with_options for the 'full + new key' clause")
    ctx.assumptions += ["keys are logged as ranks in byte order (the driver sorts its key universe by the 32-byte / 2-byte key)",
                        "PriceMap (512), GlvMarkets, DisabledMap, treasury TokenMap/TokenBalances have value types that need "
                        "program state to construct; the macro is instantiated in the driver at their capacities and key widths instead",
                        "maps larger than 3 are pre-filled with capacity - 3 other keys so that the model's 'full' is the real 'full'"]
    ctx.cov["trusted_base"] += ["TLC", "harness c34 engine (h-model/src/c34_engine.rs) and drivers c34 / c34p"]
    return ctx.finish("model_checking",
                      "every reachable (map, operation) pair of the bounded model (131 maps x 36 operations) replayed through a "
                      "prefix trie on 12 real instantiations (capacities 1, 2, 3, 8, 16, 32, 64, 256, 512; str / Pubkey / 2-byte keys; "
                      "store RoleMap, Members, Tokens), 512/256 on every %d-th path; plus seeded random sequences over capacity + 6 "
                      "keys biased to full maps; distinct = distinct (instantiation, op, args, contents before)" % big_every,
                      extra={"full_map_new_key_rejections": full_rejects}, exhaustive=False)
