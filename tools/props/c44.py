"""C44 Multi-market swaps follow the declared path and move recorded balances.
Spec: SwapPath.tla (path validation at creation / execution, hop semantics on the Vaults state),
SwapPathProps.tla (monitors), MC_SwapPath (ALL paths of length 0..3 over 4 markets / 3 tokens, as order /
deposit / withdrawal; design-level execution judged by the monitors; cases printed for the driver),
Trace_SwapPath (TLC trace validation of the REAL instructions; the hops are the SwapExecuted CPI events)."""
import json
import vlib


def classify(e, mon):
    return {"monitor": mon, "op": e["op"], "step": e["step"], "dir": e["dir"], "ok": e["ok"], "err": e["err"],
            "forged": e["forged"], "path_len": len(e["path"]) + len(e["path2"])}


def run(ctx):
    ctx.build("h-runtime", "c44")
    # 1. design: every path, monitors on the design-level execution; cases for the driver
    r = ctx.model_check("MC_SwapPath", workers=8, timeout=1500, coverage=False)
    cases, seen = [], set()
    for t in r.tagged("T"):
        k = json.dumps(t, sort_keys=True)
        if k not in seen:
            seen.add(k)
            cases.append(t)
    if len(cases) < 3000:
        raise vlib.ToolError("MC_SwapPath printed only %d cases" % len(cases))
    cp = ctx.path("cases.ndjson")
    vlib.write_ndjson(cp, cases)
    tr = ctx.path("enumerate.ndjson")
    out = ctx.run_bin("c44", ["enumerate", "--in", cp, "--out", tr], timeout=3000)
    stat = json.loads(out.strip().splitlines()[-1])["stats"]
    vlib.log("  enumerate: %d cases, %d instructions (%d ok), %d swap hops" % (stat["cases"], stat["instructions"], stat["ok_instructions"], stat["hops"]))
    classes = dict(stat["classes"])
    instr, hops = stat["instructions"], stat["hops"]
    traces = [("enumerate", tr)]
    seeds = [ctx.seed] if ctx.quick else [ctx.seed + k for k in range(6)]
    for k, s in enumerate(seeds):
        rp = ctx.path("random%d.ndjson" % k)
        out = ctx.run_bin("c44", ["random", "--seed", s, "--n", 5000 if ctx.quick else 30000, "--len", 14, "--out", rp], timeout=3000)
        st = json.loads(out.strip().splitlines()[-1])["stats"]
        instr += st["instructions"]
        hops += st["hops"]
        for c, n in st["classes"].items():
            classes[c] = classes.get(c, 0) + n
        traces.append(("random seed %d" % s, rp))
    # model prediction vs code on the enumerated cases (creation accepted / executed): drift only
    ev = vlib.read_ndjson(tr)
    created = sum(1 for e in ev if e["op"].startswith("create_") and e["ok"] and e["step"] in ("order", "into"))
    want = sum(1 for c in cases if c["dir"] in ("order", "into") and c["created"])
    if created != want:
        ctx.note("creation accepted %d order/deposit cases, the specification %d" % (created, want))
        ctx.drift += abs(created - want)
    distinct = set()
    multi = rejected_exec = 0
    for name, path in traces:
        fails, drifts, _ = ctx.validate_trace("Trace_SwapPath", path, timeout=3000, heap="6g")
        ev = vlib.read_ndjson(path)
        for e in ev:
            if e["op"].startswith("execute") and e["ok"] and e["astate"] == "completed" and e["hops"]:
                distinct.add((e["dir"], e["current"], tuple(e["path"]), tuple(e["path2"]), e["tin"], e["tin2"], tuple(h["ain"] for h in e["hops"])))
                if len(e["hops"]) >= 2:
                    multi += 1
            if e["forged"] and not (e["ok"] and e["astate"] == "completed"):
                rejected_exec += 1
            if e["op"].startswith("create") and not e["ok"]:
                distinct.add((e["op"], e["current"], tuple(e["path"]), e["tin"], e["err"]))
        ctx.cov["samples"] += [ev[len(ev) // 3], ev[-1]]
        for f in fails:
            e = ev[f["i"] - 1]
            ctx.report(classify(e, f["mon"]), {"driver": "h-runtime c44 (%s)" % name, "event": e})
    ctx.distinct += len(distinct)
    need = ["create_order/InvalidSwapPath", "create_deposit/InvalidSwapPath", "create_withdrawal/InvalidSwapPath", "execute_order/ok",
            "execute_deposit/ok", "execute_withdrawal/ok", "direct_primary/InvalidSwapPath", "direct_secondary/InvalidSwapPath"]
    missing = [c for c in need if c not in classes]
    if (missing or multi < 10 or rejected_exec < 5) and not ctx.violations:
        raise vlib.ToolError("vacuity: missing %s, multi-hop executions %d, rejected forged executions %d" % (missing, multi, rejected_exec))
    ctx.cov["per_class"] = {c: classes[c] for c in sorted(classes)}
    ctx.cov["instructions_executed"] = instr
    ctx.cov["swap_hops_executed"] = hops
    ctx.cov["multi_hop_executions"] = multi
    ctx.cov["forged_paths_rejected_at_execution"] = rejected_exec
    ctx.cov["trusted_base"] += ["TLC", "h-runtime in-process program runtime (account/CPI emulation, capture of emit_cpi events)",
                                "world R2 set-up (fabricated: zeroed Oracle account, prices in the custom PriceFeed accounts); for the "
                                "rejection-at-execution cases the stored swap path of a created action is overwritten by the harness",
                                "decoding of SwapExecuted events and projection of Market balances / vault amounts"]
    ctx.assumptions += [
        "paths up to length 3 over 4 markets / 3 tokens exhaustively (valid and invalid), as MarketSwap order, long side of a deposit, "
        "long side of a withdrawal; random scripts add both-side paths; the ten-step limit itself is covered only by creation "
        "(InvalidSwapPathLength is not reached with paths of length <= 3)",
        "constant prices, swap fees and impact configured; amounts below 2^31",
        "for withdrawals the input of a side is what the market pays out (not logged): a side may be absent from the hops, and the "
        "current market's balance is judged by the vault-total monitor only"]
    return ctx.finish("model_checking",
                      "distinct = distinct executed swaps (direction, market, declared paths, input tokens, hop input amounts) plus "
                      "distinct rejected creations (instruction, market, path, token, error)",
                      exhaustive=False)
