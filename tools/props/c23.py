"""C23 User actions complete or cancel exactly once and escrow always goes home.
Spec: ActionLifecycle.tla (precise create / execute / close / expiry incl. every rejection),
ActionLifecycleProps.tla (monitors), MC_ActionLifecycle (bounded model: 2 actions x 3 actors x execution
modes, all interleavings; monitors on every step of the design; one history per distinct state),
Trace_ActionLifecycle (TLC trace validation of the REAL create_* / execute_* / close_* instructions of
deposits, withdrawals, swap orders and shifts run by the in-process runtime in world R2)."""
import json
import vlib

KINDS = ("deposit", "withdrawal", "order", "shift")


def classify(e, mon):
    return {"monitor": mon, "op": e["op"], "kind": e["kind"], "by": e["by"], "mode": e["mode"], "ok": e["ok"],
            "err": e["err"], "pre_state": e["pre"]["st"].get(e["a"], "none")}


def run(ctx):
    ctx.build("h-runtime", "c23")
    # 1. the design satisfies the monitors: all interleavings of 2 actions, 3 actors, all modes
    depth = 6 if ctx.quick else 9
    cfg = "MC_ActionLifecycle" if ctx.quick else "MC_ActionLifecycle_thorough"
    r = ctx.model_check("MC_ActionLifecycle", cfg=cfg, workers=8, timeout=1500,
                        expect_actions=["DoCreate", "DoExecute", "DoClose", "DoTick"])
    # 2. spec -> implementation: one history per distinct state, then EVERY operation attempted there
    paths, seen = [], set()
    for t in r.tagged("T"):
        k = json.dumps(t["st"], sort_keys=True)
        if k not in seen and len(t["path"]) <= depth:
            seen.add(k)
            paths.append(t)
    plan = [(kind, paths) for kind in KINDS]
    traces, stat_all, replayed = [], {"states": 0, "unreachable": 0, "state_mismatch": 0, "instructions": 0}, 0
    classes = {}
    for k, (kinds, ps) in enumerate(plan):
        pp = ctx.path("paths%d.ndjson" % k)
        vlib.write_ndjson(pp, ps)
        tr = ctx.path("replay%d.ndjson" % k)
        # the closes of keeper-created cut orders (liquidate / auto_deleverage) are appended to the first trace only
        out = ctx.run_bin("c23", ["replay", "--in", pp, "--out", tr, "--kinds", kinds, "--cuts", "yes" if k == 0 else "no"], timeout=3000)
        stat = json.loads(out.strip().splitlines()[-1])
        vlib.log("  replay %s: states=%d unreachable=%d mismatch=%d events=%d instructions=%d" % (
            kinds, stat["states"], stat["unreachable"], stat["state_mismatch"], stat["events"], stat["instructions"]))
        for key in stat_all:
            stat_all[key] += stat[key]
        for c, n in stat["classes"].items():
            classes[c] = classes.get(c, 0) + n
        if stat["unreachable"] or stat["state_mismatch"]:
            ctx.note("replay (%s): %d model states not reached by the real code, %d reached with a different state; first: %s"
                     % (kinds, stat["unreachable"], stat["state_mismatch"], json.dumps(stat["first_mismatch"])[:600]))
            ctx.drift += stat["unreachable"] + stat["state_mismatch"]
        traces.append(("replay " + kinds, tr))
    # 3. implementation -> spec: random histories mixing the kinds
    seeds = [ctx.seed] if ctx.quick else [ctx.seed + k for k in range(4)]
    for k, s in enumerate(seeds):
        rp = ctx.path("random%d.ndjson" % k)
        out = ctx.run_bin("c23", ["random", "--seed", s, "--n", 1500 if ctx.quick else 12000, "--out", rp], timeout=3000)
        stat = json.loads(out.strip().splitlines()[-1])
        stat_all["instructions"] += stat["instructions"]
        for c, n in stat["classes"].items():
            classes[c] = classes.get(c, 0) + n
        traces.append(("random seed %d" % s, rp))
    seen_ev = set()
    for name, path in traces:
        fails, drifts, _ = ctx.validate_trace("Trace_ActionLifecycle", path, timeout=3000)
        ev = vlib.read_ndjson(path)
        for e in ev:
            seen_ev.add((e["kind"], e["op"], e["a"], e["by"], e["strict"], e["mode"], json.dumps(e["pre"]["st"], sort_keys=True),
                         json.dumps(e["pre"]["strict"], sort_keys=True), json.dumps(e["pre"]["expired"], sort_keys=True)))
        ctx.cov["samples"] += [ev[len(ev) // 2], ev[-1]]
        for f in fails:
            e = ev[f["i"] - 1]
            ctx.report(classify(e, f["mon"]), {"driver": "h-runtime c23 (%s)" % name, "event": e,
                                               "events": ev[max(0, f["i"] - 3):f["i"]]})
    ctx.distinct += len(seen_ev)
    # vacuity: the antecedents of the monitors were exercised for every kind
    need = []
    for kind in KINDS:
        need += ["%s/execute/keeper/normal/ok" % kind, "%s/close/owner/normal/ok" % kind, "%s/close/keeper/normal/ok" % kind,
                 "%s/close/keeper/normal/PermissionDenied" % kind, "%s/execute/stranger/normal/PermissionDenied" % kind]
    # closed keeper-created actions (creator = keeper, owner = the position owner)
    need += ["cut_liquidate/close/keeper/normal/ok", "cut_adl/close/keeper/normal/ok", "cut_liquidate/close/owner/normal/ok",
             "cut_adl/close/owner/normal/ok"]
    missing = [c for c in need if c not in classes]
    if missing and not ctx.violations:
        raise vlib.ToolError("vacuity: classes never observed in the traces: %s" % missing)
    ctx.cov["per_class"] = {c: classes[c] for c in sorted(classes)}
    ctx.cov["replayed_states"] = stat_all["states"]
    ctx.cov["instructions_executed"] = stat_all["instructions"]
    ctx.cov["action_kinds_bound_to_code"] = list(KINDS)
    ctx.cov["trusted_base"] += ["TLC", "h-runtime in-process program runtime (account/CPI emulation, System program; real SPL Token / ATA processors)",
                                "world R2 set-up (h-runtime/src/world2.rs): zeroed Oracle account and the prices written into the custom "
                                "PriceFeed accounts are fabricated (PriceFeed hook set_state); everything else is created by real instructions",
                                "c23 driver projection (ActionHeader state, SPL balances, lamports, market digests)"]
    ctx.assumptions += [
        "kinds bound to code: deposit, withdrawal, swap order (MarketSwap), shift; increase/decrease/limit orders and GLV actions are "
        "covered by the specification only",
        "soft failures: unreachable minimum output fixed at creation (slippage) and request expiry (clock + 3601 s); hard failures: "
        "executor without ORDER_KEEPER, throw_on_execution_error = true, a vault of the wrong token, non-pending / missing action",
        "'without touching any market' is judged on a digest of every market's pools, clocks, balances, trade count and funding "
        "factor and on all vault balances; the revision counters of the revertible buffer (advanced by every transfer-in / "
        "transfer-out pair) are excluded, so the market accounts are not byte-identical after a soft failure",
        "the executor of execute_* / close_* is loaded writable like a transaction fee payer (the programs pay the execution fee to it)",
        "a closed action address is not created again (that would be a new action)",
        "keeper-created actions: the completed orders that liquidate / auto_deleverage create (whole-position cuts of positions "
        "opened by real MarketIncrease orders, all side / collateral combinations, PnL swap succeeding and failing) are closed by the "
        "keeper and, on a copy, by the position owner; judged by TerminalClosable, CloseAuth, EscrowHome",
        "the keeper claims 100 000 of the 300 000 execution lamports per execution, so that a second execution of an already "
        "terminal action would be payable (and is then judged by ExecOnce / TerminalKept) instead of failing on the fee"]
    return ctx.finish("model_checking",
                      "distinct = distinct (kind, abstract pre-state, operation, actor, mode) executed through the real "
                      "instructions; every operation incl. the ones the specification rejects is attempted from every "
                      "replayed model state",
                      exhaustive=bool(not ctx.quick and not ctx.drift and r.ok))
