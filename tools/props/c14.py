"""C14 Position impact distribution respects the pool floor.
Spec: Distribution.tla (precise operators), DistributionProps.tla (monitors), MC_Distribution (bounded
exhaustive model, step monitors on every transition), Trace_Distribution (TLC trace validation)."""
import json
import vlib

# the finite domain: must equal the CONSTANTS of specs/MC_Distribution*.cfg
DOMAIN = {
    "quick":    {"cfg": "MC_Distribution", "amts": "0..40", "mins": "0..41",
                 "rates": "0,1,4,9,10,15,23,30", "dts": "0,1,2,3,7,10"},
    "thorough": {"cfg": "MC_Distribution_thorough", "amts": "0..60", "mins": "0..61",
                 "rates": "0,1,3,5,9,10,15,23,30", "dts": "0,1,2,3,5,7,10"},
}


def classify(e, mon):
    if e["amount"] <= e["min"]:
        cls = "at_or_below_min"
    elif e["rate"] == 0 or e["dt"] == 0:
        cls = "nothing_due"
    elif e["ok"] and e["d"] == e["amount"] - e["min"]:
        cls = "capped"
    else:
        cls = "uncapped"
    return {"monitor": mon, "op": e["op"], "class": cls, "amount": e["amount"], "min": e["min"],
            "rate": e["rate"], "dt": e["dt"]}


def nontrivial(e):
    return e["amount"] > e["min"] and e["rate"] > 0 and e["dt"] > 0


def judge(ctx, module, tr, driver, cfg=None):
    fails, drifts, _ = ctx.validate_trace(module, tr, cfg=cfg)
    ev = vlib.read_ndjson(tr)
    for f in fails:
        i = f["i"] - 1
        j = i
        while j > 0 and not ev[j]["reset"]:
            j -= 1
        ctx.report(classify(ev[i], f["mon"]), {"driver": driver, "events": ev[j:i + 1]})
    return ev


def run(ctx):
    ctx.build("h-model", "c14")
    if ctx.replay_file:
        rp = json.load(open(ctx.replay_file))
        inp = ctx.path("replay-in.ndjson")
        vlib.write_ndjson(inp, rp["replay"]["events"])
        tr = ctx.path("replay.ndjson")
        ctx.run_bin("c14", ["replay", "--in", inp, "--out", tr])
        ev = judge(ctx, "Trace_Distribution", tr, "h-model c14 replay")
        ctx.distinct += max(2, len(ev))
        return ctx.finish("exploration", "replay of one recorded case", exhaustive=False)
    dom = DOMAIN["quick" if ctx.quick else "thorough"]
    # 1. the design satisfies the monitors on every transition of the bounded model
    r = ctx.model_check("MC_Distribution", coverage=False, cfg=dom["cfg"], workers=8,
                            timeout=600 if ctx.quick else 1500)
    if r.depth < 2 or r.generated <= r.distinct:
        raise vlib.ToolError("vacuity: no distribution step explored in the bounded model")
    # 2. the same finite domain through the real code (state injection: one test per transition),
    #    plus chained histories of three distributions
    tr = ctx.path("small.ndjson")
    ctx.run_bin("c14", ["small", "--amts", dom["amts"], "--mins", dom["mins"], "--rates", dom["rates"],
                        "--dts", dom["dts"], "--out", tr])
    ev = judge(ctx, "Trace_Distribution", tr, "h-model c14 small")
    # 3. seeded random histories (1..6 distributions each), Unit = 10, and Unit = 100 in thorough
    n = 20000 if ctx.quick else 200000
    tr2 = ctx.path("random.ndjson")
    ctx.run_bin("c14", ["random", "--seed", ctx.seed, "--n", n, "--out", tr2])
    ev2 = judge(ctx, "Trace_Distribution", tr2, "h-model c14 random")
    ev3 = []
    if not ctx.quick:
        tr3 = ctx.path("random-u100.ndjson")
        ctx.run_bin("c14", ["random", "--decimals", 2, "--seed", ctx.seed + 1, "--n", n, "--out", tr3])
        ev3 = judge(ctx, "Trace_Distribution", tr3, "h-model c14 random --decimals 2", cfg="Trace_Distribution_u100")
    allev = ev + ev2 + ev3
    keys = {(e["amount"], e["min"], e["rate"], e["dt"]) for e in allev if nontrivial(e)}
    ctx.distinct += len(keys)
    capped = sum(1 for e in allev if nontrivial(e) and e["ok"] and e["d"] == e["amount"] - e["min"])
    uncapped = sum(1 for e in allev if nontrivial(e) and e["ok"] and 0 < e["d"] < e["amount"] - e["min"])
    chained = sum(1 for e in allev if not e["reset"])
    if not ctx.violations and min(capped, uncapped, chained) == 0:
        raise vlib.ToolError("vacuity: capped=%d uncapped=%d chained=%d" % (capped, uncapped, chained))
    ctx.cov["samples"] += [ev[len(ev) // 2], ev[-1], ev2[0]]
    ctx.cov["trusted_base"] += ["TLC", "harness h-model c14 driver and VMarket clock (harness-owned)"]
    ctx.assumptions += ["the elapsed time is what the harness clock was advanced by between two distributions "
                        "(the market's clock is a harness-owned implementation of the model's clock trait)",
                        "full-width values are not enumerated (the quantifier does not mention type limits)"]
    return ctx.finish("model_checking",
                      "every (amount, min, rate, dt) of the bounded model's sets through the real code by state "
                      "injection, chained triples, and seeded random histories; distinct = distinct tuples with "
                      "amount > min, rate > 0, dt > 0",
                      extra={"capped": capped, "uncapped": uncapped, "chained_events": chained,
                             "model_transitions": r.generated}, exhaustive=False)
