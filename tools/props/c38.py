"""C38 LP staking rewards follow the APY schedule and unstaking is fair.
Spec: Apy.tla (compute_time_weighted_apy, calculate_gt_reward_amount, unstake rule), ApyProps.tla (monitors),
MC_Apy (laws: code-shaped average = literal per-second average = week-grouped definition; reward monotone;
unstake rule satisfies the monitors), Trace_Apy (TLC judges calls of the real functions)."""
import vlib


def classify(e, mon):
    d = {"monitor": mon, "op": e["op"]}
    if e["op"] == "unstake":
        d.update({"claim": e["claim"], "full": e["full"], "ok": e["ok"]})
    if e["op"] == "apy":
        d.update({"elapsed": e["now"] - e["start"], "weeks": (e["now"] - e["start"]) // 604800})
    return d


def run(ctx):
    ctx.build("h-aux", "c38")
    q = ctx.quick
    # 1. laws on the specification (tiny week so that the literal per-second sum is evaluable)
    ctx.model_check("MC_Apy", cfg="MC_Apy_q" if q else "MC_Apy", workers=8, timeout=2400,
                    expect_actions=["AvgCase", "RewardCase", "UnstakeCase"])
    # 2. the real functions (hook gmsol_liquidity_provider::verif), real week length
    stats = {"apy_elapsed": 0, "apy_past_last_bucket": 0, "apy_partial_week": 0, "pairs_ordered": 0, "pairs_strict": 0}
    seen = set()
    total = 0
    stats.update({"wide_pairs_ordered": 0, "wide_below_2p64": 0, "wide_straddling_2p64": 0, "wide_both_saturated": 0})
    stats.update({"unstake_partial": 0, "unstake_full_request": 0, "unstake_forced_full": 0, "unstake_dust_swept": 0,
                  "unstake_rejected_claims_disabled": 0, "unstake_rejected_amount": 0, "unstake_value_rounded": 0})
    for name, args in (("small", ["small"]),
                       ("random", ["random", "--seed", ctx.seed, "--n", 4000 if q else 60000]),
                       # type-limit tier: u128 stake values / integrals, raw rewards around and far above 2^64 (BigNum records)
                       ("wide", ["wide", "--seed", ctx.seed, "--n", 800 if q else 8000]),
                       ("unstake", ["unstake", "--seed", ctx.seed, "--n", 1500 if q else 30000])):
        tr = ctx.path(name + ".ndjson")
        ctx.run_bin("c38", args + ["--out", tr])
        fails, drifts, _ = ctx.validate_trace("Trace_Apy", tr)
        ev = vlib.read_ndjson(tr)
        total += len(ev)
        for e in ev:
            if e["op"] == "apy":
                t = e["now"] - e["start"]
                if t > 0:
                    stats["apy_elapsed"] += 1
                    stats["apy_past_last_bucket"] += t // 604800 > 52
                    stats["apy_partial_week"] += t % 604800 != 0
                seen.add(("apy", t, tuple(e["g"])))
            elif e["op"] == "reward_pair_wide":
                if e["ok1"] and e["ok2"] and int(e["a1"]["s"]) <= int(e["a2"]["s"]) and int(e["c1"]["s"]) <= int(e["c2"]["s"]):
                    stats["wide_pairs_ordered"] += 1
                    stats["wide_below_2p64"] += not e["sat2"]
                    stats["wide_straddling_2p64"] += e["sat2"] and not e["sat1"]
                    stats["wide_both_saturated"] += e["sat1"] and e["sat2"]
                seen.add(("rww", e["b"]["s"], e["a1"]["s"], e["c1"]["s"], e["a2"]["s"], e["c2"]["s"]))
            elif e["op"] == "unstake":
                rem = e["amount"] - e["u"]
                if e["ok"]:
                    stats["unstake_partial"] += not e["full"]
                    stats["unstake_full_request"] += rem == 0
                    stats["unstake_forced_full"] += e["full"] and rem > 0
                    stats["unstake_dust_swept"] += e["full"] and e["vault"] > e["amount"]
                    stats["unstake_value_rounded"] += (not e["full"]) and (e["value"] * rem) % e["amount"] != 0
                else:
                    stats["unstake_rejected_claims_disabled"] += (not e["claim"]) and 0 < e["u"] < e["amount"]
                    stats["unstake_rejected_amount"] += e["u"] == 0 or e["u"] > e["amount"]
                seen.add(("un", e["amount"], e["value"], e["claim"], e["minv"], e["vault"], e["u"]))
            else:
                if e["ok1"] and e["ok2"] and e["a1"] <= e["a2"] and e["c1"] <= e["c2"]:
                    stats["pairs_ordered"] += 1
                    stats["pairs_strict"] += e["r1"] < e["r2"]
                seen.add(("rw", e["d"], e["b"], e["a1"], e["c1"], e["a2"], e["c2"]))
        ctx.cov["samples"] += [ev[len(ev) // 3], ev[-1]]
        for f in fails:
            e = ev[f["i"] - 1]
            ctx.report(classify(e, f["mon"]), {"driver": "h-aux c38 " + " ".join(map(str, args)), "event": e})
    ctx.distinct += len(seen)
    for k, v in stats.items():
        if v == 0 and not ctx.violations:        # a vacuity complaint must not hide reported violations
            raise vlib.ToolError("vacuity: no event of class %s" % k)
    ctx.assumptions += [
        "APY values are small integers (the average is scale free); sums stay below 2^31; u128 saturation of the average is "
        "outside the explored world; the reward's u64 saturation is covered by the type-limit tier (monotonicity judged on "
        "BigNum limbs; the exact reward formula is judged on the small tier only)",
        "the literal per-second average is compared with the code-shaped and the week-grouped formula for a 3-second week "
        "(TLC, all elapsed times up to 55 weeks); at the real week length the monitor uses the week-grouped definition",
        "unstake_lp runs through the program entry on fabricated accounts; the store (GT cumulative factor via return data, GT "
        "mint) and the token program (transfer_checked, close_account) are mocked at the CPI boundary; the transferred amount is "
        "the amount of the transfer instruction the program issued, the position is read back from its account"]
    ctx.cov["trusted_base"] += ["TLC", "h-aux c38 driver", "h-aux rt (syscall stubs, CPI recorder)", "hook gmsol_liquidity_provider::verif (thin wrappers)"]
    return ctx.finish("model_checking",
                      "gradient families x week-boundary elapsed times (two scales), all small ordered reward pairs, every unstake of "
                      "the model's finite domain (amount 1..6, value 0..12, request 0..7, policy, minimum, dust) plus random inputs; "
                      "distinct = distinct argument tuples",
                      extra={"classes": stats, "calls": total}, exhaustive=False)
