"""Helper shared by c02 / c03 / c14: the same contract as Ctx.model_check but WITHOUT TLC's
-coverage instrumentation (it slows the arithmetic-heavy enumeration models down ~10x; these models
consist of one enumeration step, vacuity is checked on the validated traces instead)."""
import re
import vlib


def model_check(ctx, module, cfg=None, workers=8, timeout=900, heap="8g"):
    mp = ctx.spec(module + ".tla")
    cp = ctx.spec((cfg or module) + ".cfg")
    r = vlib.tlc(mp, cp, workers=workers, timeout=timeout, coverage=False, heap=heap)
    vlib.log("  tlc %s: %d generated, %d distinct, depth %d, %.1fs%s" % (
        cfg or module, r.generated, r.distinct, r.depth, r.wall,
        "" if r.ok else " [NOT OK: %s]" % (r.violated or r.error)))
    if r.violated:
        raise vlib.ToolError("specification %s violates its own invariant %s (monitor calibration)\n%s"
                             % (module, r.violated, r.raw[-3000:]))
    if not r.ok:
        raise vlib.ToolError("TLC failed on %s: %s\n%s" % (module, r.error, r.raw[-3000:]))
    ctx.states += r.distinct
    ctx.transitions += r.generated
    return r


def action_count(r, name):
    """transitions taken by an action according to TLC's coverage output (0 if not reported)"""
    m = re.search(r"^<%s line [^>]*>: (\d+):(\d+)" % name, r.raw, re.M)
    return int(m.group(2)) if m else 0
