"""C32, instruction-level binding on the in-process runtime (helper module, not a registered property).
`run_rt(ctx)` builds and runs harness/h-runtime/src/bin/c32rt.rs: the REAL `settle_builder_fee` instruction (token CPI,
ATA constraints, event) and `close_order_v2` on orders of world R2 whose builder / recorded fee were written into the
Order account through the hooks states::order::verif::{set_builder, set_builder_fee_amount} (no instruction records a
builder fee yet: execute_*_position pass a factor of 0).  TLC judges the trace with Trace_BuilderFeeRt (monitors
prefixed "rt."), failures go through ctx.report, counts are added to ctx.  Returns nothing."""
import json
import vlib


def classify(e, mon):
    return {"monitor": mon, "op": e["op"], "variant": e["variant"], "kind": e["kind"], "ok": e["ok"], "err": e["err"],
            "binding": "runtime"}


def run_rt(ctx):
    ctx.build("h-runtime", "c32rt")
    tr = ctx.path("rt.trace.ndjson")
    out = ctx.run_bin("c32rt", ["run", "--out", tr])
    st = json.loads(out.strip().splitlines()[-1])["stats"]
    fails, drifts, _ = ctx.validate_trace("Trace_BuilderFeeRt", tr, timeout=1200)
    ev = vlib.read_ndjson(tr)
    stats = {"settled_recorded_lt_escrow": 0, "settled_recorded_eq_escrow": 0, "settled_recorded_gt_escrow": 0,
             "settled_empty_escrow": 0, "second_settlement_noop": 0, "nothing_recorded_noop": 0, "bad_accounts_rejected": 0,
             "close_unsettled_rejected": 0, "close_after_settlement": 0}
    prev = None
    for e in ev:
        p = e["pre"]
        if e["op"] == "settle" and e["ok"] and e["variant"] == "good":
            if p["recorded"] > 0:
                stats["settled_recorded_lt_escrow"] += p["recorded"] < p["escrow"]
                stats["settled_recorded_eq_escrow"] += p["recorded"] == p["escrow"]
                stats["settled_recorded_gt_escrow"] += p["recorded"] > p["escrow"] > 0
                stats["settled_empty_escrow"] += p["escrow"] == 0
            elif prev is not None and prev["op"] == "settle" and prev["variant"] == "good" and prev["pre"]["recorded"] > 0:
                stats["second_settlement_noop"] += 1
            else:
                stats["nothing_recorded_noop"] += 1
        stats["bad_accounts_rejected"] += e["op"] == "settle" and e["variant"] != "good" and not e["ok"]
        stats["close_unsettled_rejected"] += e["op"] == "close" and e["err"] == "UnsettledBuilderFee"
        stats["close_after_settlement"] += e["op"] == "close" and e["variant"] == "settled" and e["ok"]
        prev = e
    vlib.log("  c32rt: %d instructions, %s" % (st["instructions"], stats))
    ctx.distinct += len({(e["op"], e["variant"], e["kind"], json.dumps(e["pre"], sort_keys=True)) for e in ev})
    ctx.cov["samples"] += [ev[len(ev) // 2]]
    ctx.cov["rt_classes"] = stats
    ctx.cov["rt_instructions"] = st["instructions"]
    for f in fails:
        e = ev[f["i"] - 1]
        ctx.report(classify(e, f["mon"]), {"driver": "h-runtime c32rt run", "event": e})
    empty = [k for k, v in stats.items() if v == 0]
    if empty and not fails and not drifts:
        raise vlib.ToolError("vacuity (runtime binding): no event of class %s" % empty)
    ctx.assumptions += [
        "runtime binding: settle_builder_fee / close_order_v2 are the real instructions; the builder and the recorded fee amount "
        "are written into the Order account by the harness (hooks set_builder / set_builder_fee_amount) because no instruction "
        "records a builder fee while execute_*_position pass a factor of 0",
        "runtime binding: orders = completed MarketSwap (output in the escrow), pending MarketSwap (empty escrow), completed "
        "MarketDecrease; recorded in {0, 1, half, equal, +1, +1000, 2*10^9} relative to the escrow balance"]
    ctx.cov["trusted_base"] += ["h-runtime in-process program runtime + world R2 (real SPL Token / ATA processors)", "h-runtime c32rt driver"]
