"""C09 Positions are left healthy, and only unhealthy ones can be liquidated.
Spec: Position.tla (CheckLiquidatable, Increase, Decrease, LiquidationOrder, AdlOrder), PositionProps.tla
(monitors), MC_PositionC09 (bounded design check, prints the domain), Trace_PositionC09 (TLC trace validation of
the real increase / decrease / pnl-factor functions)."""
import collections
import vlib
from props import poslib

MONS = ("NoPanic", "IncreaseHealthy", "DecreaseHealthy", "Liquidation", "Adl")


def classify(e, mon):
    c = e["pre"]["m"]["c"]
    p = e["pre"]["p"]
    return {"monitor": mon, "op": e["op"], "long": p["long"], "clong": p["clong"],
            "class": "removed" if e["rep"]["remove"] else "open",
            "step": e["rep"]["step"], "tag": e.get("tag", ""),
            "liq_factor_differs": c["minCollFLiq"] != c["minCollF"]}


def case_of(e):
    return {"op": e["op"], "m": e["pre"]["m"], "p": e["pre"]["p"], "px": e["px"], "a": e["a"]}


def judge(ctx, name, tr, decimals, stats):
    fails, drifts, _ = ctx.validate_trace("Trace_PositionC09", tr, cfg=poslib.trace_cfg("Trace_PositionC09", decimals))
    ev = vlib.read_ndjson(tr)
    for e in ev:
        if e["ok"]:
            stats[(e["op"], "open" if not e["rep"]["remove"] else "removed")] += 1
    ctx.distinct += len({(e["op"], vlib.hashlib.md5(vlib.json.dumps([e["pre"], e["px"], e["a"]], sort_keys=True).encode()).hexdigest())
                         for e in ev if e["ok"]})
    if ev:
        ctx.cov["samples"] += [{k: ev[len(ev) // 2][k] for k in ("op", "a", "px", "ok", "rep")}]
    for f in fails:
        e = ev[f["i"] - 1]
        ctx.report(classify(e, f["mon"]), {"driver": "h-model c09 replay", "decimals": decimals, "cases": [case_of(e)],
                                           "source": name, "event": e})
    return ev


def run(ctx):
    ctx.build("h-model", "c09")
    stats = collections.Counter()
    rp = poslib.load_replay(ctx)
    if rp and rp.get("cases"):
        cp = ctx.path("replay-cases.ndjson")
        vlib.write_ndjson(cp, rp["cases"])
        tr = ctx.path("replay.ndjson")
        ctx.run_bin("c09", ["replay", "--in", cp, "--decimals", rp.get("decimals", 1), "--out", tr])
        judge(ctx, "replay-file", tr, rp.get("decimals", 1), stats)
        ctx.distinct = max(ctx.distinct, 2)
        return ctx.finish("exploration", "re-run of the recorded failing case(s) only", exhaustive=False)

    # 1. the design satisfies the monitors on the bounded domain; the same domain is replayed into the code
    cfg = "MC_PositionC09" if ctx.quick else "MC_PositionC09_thorough"
    r = poslib.model_check(ctx, "MC_PositionC09", cfg)
    cases = poslib.cases_from(r, ctx.path("cases.ndjson"))
    spec_ok = collections.Counter((x["op"], x["ok"]) for x in r.tagged("R"))
    tr = ctx.path("replay.ndjson")
    ctx.run_bin("c09", ["replay", "--in", ctx.path("cases.ndjson"), "--out", tr])
    ev = judge(ctx, "MC_PositionC09 domain", tr, 1, stats)
    if len(ev) != len(cases):
        raise vlib.ToolError("replay produced %d events for %d cases" % (len(ev), len(cases)))
    # 2. states reached by real operations (deterministic sweep)
    tr = ctx.path("small.ndjson")
    ctx.run_bin("c09", ["small", "--out", tr])
    poslib.stage(ctx, judge, ctx, "small", tr, 1, stats)
    # 3. random operation sequences at Unit = 100
    n = 4000 if ctx.quick else 60000
    tr = ctx.path("random.ndjson")
    ctx.run_bin("c09", ["random", "--seed", ctx.seed, "--n", n, "--decimals", 2, "--out", tr])
    poslib.stage(ctx, judge, ctx, "random", tr, 2, stats)

    # vacuity: every monitor's antecedent must have been true on real-code events
    need = {"IncreaseHealthy": stats[("increase", "open")],
            "DecreaseHealthy": stats[("decrease", "open")] + stats[("adl", "open")],
            "Liquidation": stats[("liquidate", "removed")],
            "Adl": stats[("adl", "open")] + stats[("adl", "removed")]}
    for mon, cnt in need.items():
        if cnt == 0 and not ctx.violations:
            raise vlib.ToolError("vacuity: the antecedent of monitor %s was never true on the validated traces" % mon)
    ctx.assumptions += [
        "the ADL guards and the 'liquidation must be a full close' guard live in programs/store/src/ops/order.rs; "
        "they are transcribed in Position.tla (AdlOrder, LiquidationOrder) and emulated by the driver around the REAL "
        "pnl_factor_exceeded / decrease / pnl_factor / pnl_factor_config of the model crate; the program lines themselves "
        "are not executed by this check",
        "liquidation orders are driven with size_delta_usd >= size_in_usd only (what the program guard lets through)",
        "decrease swaps (DecreasePositionSwapType != NoSwap) are not exercised",
        "small world: u64, Unit = 10 (bounded domain, sweep) and Unit = 100 (random); values < 2^31",
    ]
    ctx.cov["trusted_base"] += ["TLC", "harness h-model c09 driver + vmarket (state injection / projection)"]
    # instruction-level binding of the program guards (liquidate / update_adl_state / auto_deleverage in world R2)
    try:
        import props.c09rt as rt
        rt.run_rt(ctx)
    except ImportError:
        pass
    ctx.cov["antecedents"] = {k: int(v) for k, v in need.items()}
    ctx.cov["spec_outcomes"] = {"%s:%s" % k: v for k, v in sorted(spec_ok.items())}
    return ctx.finish("model_checking",
                      "bounded domain of MC_PositionC09 (markets x position fixtures x 5 prices x operations) replayed "
                      "case by case into the real code, a deterministic sweep over states reached by real increases, and "
                      "random operation sequences; distinct = distinct successful (op, pre-state, prices, arguments)",
                      extra={"model_cases": len(cases)}, exhaustive=False)
