"""C45 GLV vaults keep their composition and price in their own favour.
Spec: Glv.tla (GLV value, deposit / withdrawal pricing, balance limits, insert rule), GlvProps.tla (monitors),
MC_Glv (bounded design check), Trace_Glv (TLC judges calls of the real model functions and Glv state functions)."""
import vlib


def classify(e, mon):
    d = {"monitor": mon, "op": e["op"], "ok": e["ok"]}
    if e["op"] == "roundtrip":
        v = e["mk"][e["i"] - 1]
        d["class"] = ("withdrawal_pool_value_below_deposit" if v["pvWmax"] < v["pvDmin"] else
                      "orphan_balance" if e["pre"]["supply"] == 0 and any(e["pre"]["bal"]) else "other")
        d.update({"m": e["m"], "returned": e["returned"], "pvDmin": v["pvDmin"], "pvWmax": v["pvWmax"]})
    return d


def run(ctx):
    ctx.build("h-aux", "c45")
    q = ctx.quick
    # 1. design: all small GLV states x market views (pvDmin <= pvDmax, pvDmin <= pvWmax) x deposits + immediate withdrawal
    ctx.model_check("MC_Glv", cfg="MC_Glv_q" if q else "MC_Glv", workers=8, timeout=2400, expect_actions=["Next"])
    # 2. the real functions: structured grid, random runs (market configurations inside the convention
    #    max pnl factor for withdrawals <= for deposits), and an exploration outside the convention
    runs = [("small", ["small"]),
            ("random", ["random", "--seed", ctx.seed, "--n", 600 if q else 8000]),
            ("explore", ["random", "--seed", ctx.seed + 1, "--n", 300 if q else 3000, "--wf-above", 1])]
    stats = {"insert_rejected_tokens": 0, "insert_accepted": 0, "deposit_limited_amount": 0, "deposit_limited_value": 0,
             "deposits": 0, "withdrawals": 0, "roundtrips": 0, "roundtrip_lossy": 0, "spread_views": 0, "negative_pool_value": 0}
    seen = set()
    total = 0
    for name, args in runs:
        tr = ctx.path(name + ".ndjson")
        ctx.run_bin("c45", args + ["--out", tr])
        fails, drifts, _ = ctx.validate_trace("Trace_Glv", tr)
        ev = vlib.read_ndjson(tr)
        total += len(ev)
        for e in ev:
            if e["op"] == "insert":
                same = e["mlong"] == e["glong"] and e["mshort"] == e["gshort"]
                stats["insert_rejected_tokens"] += (not e["ok"]) and not same
                stats["insert_accepted"] += e["ok"]
                seen.add(("insert", e["glong"], e["gshort"], e["mlong"], e["mshort"], e["present"]))
                continue
            v = e["mk"][e["i"] - 1]
            stats["spread_views"] += v["pvDmin"] < v["pvDmax"]
            stats["negative_pool_value"] += v["pvDmin"] < 0
            if e["op"] == "deposit":
                stats["deposits"] += e["ok"]
                if not e["ok"] and "ExceedMaxGlvMarketTokenBalanceAmount" in e["err"]:
                    stats["deposit_limited_amount"] += 1
                if not e["ok"] and "ExceedMaxGlvMarketTokenBalanceValue" in e["err"]:
                    stats["deposit_limited_value"] += 1
            elif e["op"] == "withdraw":
                stats["withdrawals"] += e["ok"]
            else:
                stats["roundtrips"] += e["ok"]
                stats["roundtrip_lossy"] += e["ok"] and e["returned"] < e["m"]
            seen.add((e["op"], e["i"], e.get("m", e.get("q")), vlib.json.dumps(e["pre"], sort_keys=True), vlib.json.dumps(e["mk"], sort_keys=True)))
        ctx.cov["samples"] += [ev[len(ev) // 2], ev[-1]]
        for f in fails:
            e = ev[f["i"] - 1]
            ctx.report(dict(classify(e, f["mon"]), conforms=f.get("conforms", True)), {"driver": "h-aux c45 " + " ".join(map(str, args)), "event": e})
    ctx.distinct += len(seen)
    # instruction-level binding (real GLV instructions in world R2): ops/glv.rs is executed there
    try:
        import props.c45rt as rt
        rt.run_rt(ctx)
    except ImportError:
        pass
    for k, v in stats.items():
        if v == 0 and not ctx.violations:        # a vacuity complaint must not hide reported violations
            raise vlib.ToolError("vacuity: no event of class %s" % k)
    ctx.assumptions += [
        "programs/store/src/ops/glv.rs is NOT executed: the order of its pricing steps (which value is maximised / minimised, "
        "which balance is validated) is transcribed into the driver, which calls the real model functions and Glv state functions",
        "pool values are inputs of the GLV specification (logged from the real pool_value); markets are TestMarket<u64,1> states "
        "set directly (liquidity, open interest, impact pool, prices with spread, max pnl factors)",
        "the round-trip monitor applies to a GLV with supply or without balances (first deposits go to an unspendable receiver)",
        "small numbers (Unit = 10); no market deposit / swap leg of a GLV deposit, GLV operations do not change the markets"]
    ctx.cov["trusted_base"] += ["TLC", "h-aux c45 driver (transcribed composition of ops/glv.rs)", "hook gmsol_store::states::glv::verif",
                                "h-model vmarket / smallcfg"]
    return ctx.finish("model_checking",
                      "grid of market states x GLV states x amounts (round trip, deposit, withdrawal), all insert token combinations, "
                      "random GLVs of 1..3 markets; distinct = distinct (operation, argument, GLV state, market views)",
                      extra={"classes": stats, "calls": total}, exhaustive=False)
