"""C37 Treasury factors stay valid and GT buyback payouts are proportional.
Spec: GtBank.tla (complete_gt_exchange payout rule, factor setters), GtBankProps.tla (monitors), MC_GtBank (design
laws, all claim orders), Trace_GtBank (TLC judges real complete_gt_exchange instructions and factor updates)."""
import vlib


def classify(e, mon):
    d = {"monitor": mon, "op": e["op"], "ok": e["ok"]}
    if e["op"] == "claim":
        d.update({"gt": e["gt"], "rem": e["pre"]["rem"], "last": e["gt"] == e["pre"]["rem"], "errclass": e["errclass"]})
    return d


def run(ctx):
    ctx.build("h-aux", "c37")
    q = ctx.quick
    # 1. design laws, exhaustively: 2 tokens x balances 0..12 (quick 0..8), 3 claimants x GT 0..4, all orders
    ctx.model_check("MC_GtBank", cfg="MC_GtBank_q" if q else "MC_GtBank", workers=8, timeout=1800,
                    expect_actions=["ClaimStep", "BadClaim", "FactorStep"])
    # 2. the same finite domain through the real instruction (treasury entry, mocked callees), plus random banks
    bmax, gmax = (6, 3) if q else (12, 4)
    runs = [("enum", ["enum", "--bmax", bmax, "--gmax", gmax]),
            ("random", ["random", "--seed", ctx.seed, "--n", 400 if q else 6000]),
            ("factors", ["factors", "--seed", ctx.seed, "--n", 1500 if q else 8000])]
    stats = {"claims_paid": 0, "rounded": 0, "last_claims": 0, "rejected_claims": 0, "deposits": 0,
             "payout_equals_token_balance": 0, "histories_all_claimed": 0,
             "factor_rejected_over_100": 0, "factor_accepted_100": 0}
    seen = set()
    total = 0
    for name, args in runs:
        tr = ctx.path(name + ".ndjson")
        ctx.run_bin("c37", args + ["--out", tr])
        fails, drifts, _ = ctx.validate_trace("Trace_GtBank", tr)
        ev = vlib.read_ndjson(tr)
        total += len(ev)
        for e in ev:
            if e["op"] == "claim":
                if e["ok"] and e["gt"] > 0:
                    stats["claims_paid"] += 1
                    stats["rounded"] += any((b * e["gt"]) % e["pre"]["rem"] for b in e["pre"]["bal"])
                    stats["last_claims"] += e["post"]["rem"] == 0
                    stats["payout_equals_token_balance"] += any(b > 0 and p == b for b, p in zip(e["pre"]["bal"], e["paid"]))
                stats["histories_all_claimed"] += e["alldone"] and e["init"]["rem"] > 0
                stats["rejected_claims"] += not e["ok"]
                seen.add(("claim", e["gt"], tuple(e["pre"]["bal"]), e["pre"]["rem"]))
            elif e["op"] == "deposit":
                stats["deposits"] += 1
            else:
                over = e["new"]["q"] > 100 or (e["new"]["q"] == 100 and e["new"]["r"] != "0")
                stats["factor_rejected_over_100"] += over and not e["ok"]
                stats["factor_accepted_100"] += e["ok"] and e["new"]["q"] == 100
                seen.add((e["op"], e["news"], str(e["pre"])))
        ctx.cov["samples"] += [ev[len(ev) // 2], ev[-1]]
        for f in fails:
            e = ev[f["i"] - 1]
            ctx.report(classify(e, f["mon"]), {"driver": "h-aux c37 " + " ".join(map(str, args)), "event": e})
    ctx.distinct += len(seen)
    for k, v in stats.items():
        if v == 0 and not ctx.violations:        # a vacuity complaint must not hide reported violations
            raise vlib.ToolError("vacuity: no event of class %s" % k)
    ctx.assumptions += [
        "the store's close_gt_exchange and the token program's transfer_checked are mocked (answer Ok, recorded); "
        "the paid amounts are the amounts of the transfer instructions issued by the treasury program",
        "accounts are fabricated: the bank is built with the program's own state functions (hook), private fields of "
        "Config / TreasuryVaultConfig / GtExchange are written at their repr(C) offsets and checked through public getters",
        "balance * gt stays below 2^31 (TLC integers); u64-wide operands are covered for mul_div by C01",
        "factor setters are called at function level (hook), not through the role-checked instruction"]
    ctx.cov["trusted_base"] += ["TLC", "h-aux rt (syscall stubs, CPI recorder)", "h-aux c37 driver", "hooks gmsol_treasury::states::{config,gt_bank}::verif"]
    return ctx.finish("model_checking",
                      "every bank of 2 tokens x balances 0..%d, 3 claimants x GT 0..%d in every claim order (each distinct "
                      "prefix executed once) plus an over-claim, random banks with deposits, factor updates around 100%%; "
                      "distinct = distinct (operation, argument, pre-state)" % (bmax, gmax),
                      extra={"classes": stats, "calls": total}, exhaustive=False)
