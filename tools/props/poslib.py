"""Shared by the C09 / C10 / C11 checks (specs Position*.tla, drivers c09 / c10 / c11)."""
import json, os
import vlib


def cases_from(r, path, tag="C"):
    """TLC printed one JSON case per state of the bounded model; dedupe, write for the driver."""
    seen, rows = set(), []
    for c in r.tagged(tag):
        k = json.dumps(c, sort_keys=True)
        if k not in seen:
            seen.add(k)
            rows.append(c)
    vlib.write_ndjson(path, rows)
    return rows


def invfail(r):
    names = r.tagged("INVFAIL")
    return names[0] if names else None


def model_check(ctx, module, cfg, timeout=1500, heap="8g"):
    """Like ctx.model_check (an invariant violation of the bounded model is a tool error = calibration),
    but without -coverage (the nested operators of Position.tla make coverage collection slow and memory
    hungry; vacuity is measured on the validated traces instead) and naming the failing monitor (the models
    fold all monitors into one invariant so that each case is evaluated once)."""
    r = vlib.tlc(ctx.spec(module + ".tla"), ctx.spec(cfg + ".cfg"), workers=8, timeout=timeout, heap=heap)
    vlib.log("  tlc %s: %d generated, %d distinct, depth %d, %.1fs%s" % (
        cfg, r.generated, r.distinct, r.depth, r.wall, "" if r.ok else " [NOT OK: %s]" % (r.violated or r.error)))
    if r.violated:
        raise vlib.ToolError("monitor %s fails on the bounded model %s (calibration: monitor too strong or design "
                             "broken)\n%s" % (invfail(r), cfg, "\n".join(l for l in r.raw.splitlines()
                                                                         if not l.startswith('"'))[-3000:]))
    if not r.ok:
        raise vlib.ToolError("TLC failed on %s: %s\n%s" % (cfg, r.error, r.raw[-3000:]))
    ctx.states += r.distinct
    ctx.transitions += r.generated
    return r


def trace_cfg(base, decimals):
    return base if decimals == 1 else base + "_u100"


def load_replay(ctx):
    if not ctx.replay_file:
        return None
    return json.load(open(ctx.replay_file)).get("replay", {})


def stage(ctx, fn, *a):
    """Run one driver+validation stage. A tool error (e.g. a TLC 32-bit overflow on absurd values produced by
    broken code) in a LATER stage must not hide violations already established by an earlier one."""
    try:
        return fn(*a)
    except vlib.ToolError as e:
        if ctx.violations:
            ctx.note("stage aborted by a tool error after violations were found: %s" % str(e)[:300])
            return None
        raise
