"""C02 Fee splitting never creates or loses tokens.
Spec: Fees.tla (precise operators), FeesProps.tla (monitors + the event the operators predict),
MC_Fees (bounded exhaustive model), Trace_Fees (TLC trace validation of the real code)."""
import json
import vlib

# the finite domain: must equal the CONSTANTS of specs/MC_Fees*.cfg (and the sets in MC_Fees.tla)
DOMAIN = {
    "quick": {"cfg": "MC_Fees", "amts": "0..40", "fs": "0,1,3,5,9,10,11,15", "gs": "2,12",
              "rfs": "0,1,3,5,9,10,11,15", "discs": "-1,0,1,3,5,9,10,11,15,20,21,30",
              "ofs": "0,1,5,10,11,15", "orfs": "0,4,10,15", "odiscs": "-1,0,5,10,15,21,30",
              "prices": "1/1,2/3,3/3,0/1", "lfs": "0,1,3,5,9,10,11,15", "lrfs": "0,1,3,5,9,10,11,15"},
    "thorough": {"cfg": "MC_Fees_thorough", "amts": "0..40", "fs": "0..15", "gs": "2,12",
                 "rfs": "0..15", "discs": "-1..15,20,21,25,30,35",
                 "ofs": "0,1,3,5,9,10,11,13,15", "orfs": "0,1,4,9,10,11,15", "odiscs": "-1,0,1,5,9,10,11,15,20,21,30",
                 "prices": "1/1,2/3,3/3,0/1", "lfs": "0..15", "lrfs": "0..15"},
}
KEY = ("op", "amt", "pmin", "pmax", "pf", "nf", "rf", "disc", "change", "lf", "lrf")


def used_factor(e):
    return e["pf"] if e["change"] == 1 else e["nf"]


def classify(e, mon, unit=10):
    cls = "other"
    if mon == "FeeLeGross" and e["op"] in ("order_fees", "liq_fees") and used_factor(e) > unit:
        cls = "order_fee_factor_above_unit"
    d = {"monitor": mon, "class": cls}
    d.update({k: e[k] for k in KEY})
    return d


def judge(ctx, tr, driver, cfg=None, unit=10):
    fails, drifts, _ = ctx.validate_trace("Trace_Fees", tr, cfg=cfg)
    ev = vlib.read_ndjson(tr)
    for f in fails:
        e = ev[f["i"] - 1]
        ctx.report(dict(classify(e, f["mon"], unit), conforms=f.get("conforms", True)), {"driver": driver, "events": [e]})
    return ev


def run(ctx):
    ctx.build("h-model", "c02")
    if ctx.replay_file:
        rp = json.load(open(ctx.replay_file))
        inp = ctx.path("replay-in.ndjson")
        vlib.write_ndjson(inp, rp["replay"]["events"])
        tr = ctx.path("replay.ndjson")
        ctx.run_bin("c02", ["replay", "--in", inp, "--out", tr])
        ev = judge(ctx, tr, "h-model c02 replay")
        ctx.distinct += max(2, len(ev))
        return ctx.finish("exploration", "replay of one recorded case", exhaustive=False)
    dom = DOMAIN["quick" if ctx.quick else "thorough"]
    # 1. the design (precise operators) satisfies the monitors on the whole bounded domain, except the
    #    recorded finding class, whose concrete witness is asserted to fail (ASSUME WitnessFails)
    r = ctx.model_check("MC_Fees", coverage=False, cfg=dom["cfg"], workers=8, timeout=900 if ctx.quick else 1500)
    # 2. the same finite domain through the real code
    tr = ctx.path("small.ndjson")
    args = ["small", "--out", tr]
    for k, v in dom.items():
        if k != "cfg":
            args += ["--" + k, v]
    ctx.run_bin("c02", args)
    ev = judge(ctx, tr, "h-model c02 small")
    # 3. seeded random configurations, Unit = 10; Unit = 100 in thorough
    n = 40000 if ctx.quick else 300000
    tr2 = ctx.path("random.ndjson")
    ctx.run_bin("c02", ["random", "--seed", ctx.seed, "--n", n, "--out", tr2])
    ev2 = judge(ctx, tr2, "h-model c02 random")
    ev3 = []
    if not ctx.quick:
        tr3 = ctx.path("random-u100.ndjson")
        ctx.run_bin("c02", ["random", "--decimals", 2, "--seed", ctx.seed + 1, "--n", n, "--out", tr3])
        ev3 = judge(ctx, tr3, "h-model c02 random --decimals 2", cfg="Trace_Fees_u100", unit=100)
    allev = ev + ev2 + ev3
    ok_split = sum(1 for e in allev if e["ok"] and e["pool"] + e["recv"] > 0)
    failed = sum(1 for e in allev if not e["ok"])
    discounted = sum(1 for e in allev if e["fee_ok"] and e["fee0_ok"] and e["fee"] < e["fee0"])
    liq = sum(1 for e in allev if e["op"] == "liq_fees" and e["lok"] and e["lamount"] > 0)
    if not ctx.violations and min(ok_split, failed, discounted, liq) == 0:
        raise vlib.ToolError("vacuity: split=%d failed=%d discounted=%d liq=%d" % (ok_split, failed, discounted, liq))
    ctx.distinct += len({tuple(e[k] for k in KEY) for e in allev if e["amt"] > 0 and used_factor(e) > 0})
    ctx.cov["samples"] += [ev[len(ev) // 3], ev[-1], ev2[0]]
    ctx.cov["trusted_base"] += ["TLC", "harness h-model c02 driver", "VMarket (harness-owned market used to reach position_fees)"]
    ctx.assumptions += ["order and liquidation fees are reached through the public PositionExt::position_fees on a fresh "
                        "position (no pending borrowing / funding fees); no hook in /repo is used",
                        "full-width values are not enumerated (the quantifier does not mention type limits)"]
    return ctx.finish("model_checking",
                      "every (op, amount, prices, factors, discount, change) of the bounded model's sets through the real "
                      "code plus seeded random configurations (factors biased to 0, 100%% and above); distinct = distinct "
                      "argument tuples with amount > 0 and a non-zero selected factor",
                      extra={"successful_splits": ok_split, "failed_computations": failed,
                             "discount_effective": discounted, "liquidation_fees": liq,
                             "small_domain_events": len(ev), "model_states": r.distinct}, exhaustive=False)
