"""C13 -- see markethist_common.py (histories of market operations; specs MarketHist*.tla)."""
from props import markethist_common as mh


def run(ctx):
    return mh.run(ctx, "C13")
