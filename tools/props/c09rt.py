"""C09, instruction-level binding on the in-process runtime (helper module, not a registered property).
`run_rt(ctx)` builds and runs harness/h-runtime/src/bin/c09rt.rs: the REAL `liquidate`, `update_adl_state` and
`auto_deleverage` instructions in world R2 (positions opened by real MarketIncrease orders, index price moves, threshold
changes by real update_market_config), i.e. the guards of programs/store/src/ops/order.rs execute_decrease_position /
PositionCutOperation.  TLC judges the trace with Trace_PositionCutRt (monitors prefixed "rt."; 10^20-scaled factors as
BigNum records), failures go through ctx.report, counts are added to ctx.  Returns nothing."""
import json
import vlib


def classify(e, mon):
    return {"monitor": mon, "op": e["op"], "ok": e["ok"], "err": e["err"], "case": e["case"].split(":")[1], "binding": "runtime"}


def run_rt(ctx):
    ctx.build("h-runtime", "c09rt")
    tr = ctx.path("rt.trace.ndjson")
    out = ctx.run_bin("c09rt", ["run", "--out", tr])
    st = json.loads(out.strip().splitlines()[-1])["stats"]
    fails, drifts, _ = ctx.validate_trace("Trace_PositionCutRt", tr, timeout=1800)
    ev = vlib.read_ndjson(tr)
    stats = {"liquidate_ok": 0, "liquidate_rejected_healthy": 0, "liquidate_fresh_rejected": 0, "liquidate_removed_again": 0,
             "adl_ok_partial": 0, "adl_ok_full": 0, "adl_not_enabled": 0, "adl_not_required": 0, "adl_below_min": 0,
             "adl_switch_on": 0, "adl_switch_off": 0}
    for e in ev:
        tag = e["case"].split(":")[1]
        if e["op"] == "liquidate":
            stats["liquidate_ok"] += e["ok"]
            stats["liquidate_rejected_healthy"] += (not e["ok"]) and e["pre"]["exists"] and not e["liqBefore"] and tag != "fresh"
            stats["liquidate_fresh_rejected"] += (not e["ok"]) and tag == "fresh"
            stats["liquidate_removed_again"] += (not e["ok"]) and tag.endswith("again")
        elif e["op"] == "auto_deleverage":
            if e["ok"]:
                stats["adl_ok_full" if e["post"]["size"]["s"] == "0" else "adl_ok_partial"] += 1
            else:
                stats["adl_not_enabled"] += e["err"] == "AdlNotEnabled"
                stats["adl_not_required"] += e["err"] == "AdlNotRequired"
                stats["adl_below_min"] += e["err"] == "InvalidAdl"
        else:
            stats["adl_switch_on"] += e["ok"] and e["adlPost"] and not e["adlPre"]
            stats["adl_switch_off"] += e["ok"] and e["adlPre"] and not e["adlPost"]
    vlib.log("  c09rt: %d instructions, %s" % (st["instructions"], stats))
    ctx.distinct += len({(e["op"], e["case"], e["mkt"]) for e in ev})
    ctx.cov["samples"] += [ev[len(ev) // 2]]
    ctx.cov["rt_classes"] = stats
    ctx.cov["rt_instructions"] = st["instructions"]
    for f in fails:
        e = ev[f["i"] - 1]
        ctx.report(classify(e, f["mon"]), {"driver": "h-runtime c09rt run", "event": e})
    empty = [k for k, v in stats.items() if v == 0]
    if empty and not fails and not drifts:
        raise vlib.ToolError("vacuity (runtime binding): no event of class %s" % empty)
    ctx.assumptions += [
        "runtime binding: 2 markets (index = long token; synthetic index) x position side x collateral side; one position of $1000 / "
        "$500 collateral per world; liquidation attempted at index prices 50..200 % x min_collateral_factor_for_liquidation in "
        "{default, 0.3, 2}; ADL with ForAdl in {default, 1e-6}, MinAfterAdl in {0, 0.5}, half / full size, price moved back",
        "runtime binding: liquidatability before the instruction and the pnl factors are computed by the model crate's "
        "check_liquidatable / pnl_factor / pnl_factor_config through the program's trait impls on the loaded Position / Market accounts",
        "runtime binding: `liquidate` always passes the whole position size, so the 'size_delta >= size' guard is only reachable as a "
        "mutation; its effect (the position is removed) is what the monitor judges"]
    ctx.cov["trusted_base"] += ["h-runtime in-process program runtime + world R2 (fabricated: prices in the custom PriceFeed accounts, "
                                "zeroed Oracle account)", "h-runtime c09rt driver"]
