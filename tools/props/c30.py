"""C30 GT balances, mint cost and user ranks stay consistent.
Spec: Gt.tla (mint_to / unchecked_burn_from / next_minting_cost / unchecked_update_rank / get_mint_amount via
Order::unchecked_process_gt / exchange vault request + confirm, as the code), GtProps.tla (monitors), MC_Gt (bounded
model), Trace_Gt (TLC trace validation of the real zero-copy structs driven in memory through cfg-guarded hooks)."""
import json
import vlib
from props import c24


def classify(e, mon):
    return {"monitor": mon, "op": e["op"], "ok": e["ok"], "n_ranks": len(e["cfg"]["ranks"]), "grow": e["cfg"]["grow"]}


def run(ctx):
    ctx.build("h-programs", "c30")
    q = ctx.quick
    # 1. the design satisfies the monitors on every state / transition of the bounded model
    c24.mc(ctx, "MC_Gt", "MC_Gt_quick" if q else "MC_Gt", timeout=1700)
    # 2. breadth-first exploration of the REAL code's state graph over the model's configurations and alphabet
    evs = []
    tr = ctx.path("small.ndjson")
    ctx.run_bin("c30", ["small", "--depth", 3 if q else 4, "--full", 0, "--out", tr])
    # 3. random sequences with larger values
    rr = ctx.path("random.ndjson")
    ctx.run_bin("c30", ["random", "--seed", ctx.seed, "--n", 6000 if q else 80000, "--out", rr])
    for path, drv in ((tr, "h-programs c30 small"), (rr, "h-programs c30 random")):
        try:
            fails, drifts = c24.validate_chunked(ctx, "Trace_Gt", path, chunk=120000)
        except vlib.ToolError as ex:
            # an established violation is the verdict; a later tool problem (e.g. a 32-bit overflow in TLC while
            # re-computing a cost the code got wrong) must not mask it
            if ctx.violations:
                ctx.note("trace validation of %s aborted after violations were already established: %s"
                         % (path, str(ex).splitlines()[0][:200]))
                evs.append(vlib.read_ndjson(path))
                continue
            raise
        ev = vlib.read_ndjson(path)
        for f in fails:
            e = ev[f["i"] - 1]
            ctx.report(classify(e, f["mon"]), {"driver": drv, "event": e})
        evs.append(ev)
        ctx.cov["samples"] += [ev[len(ev) // 2], ev[-1]]
    allev = evs[0] + evs[1]
    cnt = {}
    for e in allev:
        k = "%s:%s" % (e["op"], "ok" if e["ok"] else e["err"])
        cnt[k] = cnt.get(k, 0) + 1
    need = ["mint:ok", "burn:ok", "burn:NotEnoughTokenAmount", "mfv:ok", "request:ok", "confirm:ok",
            "confirm:PreconditionsAreNotMet", "request:InvalidArgument"]
    for k in need:
        if not cnt.get(k):
            if not ctx.violations:
                raise vlib.ToolError("vacuity: no event of class " + k)
    def crossing_below_total(e):       # a mint crossing a grow step while supply < total minted (after burns / requests)
        return (e["op"] in ("mint", "mfv") and e["ok"] and e["pre"]["supply"] < e["pre"]["total"]
                and e["post"]["total"] // e["cfg"]["step"] > e["pre"]["total"] // e["cfg"]["step"])
    cls = {"step_crossed_after_burn_or_request": sum(1 for e in allev if crossing_below_total(e)),
           "two_steps_crossed_after_burn_or_request": sum(1 for e in allev if crossing_below_total(e) and
                                                          e["post"]["total"] // e["cfg"]["step"] > e["pre"]["total"] // e["cfg"]["step"] + 1),
           "mfv_with_remainder": sum(1 for e in allev if e["op"] == "mfv" and e["ok"] and e["n"] and
                                     e["out"]["value"] % max(e["out"]["cost"], 1) != 0),
           "mint_crossing_steps": sum(1 for e in allev if e["post"]["steps"] > e["pre"]["steps"]),
           "mint_crossing_2_steps": sum(1 for e in allev if e["post"]["steps"] > e["pre"]["steps"] + 1),
           "rank_changes": sum(1 for e in allev if [u["rank"] for u in e["pre"]["users"]] != [u["rank"] for u in e["post"]["users"]])}
    for k, v in cls.items():
        if v == 0:
            if not ctx.violations:
                raise vlib.ToolError("vacuity: no event of class " + k)
    ctx.cov["classes"] = dict(cnt, **cls)
    ctx.distinct += len({json.dumps([e["cfg"], e["pre"], e["op"], e["u"], e["n"]], sort_keys=True) for e in allev})
    ctx.assumptions += ["rank thresholds are positive (a threshold of 0 would already apply to a fresh, never updated user)",
                        "the clock does not run backwards; a failed instruction is reverted as a whole (request_exchange is "
                        "documented as non-atomic in memory)",
                        "grow factors are multiples of 0.1 (10^19) so that apply_factor is exact in small integers"]
    ctx.cov["trusted_base"] += ["TLC", "h-programs c30 driver (projection, byte snapshots, revert-on-error)",
                                "hooks states/gt.rs, states/user.rs, states/order.rs ::verif (thin wrappers)"]
    return ctx.finish("model_checking",
                      "BFS over the real code's state graph (every action of the model's alphabet from every distinct state "
                      "up to depth %d, %d transitions) + %d random steps; distinct = distinct (config, state, action)"
                      % (3 if q else 4, len(evs[0]), len(evs[1])), exhaustive=False)
