"""C06 Liquidity providers cannot profit from a deposit/withdraw round trip.
Spec: Market.tla (Deposit, Withdraw, PoolValue), MarketProps.tla (C06RoundTrip, C06DepositShare,
C06WithdrawShare, C06First; C06RoundTripFunded = what the design guarantees), MC_Market_lp / _fix,
Trace_Market."""
import collections
import vlib
from props import _m1


def classify(ev, i, mon):
    e = ev[i]
    v = {"monitor": mon, "op": e["op"], "ok": e["ok"], "panic": e["panic"], "class": "-"}
    if mon.startswith("C06RoundTrip") and i > 0:
        v["class"] = _m1.round_trip_class(ev[i - 1])
    return v


def classify_for_replay(ev, i, mon):
    v = classify(ev, i, mon)
    if mon == "C06RoundTripFunded":
        v["class"] = "beyond_funded"
    return v


def run(ctx):
    ctx.build("h-model", "c04")
    if getattr(ctx, "replay_file", None):
        return _m1.replay_case(ctx, "C06", classify_for_replay)
    q = ctx.quick
    counts = collections.Counter()
    keys = set()
    total_rows = 0

    def judge(trace, driver, cfg="Trace_Market"):
        ev, fails = _m1.validate(ctx, trace, "C06", cfg=cfg)
        for i, e in enumerate(ev):
            if e["op"] == "deposit" and e["ok"]:
                counts["deposit_ok"] += 1
                counts["deposit_first" if e["pre"]["supply"] == 0 else "deposit_later"] += 1
                if e["pre"]["oi"]["long"] + e["pre"]["oi"]["short"] > 0:
                    counts["deposit_with_positions"] += 1
                if _m1.imp_lost(e, "long") + _m1.imp_lost(e, "short") > 0:
                    counts["deposit_positive_impact"] += 1
                if e["post"]["imp"]["long"] + e["post"]["imp"]["short"] > e["pre"]["imp"]["long"] + e["pre"]["imp"]["short"]:
                    counts["deposit_negative_impact"] += 1
                if e["a"] > 0 and e["b"] > 0:
                    counts["deposit_both_sides"] += 1
            elif e["op"] == "deposit":
                counts["deposit_failed"] += 1
            elif e["op"] == "withdraw" and e["ok"]:
                counts["round_trip" if e["rt"] else "withdraw_ok"] += 1
                if e["pre"]["oi"]["long"] + e["pre"]["oi"]["short"] > 0:
                    counts["withdraw_with_positions"] += 1
            if e["op"] != "swap":
                keys.add(_m1.key(e))
        ctx.cov["samples"] += [ev[len(ev) // 3], ev[-1]]
        failed_at = collections.defaultdict(set)
        for i, mon in fails:
            failed_at[i].add(mon)
        for i, mon in fails:
            if mon == "C06RoundTrip" and "C06RoundTripFunded" in failed_at[i]:
                continue        # reported once, as the stronger failure
            lo = i
            while lo > 0 and not ev[lo].get("reset"):
                lo -= 1
            v = classify(ev, i, mon)
            if mon == "C06RoundTripFunded":
                v["class"] = "beyond_funded"
            dr = getattr(ctx, "m1_drift_idx", {}).get(getattr(ctx, "m1_last_trace", None), set())
            v["conforms"] = not (i in dr or (i - 1) in dr)      # the withdrawal and its deposit
            ctx.report(v, {"driver": driver, "events": ev[lo:i + 1]})

    for cfg in (["MC_Market_lp", "MC_Market_fix"] if q else ["MC_Market_lp_thorough", "MC_Market_fixlp_thorough"]):
        rows, cfgs = _m1.explore(ctx, cfg, {"deposit", "withdraw"}, timeout=900 if q else 2400)
        total_rows += len(rows)
        for k, part in enumerate(_m1.batches(rows, 40000)):
            judge(_m1.replay(ctx, part, cfgs, "%s-%d" % (cfg, k)), "h-model c04 replay (%s)" % cfg)
    if not q:
        _m1.simulate(ctx, "MC_Market_sim", 300)
    judge(_m1.random_trace(ctx, "random", 1500 if q else 8000), "h-model c04 random")
    if not q:
        judge(_m1.random_trace(ctx, "random-d2", 3000, dec=2, seed_off=1), "h-model c04 random --dec 2", cfg="Trace_Market_d2")
    _m1.need(counts, ["round_trip", "deposit_first", "deposit_later", "deposit_with_positions", "deposit_positive_impact",
                      "deposit_negative_impact", "deposit_both_sides", "withdraw_ok", "withdraw_with_positions"], "C06")
    ctx.distinct += len(keys)
    ctx.cov["classes"] = dict(counts)
    ctx.cov["transitions_replayed"] = total_rows
    ctx.cov["trusted_base"] += ["TLC", "harness h-model c04 driver (state injection / projection of TestMarket<u64,1>)"]
    ctx.assumptions += ["small world: the repository's generic code instantiated at u64, DECIMALS = 1 (Unit = 10)",
                        "no time passes between the last borrowing / impact-distribution update and the operation",
                        "share value is measured with the pool value of the precise specification (PoolValue), which is "
                        "itself compared with the code's pool_value on every event (drift)",
                        "exploration continues from the pre-state after a failed deposit/withdrawal (on-chain revert)"]
    return ctx.finish("model_checking",
                      "every (reachable state, deposit | withdrawal) pair of the bounded models, each successful deposit followed by "
                      "the immediate withdrawal of the minted amount, replayed on the real code by state injection, plus random runs; "
                      "distinct = distinct (pre-state, operation arguments, prices, configuration)",
                      exhaustive=ctx.drift == 0)
