"""C19 Privileged instructions reject callers without the required role.
Spec: Authz.tla (Satisfies / Accepts over the role store), AuthzProps.tla (monitors), MC_Authz (role-store
states x signers x instructions with the measured table Impl plugged in), Trace_Authz (TLC judges every measured
execution).  Req = tools/props/c19_req.json (committed, classified by hand from DESIGN-appendix-authz.md and the
sources).  Impl is measured (a) dynamically: harness/h-runtime/src/bin/c19.rs executes the real instruction through
the in-process runtime with a valid account set once per signer class; (b) statically for the remainder: the
#[access_control] attribute and recognisable owner / role checks are extracted from the sources below."""
import glob, json, os, re
import vlib

REPO = vlib.REPO
PROGRAMS = {"store": "programs/store", "treasury": "programs/treasury", "timelock": "programs/timelock",
            "competition": "programs/competition", "liquidity_provider": "programs/liquidity-provider"}
AUTH_ERRS = {"NotAnAdmin", "PermissionDenied", "ConstraintHasOne", "ConstraintSeeds", "ConstraintRaw", "OwnerMismatched",
             "Custom(6003)", "Custom(6004)", "ConstraintSigner", "ConstraintAddress"}


# ------------------------------------------------------------------------------------------------ static extraction
def role_constants():
    """role constant name -> string value (RoleKey::X, roles::X)"""
    consts = {}
    for path in ("crates/utils/src/role.rs", "programs/treasury/src/roles.rs", "programs/timelock/src/roles.rs"):
        txt = open(os.path.join(REPO, path)).read()
        for m in re.finditer(r"pub const (\w+): &(?:'static )?str = \"([^\"]*)\";", txt):
            consts[m.group(1)] = m.group(2)
    return consts


def helper_roles(consts):
    """`only_xxx` helper of Authenticate -> (admin, [roles]) parsed from authentication.rs"""
    txt = open(os.path.join(REPO, "programs/store/src/utils/internal/authentication.rs")).read()
    part = txt[txt.index("trait Authenticate"):]
    out = {}
    for m in re.finditer(r"fn (\w+)\s*\(ctx: &Context<Self>[^)]*\)\s*->\s*Result<\(\)>\s*\{(.*?)\n    \}", part, re.S):
        name, body = m.group(1), m.group(2)
        roles = [consts.get(r, r) for r in re.findall(r"RoleKey::(\w+)", body)]
        admin = "only_admin" in body and name == "only_admin"
        out[name] = (admin, roles)
    return out


def strip_comments(s):
    return re.sub(r"//[^\n]*", "", s)


def extract_program(prog, consts, helpers):
    """instruction -> dict(attr, admin, roles, ctx_type) from lib.rs of one program"""
    lib = open(os.path.join(REPO, PROGRAMS[prog], "src/lib.rs")).read()
    body = lib[lib.index("#[program]"):]
    res = {}
    for m in re.finditer(r"((?:[ \t]*#\[[^\n]*\]\n)*)[ \t]*pub fn (\w+)\s*(?:<[^>]*>)?\s*\(\s*(?:mut\s+)?(?:_?ctx):\s*Context<([^)]*?)>\s*[,)]", body):
        attrs, name, ctx = m.group(1), m.group(2), m.group(3)
        ctx_type = re.findall(r"(\w+)(?:<'info>)?\s*$", ctx.strip().rstrip(">"))
        ctx_type = re.sub(r"<.*", "", ctx.split(",")[-1].strip()) if "," in ctx else re.sub(r"<.*", "", ctx.strip())
        am = re.search(r"#\[access_control\((.*)\)\]", attrs)
        admin, roles, attr = False, [], ""
        if am:
            attr = am.group(1)
            h = re.search(r"Authenticate::(\w+)\(", attr)
            if h and h.group(1) in helpers and "CpiAuthenticate" not in attr:
                admin, roles = helpers[h.group(1)]
            elif h and h.group(1) == "only":
                r = re.search(r"only\(&ctx,\s*(?:\w+::)*(\w+)\)", attr)
                roles = [consts.get(r.group(1), r.group(1))] if r else []
            elif h:
                roles = ["?" + h.group(1)]
        # in-handler checks visible in the entrypoint body itself
        fb = strip_comments(body[m.end():m.end() + 1500])
        fb = fb[:fb.find("\n    }\n") if "\n    }\n" in fb else len(fb)]
        inline = [p for p in ("Close::close", "only_role", "only_order_keeper", "only_admin", "CpiAuthenticate::only") if p in fb]
        res[name] = {"attr": attr, "admin": admin, "roles": list(roles), "ctx": ctx_type, "inline": inline}
    return res


def program_sources(prog):
    out = {}
    for f in glob.glob(os.path.join(REPO, PROGRAMS[prog], "src/**/*.rs"), recursive=True):
        out[f] = open(f).read()
    return out


def struct_text(sources, ctx_type):
    for f, txt in sources.items():
        m = re.search(r"pub struct %s<[^{]*\{(.*?)\n\}" % re.escape(ctx_type), txt, re.S)
        if m:
            return f, strip_comments(m.group(1)), strip_comments(txt)
    return None, "", ""


def recognisable_checks(sources, ctx_type, signer_field):
    """syntactic evidence of owner / in-handler role checks for an instruction without attribute"""
    f, st, whole = struct_text(sources, ctx_type)
    ev = []
    sf = signer_field or ""
    if sf:
        if re.search(r"has_one\s*=\s*%s\b" % re.escape(sf), st):
            ev.append("has_one=" + sf)
        if re.search(r"(constraint|address)\s*=[^\n]*\b%s\b" % re.escape(sf), st):
            ev.append("constraint(" + sf + ")")
        if re.search(r"seeds\s*=\s*\[[^\]]*\b%s\b[^\]]*\]" % re.escape(sf), st, re.S):
            ev.append("seeds(" + sf + ")")
        if re.search(r"seeds::program", st) and re.search(r"pub %s: Signer" % re.escape(sf), st):
            ev.append("pda-signer(" + sf + ")")
    for pat in ("only_role", "only_order_keeper", "Close::preprocess", "preprocess(", "validate_timelocked_role",
                "CpiAuthenticate::only", "validate_claim_fees_address", "require_keys_eq!", "close_gt_exchange", "has_role"):
        if pat in whole:
            ev.append(pat)
    return ev


def static_table(req):
    consts = role_constants()
    helpers = helper_roles(consts)
    table = {}
    for prog in PROGRAMS:
        ex = extract_program(prog, consts, helpers)
        sources = program_sources(prog)
        for name, d in ex.items():
            key = "%s.%s" % (prog, name)
            r = req.get(key)
            ev = (d["inline"] + recognisable_checks(sources, d["ctx"], (r or {}).get("signer_field"))) if not d["attr"] else []
            table[key] = dict(d, evidence=ev)
    return table


def static_accepts(req_entry, st):
    """signer classes the statically extracted checks admit"""
    if st["attr"]:
        acc = (["admin"] if st["admin"] else []) + ["role:" + r for r in st["roles"]]
        if req_entry["owner"]:
            acc.append("owner")       # attribute plus ownership: the attribute part is what is compared
        return acc, "attribute"
    if req_entry["open"]:
        return ["none"], "open"
    if st["evidence"]:
        acc = (["admin"] if req_entry["admin"] else []) + ["role:" + r for r in req_entry["roles"]] + (["owner"] if req_entry["owner"] else [])
        return acc, "recognised:" + ",".join(st["evidence"][:3])
    return ["none"], "no-recognisable-check"


# ------------------------------------------------------------------------------------------------ the check
def classify(e, mon):
    return {"monitor": mon, "instr": e["instr"], "class": e["class"], "src": e["src"], "ok": e["ok"], "err": e["err"]}


def run(ctx):
    ctx.build("h-runtime", "c19")
    req = json.load(open(os.path.join(os.path.dirname(__file__), "c19_req.json")))
    # (a) dynamic measurement
    mp = ctx.path("measured.ndjson")
    out = ctx.run_bin("c19", ["measure", "--out", mp])
    vlib.log("  measure: %s" % out.strip().splitlines()[-1])
    measured = vlib.read_ndjson(mp)
    dyn = {}
    pool = set()
    for e in measured:
        dyn.setdefault(e["instr"], []).append(e)
        if e["class"].startswith("role:"):
            pool.add(e["class"][5:])
    # (b) static extraction
    st = static_table(req)
    missing = sorted(set(st) - set(req))
    gone = sorted(set(req) - set(st))
    if missing:
        ctx.note("instructions present in the sources but not in c19_req.json (classify them): %s" % missing)
        ctx.drift += len(missing)
    if gone:
        ctx.note("instructions in c19_req.json no longer in the sources: %s" % gone)
    for v in req.values():
        pool.update(r for r in v["roles"] if not r.endswith("*"))

    def expand(roles):
        out = []
        for r in roles:
            out += sorted(p for p in pool if p.startswith(r[:-1])) if r.endswith("*") else [r]
        return out

    table, static_events, src_of = {}, [], {}
    for key in sorted(st):
        r = req.get(key, {"admin": False, "roles": [], "owner": False, "open": False, "state_changing": True})
        rq = {"open": bool(r["open"]), "admin": bool(r["admin"]), "owner": bool(r["owner"]), "roles": expand(r["roles"])}
        acc_s, how = static_accepts(dict(r, roles=rq["roles"]), st[key])
        if key in dyn:
            acc = sorted({e["class"] for e in dyn[key] if e["ok"]})
            src_of[key] = "dynamic"
        else:
            acc = acc_s
            src_of[key] = "static"
            for c in acc:
                static_events.append({"instr": key, "class": c, "ok": True, "err": how, "code": -1, "panic": False,
                                      "changed_before_rollback": False, "db_changed": False, "world": "static",
                                      "runtime_error": "", "src": "static", "autherr": False, "also": False})
        table[key] = {"req": rq, "impl": {"accepts": acc, "src": src_of[key], "static": how, "static_accepts": acc_s}}
    authz = ctx.path("authz.json")
    json.dump({"pool": sorted(pool), "instr": table}, open(authz, "w"))
    for e in measured:
        e["src"] = "dynamic"
        e["autherr"] = (not e["ok"]) and (e["err"] in AUTH_ERRS or e["code"] in (6003, 6004))
        e["also"] = bool(req.get(e["instr"], {}).get("also"))
        if e["also"]:
            e["autherr"] = False
    dp = ctx.path("dynamic.ndjson")
    vlib.write_ndjson(dp, measured)
    sp = ctx.path("static.ndjson")
    vlib.write_ndjson(sp, static_events)
    # 1. TLC judges every measured execution and every statically derived acceptance
    nviol = 0
    for name, path, evs in (("dynamic", dp, measured), ("static", sp, static_events)):
        if not evs:
            continue
        fails, drifts, _ = ctx.validate_trace("Trace_Authz", path, env={"AUTHZ": authz})
        for f in fails:
            e = evs[f["i"] - 1]
            nviol += 1
            ctx.report(classify(e, f["mon"]),
                       {"driver": "h-runtime c19 measure" if name == "dynamic" else "tools/props/c19.py static extraction",
                        "event": e, "req": table[e["instr"]]["req"], "impl": table[e["instr"]]["impl"]})
    # 2. exhaustive: role-store states x signers x instructions with the measured table plugged in
    r = vlib.tlc(ctx.spec("MC_Authz.tla"), ctx.spec("MC_Authz.cfg" if ctx.quick else "MC_Authz_thorough.cfg"), workers=8, timeout=900, env={"AUTHZ": authz}, coverage=False)
    vlib.log("  tlc MC_Authz: %d generated, %d distinct, %.1fs%s" % (r.generated, r.distinct, r.wall,
             "" if r.ok else " [%s]" % (r.violated or r.error)))
    if r.error and not r.violated:
        raise vlib.ToolError("TLC failed on MC_Authz: %s\n%s" % (r.error, r.raw[-2000:]))
    if bool(r.violated) != bool(nviol):
        raise vlib.ToolError("MC_Authz (%s) and the per-class judgement (%d failures) disagree\n%s"
                             % (r.violated, nviol, r.raw[-2500:]))
    ctx.states += r.distinct
    ctx.transitions += r.generated
    # evidence
    n_dyn = len(dyn)
    n_static = len(table) - n_dyn
    ctx.distinct += len({(e["instr"], e["class"]) for e in measured}) + len(static_events)
    pos_fail = sorted({e["instr"] for e in measured if not e["ok"] and not e["autherr"]
                       and e["class"] in table[e["instr"]]["impl"]["static_accepts"] + ["owner"]})
    pre_rb = sorted({e["instr"] for e in measured if not e["ok"] and e["changed_before_rollback"]})
    disagree = sorted(k for k in dyn if st[k]["attr"] and set(table[k]["impl"]["static_accepts"]) - {"owner"}
                      != set(table[k]["impl"]["accepts"]) - {"owner"} and table[k]["impl"]["accepts"] and not req[k].get("also"))
    if disagree:
        ctx.note("static attribute and dynamic measurement differ for: %s" % disagree)
    ctx.cov["samples"] += [measured[0], measured[len(measured) // 2]] + static_events[:1]
    ctx.cov["dynamic_instructions"] = n_dyn
    ctx.cov["static_instructions"] = n_static
    ctx.cov["static_level"] = "other (syntactic extraction of #[access_control] / has_one / constraint / seeds / in-handler role checks)"
    ctx.cov["dynamic_list"] = sorted(dyn)
    ctx.cov["static_list"] = sorted(k for k in table if k not in dyn)
    ctx.cov["worlds"] = sorted({e["world"] for e in measured})
    ctx.cov["positive_control_failed_for_other_reasons"] = pos_fail
    ctx.cov["rejected_after_writing_before_rollback"] = pre_rb
    ctx.cov["static_unrecognised"] = sorted(k for k in table if table[k]["impl"]["static"] == "no-recognisable-check")
    ctx.cov["trusted_base"] += ["TLC", "h-runtime in-process program runtime", "tools/props/c19_req.json (hand-classified requirement table)",
                                "tools/props/c19.py static extraction (regular expressions over the sources)"]
    ctx.assumptions += ["%d instructions measured dynamically (valid account set, 20 signer classes + owner), %d by static extraction "
                        "(level: other)" % (n_dyn, n_static),
                        "a rejected instruction may have written before failing (Anchor `init`/`realloc` run before #[access_control]); "
                        "'leaves all accounts unchanged' is judged on the account database after the instruction, i.e. what the chain persists",
                        "no cluster restart in the measured worlds (after a restart RESTART_ADMIN stands in for every role by design)",
                        "a privileged signer that fails for unrelated reasons is not a violation"]
    vlib.log("  %d instructions dynamic, %d static; %d (instr, class) executions" % (n_dyn, n_static, len(measured)))
    return ctx.finish("model_checking",
                      "distinct = (instruction, signer class) pairs executed through the real entrypoints plus statically derived "
                      "(instruction, accepted class) pairs; TLC explores all role sets of size <= 2 (thorough: 3) x owner x signer x instruction",
                      exhaustive=False)
