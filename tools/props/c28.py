"""C28 Chainlink reports are decoded safely and converted faithfully.  Level: exploration.
Spec: ReportEnvelope.tla (envelope meaning over unbounded integers + the code's usize version, digit-
sequence arithmetic for the conversion), ReportEnvelopeProps.tla (monitors), MC_ReportEnvelope (case
analysis of payload length x offset word x length word; prints every case), Trace_ReportEnvelope (TLC
trace validation, two event kinds)."""
import vlib


def classify(e, mon):
    if e["op"] == "convert":
        return {"monitor": mon, "op": "convert", "ver": e["ver"], "class": "conversion",
                "pneg": e["pneg"], "bneg": e["bneg"], "aneg": e["aneg"]}
    cls = "high_limbs_ignored" if (e["ok"] and (e["ohi"] == 1 or e["nhi"] == 1)) else "other"
    return {"monitor": mon, "op": e["op"], "src": e["src"], "class": cls, "L": e["L"], "ohi": e["ohi"], "olo": e["olo"],
            "nhi": e["nhi"], "nlo": e["nlo"], "start": e["start"], "len": e["len"], "panic": e["panic"]}


def run(ctx):
    ctx.build("h-model", "c28")
    r = ctx.model_check("MC_ReportEnvelope", workers=4)
    cases = r.tagged("E")
    classes = {c["cls"] for c in cases}
    want = {"short_payload", "offset_high_limbs", "offset_in_head", "length_word_out_of_range", "length_high_limbs",
            "blob_out_of_range", "ok"}
    if classes != want:
        raise vlib.ToolError("vacuity: envelope classes enumerated %s, expected %s" % (sorted(classes), sorted(want)))
    cp = ctx.path("cases.ndjson")
    vlib.write_ndjson(cp, cases)
    n = 1500 if ctx.quick else 20000
    files = []
    a = ctx.path("envelope.ndjson")
    ctx.run_bin("c28", ["envelope", "--in", cp, "--out", a])
    files.append((a, "Trace_ReportEnvelope", "h-model c28 envelope (cases of MC_ReportEnvelope)"))
    b = ctx.path("mutate.ndjson")
    ctx.run_bin("c28", ["mutate", "--seed", ctx.seed, "--n", n, "--out", b])
    files.append((b, "Trace_ReportEnvelope", "h-model c28 mutate --seed %s --n %d" % (ctx.seed, n)))
    c = ctx.path("convert.ndjson")
    ctx.run_bin("c28", ["convert", "--seed", ctx.seed, "--n", 2 * n, "--out", c])
    files.append((c, "Trace_ReportConvert", "h-model c28 convert --seed %s --n %d" % (ctx.seed, 2 * n)))
    distinct = set()
    for path, cfg, drv in files:
        fails, drifts, _ = ctx.validate_trace("Trace_ReportEnvelope", path, cfg=cfg, timeout=1800)
        ev = vlib.read_ndjson(path)
        if not any(e["ok"] for e in ev) or all(e["ok"] for e in ev):
            raise vlib.ToolError("vacuity: %s has no success or no failure" % path)
        for e in ev:
            if e["op"] == "convert":
                distinct.add(("convert", e["ver"], e["pneg"], e["bneg"], e["aneg"], tuple(e["price"]), tuple(e["bid"]), tuple(e["ask"])))
            else:
                distinct.add((e["op"], e["src"], e["L"], e["ohi"], e["olo"], e["nhi"], e["nlo"], e["ok"]))
        ctx.cov["samples"] += [ev[len(ev) // 3], ev[-1]]
        for f in fails:
            e = ev[f["i"] - 1]
            ctx.report(classify(e, f["mon"]), {"driver": drv, "event": e})
    ctx.distinct += len(distinct)
    ctx.assumptions += ["'any byte string' is sampled: envelope classes are enumerated by TLC, everything else is mutation / truncation / "
                        "random bytes around two sample reports and crafted blobs of schema versions 0..14",
                        "the inner field decoding is the third-party chainlink-data-streams-report crate (judged for panics only)",
                        "decimal digit sequences of 192-bit numbers are produced by the driver (repeated division by ten)"]
    ctx.cov["trusted_base"] += ["TLC", "harness h-model c28 driver (payload crafting, pointer-offset identification of the blob)"]
    return ctx.finish("exploration",
                      "%d envelope cases (payload length x offset word x length word neighbourhoods, high limbs set/unset) realised as "
                      "payloads; every truncation of 2 sample full reports, of their blobs and compressed forms; offset/length words set "
                      "to 24 boundary values x high limbs; %d random byte mutations; crafted blobs for versions 0..14; snappy wrappers; "
                      "%d crafted reports through from_chainlink_report; distinct = distinct (op, class/words/result) or report values"
                      % (len(cases), 2 * n, 2 * n), exhaustive=False)
