"""C25 A custom price feed never moves backwards in time or stores an invalid price.
Spec: Feed.tla (PriceFeed::update as the code orders its checks), FeedProps.tla (monitors),
MC_Feed (bounded model, monitors as action properties), Trace_Feed (TLC trace validation of the
real zero-copy PriceFeed driven through the cfg-guarded hooks with a stubbed clock)."""
import vlib
from props import c24


def classify(e, mon):
    older = e["ts"] < e["pre"]["ts"]
    return {"monitor": mon, "op": e["op"], "res": e["res"], "idem": e["idem"], "older": older,
            "valid_request": e["min"] <= e["price"] <= e["max"]}


def _judge(ctx, name, path, driver):
    fails, drifts = c24.validate_chunked(ctx, "Trace_Feed", path)
    ev = vlib.read_ndjson(path)
    for f in fails:
        e = ev[f["i"] - 1]
        ctx.report(classify(e, f["mon"]), {"driver": driver, "replay": "c25 replay --in <file with this event>",
                                           "event": e})
    return ev


def run(ctx):
    ctx.build("h-programs", "c25")
    if ctx.replay_file:
        import json
        rep = json.load(open(ctx.replay_file))
        src = ctx.path("replay-in.ndjson")
        vlib.write_ndjson(src, [rep["replay"]["event"]])
        out = ctx.path("replay.ndjson")
        ctx.run_bin("c25", ["replay", "--in", src, "--out", out])
        ev = _judge(ctx, "replay", out, "h-programs c25 replay")
        ctx.distinct += 2
        ctx.cov["samples"] += ev[:1]
        return ctx.finish("model_checking", "replay of one recorded event", exhaustive=False)
    # 1. the design satisfies the monitors: all update sequences of the bounded model (fixed point)
    ctx.model_check("MC_Feed", cfg="MC_Feed_quick" if ctx.quick else "MC_Feed", workers=8, timeout=900)
    # 2. state injection: every (feed state, request) of a finite domain on the real PriceFeed
    tr = ctx.path("small.ndjson")
    ctx.run_bin("c25", ["small", "--full", 0 if ctx.quick else 1, "--out", tr])
    ev = _judge(ctx, "small", tr, "h-programs c25 small")
    # 3. random update sequences (clock mostly advancing, sometimes backwards)
    rr = ctx.path("random.ndjson")
    ctx.run_bin("c25", ["random", "--seed", ctx.seed, "--n", 6000 if ctx.quick else 60000, "--out", rr])
    ev2 = _judge(ctx, "random", rr, "h-programs c25 random")
    allev = ev + ev2
    key = lambda e: (tuple(sorted(e["pre"].items())), e["price"], e["min"], e["max"], e["ts"], e["slot"], e["now"],
                     e["excess"], e["idem"])
    ctx.distinct += len({key(e) for e in allev})
    # vacuity: each monitor's antecedent must have been exercised on the real code
    cnt = {"ok": 0, "skip": 0, "err": 0, "idem_older_sane": 0, "strict_older": 0, "invalid_price_req": 0}
    for e in allev:
        cnt[e["res"]] += 1
        older = e["ts"] < e["pre"]["ts"]
        sane = e["slot"] >= e["pre"]["slot"] and e["now"] >= e["pre"]["pub"]
        if older and e["idem"] and sane:
            cnt["idem_older_sane"] += 1
        if older and not e["idem"] and sane:
            cnt["strict_older"] += 1
        if sane and not older and not (e["min"] <= e["price"] <= e["max"]):
            cnt["invalid_price_req"] += 1
    for k, v in cnt.items():
        if v == 0:
            if not ctx.violations:
                raise vlib.ToolError("vacuity: no event of class %s in the validated traces" % k)
    ctx.cov["classes"] = cnt
    ctx.cov["samples"] += [ev[len(ev) // 2], ev2[7], ev2[-1]]
    ctx.assumptions += ["the clock is the stubbed Clock sysvar (slot, unix_timestamp) set by the driver before each call",
                        "price values are small integers (u128 fields); type-limit values are outside the statement"]
    ctx.cov["trusted_base"] += ["TLC", "harness h-programs c25 driver (projection of PriceFeed, byte comparison)",
                                "cfg-guarded hooks states/oracle/feed.rs::verif (thin wrappers)"]
    return ctx.finish("model_checking",
                      "state injection over %d (feed state, request) pairs of the model's domain plus %d random "
                      "sequence steps; distinct = distinct (pre-state, request) pairs" % (len(ev), len(ev2)),
                      exhaustive=False)
