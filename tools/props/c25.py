"""C25 A custom price feed never moves backwards in time or stores an invalid price.
Spec: Feed.tla (PriceFeed::update as the code orders its checks), FeedProps.tla (monitors),
MC_Feed (bounded model, monitors as action properties), Trace_Feed (TLC trace validation of the
real zero-copy PriceFeed driven through the cfg-guarded hooks with a stubbed clock)."""
import json
import vlib
from props import c24


def classify(e, mon):
    older = e["ts"] < e["pre"]["ts"]
    return {"monitor": mon, "op": e["op"], "res": e["res"], "idem": e["idem"], "older": older,
            "valid_request": e["min"] <= e["price"] <= e["max"]}


def classify_wide(e, mon):
    ts, pts = int(e["ts"]["s"]), int(e["pre"]["ts"]["s"])
    return {"monitor": mon, "op": e["op"], "res": e["res"], "idem": e["idem"], "older": ts < pts, "tier": "wide",
            "ts_diff_overflows_i64": not (-(1 << 63) <= ts - pts < (1 << 63))}


def _check_limbs(wev):
    """the limb form (judged by TLC) must encode the decimal string (what the real code returned)"""
    def chk(x):
        v = 0
        for limb in x["l"]:
            assert 0 <= limb < (1 << 20)
            v = (v << 20) | limb
        if (-v if x["neg"] else v) != int(x["s"]) or len(x["l"]) != 7 or (x["neg"] and v == 0):
            raise vlib.ToolError("wide event: limbs do not encode %s" % x["s"])
    for e in wev:
        for k in ("price", "min", "max", "ts", "slot", "now", "excess"):
            chk(e[k])
        for st in (e["pre"], e["post"]):
            for x in st.values():
                chk(x)


def _judge(ctx, name, path, driver):
    fails, drifts = c24.validate_chunked(ctx, "Trace_Feed", path)
    ev = vlib.read_ndjson(path)
    for f in fails:
        e = ev[f["i"] - 1]
        ctx.report(classify(e, f["mon"]), {"driver": driver, "replay": "c25 replay --in <file with this event>",
                                           "event": e})
    return ev


def run(ctx):
    ctx.build("h-programs", "c25")
    if ctx.replay_file:
        rep = json.load(open(ctx.replay_file))
        src = ctx.path("replay-in.ndjson")
        vlib.write_ndjson(src, [rep["replay"]["event"]])
        out = ctx.path("replay.ndjson")
        ctx.run_bin("c25", ["replay", "--in", src, "--out", out])
        ev = _judge(ctx, "replay", out, "h-programs c25 replay")
        ctx.distinct += 2
        ctx.cov["samples"] += ev[:1]
        return ctx.finish("model_checking", "replay of one recorded event", exhaustive=False)
    # 1. the design satisfies the monitors: all update sequences of the bounded model (fixed point)
    ctx.model_check("MC_Feed", cfg="MC_Feed_quick" if ctx.quick else "MC_Feed", workers=8, timeout=900)
    # 2. state injection: every (feed state, request) of a finite domain on the real PriceFeed
    tr = ctx.path("small.ndjson")
    ctx.run_bin("c25", ["small", "--full", 0 if ctx.quick else 1, "--out", tr])
    ev = _judge(ctx, "small", tr, "h-programs c25 small")
    # 3. random update sequences (clock mostly advancing, sometimes backwards)
    rr = ctx.path("random.ndjson")
    ctx.run_bin("c25", ["random", "--seed", ctx.seed, "--n", 6000 if ctx.quick else 60000, "--out", rr])
    ev2 = _judge(ctx, "random", rr, "h-programs c25 random")
    # 4. type-limit tier: real i64 / u64 / u128 values at and around the limits; every number is logged as a decimal
    #    string plus limbs and ordered / added by TLC itself (BigNum.tla, calibrated against integers in MC_BigNum)
    c24.mc(ctx, "MC_BigNum", "MC_BigNum_quick" if ctx.quick else "MC_BigNum", timeout=900)
    wr = ctx.path("wide.ndjson")
    ctx.run_bin("c25", ["wide", "--seed", ctx.seed, "--n", 8000 if ctx.quick else 80000, "--out", wr])
    wev = vlib.read_ndjson(wr)
    _check_limbs(wev)
    fails, drifts = c24.validate_chunked(ctx, "Trace_FeedBig", wr, chunk=60000)
    for f in fails:
        e = wev[f["i"] - 1]
        ctx.report(classify_wide(e, f["mon"]), {"driver": "h-programs c25 wide", "event": e})
    I64MIN = -(1 << 63)
    wcls = {"wide_ok": 0, "wide_skip": 0, "wide_err": 0, "wrap_window": 0, "ts_at_limits": 0, "future_saturates": 0}
    for e in wev:
        wcls["wide_" + e["res"]] += 1
        ts, pts = int(e["ts"]["s"]), int(e["pre"]["ts"]["s"])
        if pts > 0 and ts < I64MIN + pts:          # ts - stored ts does not fit an i64
            wcls["wrap_window"] += 1
        if abs(ts) >= (1 << 62):
            wcls["ts_at_limits"] += 1
        if int(e["now"]["s"]) + int(e["excess"]["s"]) > (1 << 63) - 1:
            wcls["future_saturates"] += 1
    for k, v in wcls.items():
        if v == 0:
            if not ctx.violations:
                raise vlib.ToolError("vacuity: no wide event of class %s" % k)
    ctx.cov["wide_classes"] = wcls
    ctx.distinct += len({json.dumps([e["pre"], e["price"], e["min"], e["max"], e["ts"], e["slot"], e["now"], e["excess"], e["idem"]],
                                    sort_keys=True) for e in wev})
    ctx.cov["samples"] += [wev[len(wev) // 2]]
    allev = ev + ev2
    key = lambda e: (tuple(sorted(e["pre"].items())), e["price"], e["min"], e["max"], e["ts"], e["slot"], e["now"],
                     e["excess"], e["idem"])
    ctx.distinct += len({key(e) for e in allev})
    # vacuity: each monitor's antecedent must have been exercised on the real code
    cnt = {"ok": 0, "skip": 0, "err": 0, "idem_older_sane": 0, "strict_older": 0, "invalid_price_req": 0}
    for e in allev:
        cnt[e["res"]] += 1
        older = e["ts"] < e["pre"]["ts"]
        sane = e["slot"] >= e["pre"]["slot"] and e["now"] >= e["pre"]["pub"]
        if older and e["idem"] and sane:
            cnt["idem_older_sane"] += 1
        if older and not e["idem"] and sane:
            cnt["strict_older"] += 1
        if sane and not older and not (e["min"] <= e["price"] <= e["max"]):
            cnt["invalid_price_req"] += 1
    for k, v in cnt.items():
        if v == 0:
            if not ctx.violations:
                raise vlib.ToolError("vacuity: no event of class %s in the validated traces" % k)
    ctx.cov["classes"] = cnt
    ctx.cov["samples"] += [ev[len(ev) // 2], ev2[7], ev2[-1]]
    ctx.assumptions += ["the clock is the stubbed Clock sysvar (slot, unix_timestamp) set by the driver before each call",
                        "type-limit values are a boundary-biased sample (wide tier), the small domain is exhaustive"]
    ctx.cov["trusted_base"] += ["TLC", "harness h-programs c25 driver (projection of PriceFeed, byte comparison)",
                                "cfg-guarded hooks states/oracle/feed.rs::verif (thin wrappers)"]
    return ctx.finish("model_checking",
                      "state injection over %d (feed state, request) pairs of the model's domain plus %d random "
                      "sequence steps; distinct = distinct (pre-state, request) pairs" % (len(ev), len(ev2)),
                      exhaustive=False)
