"""C22 Market vaults stay solvent after every instruction.
Spec: Vaults.tla (recorded balances, pools, vaults; instruction kinds with their transfer routing),
VaultsProps.tla (monitors = validate_market_balances' two inequalities + vault cover; routing conformance),
MC_Vaults (bounded design model, monitors as invariants, scripts printed for replay), Trace_Vaults (TLC
trace validation after EVERY real instruction executed by the in-process runtime in world R2)."""
import json, random
import vlib


def classify(e, mon):
    return {"monitor": mon, "op": e["op"], "step": e["step"], "ok": e["ok"], "err": e["err"]}


def run(ctx):
    ctx.build("h-runtime", "c22")
    # 1. the design keeps the monitors: exhaustive bounded model
    ctx.model_check("MC_Vaults", cfg="MC_Vaults" if ctx.quick else "MC_Vaults_thorough", workers=8, timeout=2400,
                    expect_actions=["DoDeposit", "DoWithdraw", "DoSwap1", "DoSwap2", "DoShift", "DoClaim", "DoTransferIn",
                                    "DoCollateralIn", "DoCollateralOut", "DoDonate"])
    # 2. TLC-generated scripts (all operation sequences up to length 3 of the small instance)
    r = ctx.model_check("MC_Vaults", cfg="MC_Vaults_paths", workers=8, timeout=1200, count=False, coverage=False)
    uniq = {}
    for t in r.tagged("T"):
        k = json.dumps(t["path"], sort_keys=True)
        if t["path"] and k not in uniq:
            uniq[k] = t
    scripts = [uniq[k] for k in sorted(uniq)]
    rnd = random.Random(ctx.seed)
    rnd.shuffle(scripts)
    # longest scripts first in the sample; all operations are covered many times
    scripts.sort(key=lambda t: -len(t["path"]))
    take = scripts[:600 if ctx.quick else 6000]
    sp = ctx.path("scripts.ndjson")
    vlib.write_ndjson(sp, take)
    traces = []
    tr = ctx.path("replay.ndjson")
    out = ctx.run_bin("c22", ["replay", "--in", sp, "--out", tr], timeout=3000)
    stat = json.loads(out.strip().splitlines()[-1])["stats"]
    vlib.log("  replay: %d of %d TLC scripts, %d instructions (%d ok), %d swap hops" % (
        len(take), len(scripts), stat["instructions"], stat["ok_instructions"], stat["hops"]))
    traces.append(("replay", tr))
    classes = dict(stat["classes"])
    instr, hops = stat["instructions"], stat["hops"]
    # 3. random scripts incl. 1-3 hop swap paths in deposits, withdrawals and orders
    seeds = [ctx.seed] if ctx.quick else [ctx.seed + k for k in range(6)]
    for k, s in enumerate(seeds):
        rp = ctx.path("random%d.ndjson" % k)
        out = ctx.run_bin("c22", ["random", "--seed", s, "--n", 6000 if ctx.quick else 30000, "--len", 14, "--out", rp], timeout=3000)
        st = json.loads(out.strip().splitlines()[-1])["stats"]
        instr += st["instructions"]
        hops += st["hops"]
        for c, n in st["classes"].items():
            classes[c] = classes.get(c, 0) + n
        traces.append(("random seed %d" % s, rp))
    distinct = set()
    nonzero = {"fee": 0, "imp": 0, "col": 0}
    cuts_two_tokens = 0   # position cuts paying out in both tokens (secondary output: the PnL -> collateral swap failed)
    for name, path in traces:
        fails, drifts, _ = ctx.validate_trace("Trace_Vaults", path, timeout=3000, heap="6g")
        ev = vlib.read_ndjson(path)
        for e in ev:
            if e["ok"] and e["op"] in ("liquidate", "auto_deleverage"):
                moved = [t for t in e["pre"]["vault"] if e["post"]["vault"][t] != e["pre"]["vault"][t]]
                if len(moved) >= 2:
                    cuts_two_tokens += 1
            if e["ok"]:
                distinct.add((e["op"], json.dumps(e["post"]["bal"], sort_keys=True), json.dumps(e["post"]["vault"], sort_keys=True)))
                for k in nonzero:
                    if any(v["long"] or v["short"] for v in e["post"][k].values()):
                        nonzero[k] += 1
        ctx.cov["samples"] += [ev[len(ev) // 2], ev[-1]]
        for f in fails:
            e = ev[f["i"] - 1]
            ctx.report(classify(e, f["mon"]), {"driver": "h-runtime c22 (%s)" % name, "event": e,
                                               "events": ev[max(0, f["i"] - 4):f["i"]]})
    ctx.distinct += len(distinct)
    need = ["execute_deposit/ok", "execute_withdrawal/ok", "execute_order/ok", "execute_shift/ok", "claim_fees/ok",
            "market_transfer_in/ok", "close_deposit/ok", "create_order/ok", "execute_increase/ok", "execute_decrease/ok",
            "liquidate/ok", "auto_deleverage/ok", "update_adl_state/ok", "close_cut_order/ok"]
    missing = [c for c in need if c not in classes]
    if (missing or not nonzero["fee"] or not nonzero["imp"] or not nonzero["col"] or not hops or cuts_two_tokens < 4) and not ctx.violations:
        raise vlib.ToolError("vacuity: missing %s, events with fee pool %d, impact pool %d, collateral %d, hops %d, cuts with secondary output %d"
                             % (missing, nonzero["fee"], nonzero["imp"], nonzero["col"], hops, cuts_two_tokens))
    ctx.cov["position_cuts_with_secondary_output"] = cuts_two_tokens
    ctx.cov["per_class"] = {c: classes[c] for c in sorted(classes)}
    ctx.cov["instructions_executed"] = instr
    ctx.cov["swap_hops_executed"] = hops
    ctx.cov["events_with_nonzero"] = nonzero
    ctx.cov["tlc_scripts"] = {"generated": len(scripts), "replayed": len(take)}
    ctx.cov["trusted_base"] += ["TLC", "h-runtime in-process program runtime (account/CPI emulation; real SPL Token / ATA processors)",
                                "world R2 set-up (h-runtime/src/world2.rs): zeroed Oracle account and the prices in the custom PriceFeed "
                                "accounts are fabricated; everything else is created by real instructions",
                                "projection of Market pools / balances and SPL vault amounts (R2::vaults_state)"]
    ctx.assumptions += [
        "instructions bound to code: create/execute/close of deposits (incl. swap paths on both sides), withdrawals (incl. swap paths), "
        "MarketSwap orders along 1-3 markets, shifts, MarketIncrease / MarketDecrease orders; claim_fees_from_market; "
        "market_transfer_in; plain SPL transfers into a vault",
        "position collateral comes from MarketIncrease / MarketDecrease orders (leverage 2, no swap path); positions are cut by "
        "liquidate and by update_adl_state + auto_deleverage after a 10% index price move in their favour, for every combination of "
        "position side and collateral side, with the cut's PnL -> collateral swap succeeding and failing (pool cap 1 => secondary output "
        "in the PnL token); the market is configured to allow the cut (min_collateral_factor_for_liquidation = 2, max_pnl_factor_for_adl "
        "= 1e-6) by recorded update_market_config instructions; position orders with swap paths are not executed",
        "prices move only in the cut scenarios and in the random scripts (feeds rewritten through the PriceFeed hook between instructions)",
        "swap fees 0.3% / 0.5% and quadratic swap impact are configured on the two-token markets so that the fee "
        "and impact pools are non-zero",
        "every monitor is evaluated on the state read back from the accounts after each successful instruction, including the "
        "intermediate create / close instructions of an action"]
    return ctx.finish("model_checking",
                      "distinct = distinct (instruction, recorded balances of all markets, vault amounts) after a successful real "
                      "instruction; scripts are all TLC operation sequences up to length 3 (sampled) plus random scripts",
                      exhaustive=False)
