"""C20 Market config updates follow the keeper permission policy.
Spec: ConfigPolicy.tla (update / update_flag / update_with_buffer / set_updatable / buffer instructions with
their failure cases), ConfigPolicyProps.tla (monitors), MC_ConfigPolicy (bounded model, monitors on every
transition, prints a history per state), Trace_ConfigPolicy (TLC trace validation of REAL instructions)."""
import json, re
import vlib

ACTIONS = ("DoUpdate", "DoUpdateFlag", "DoSetUpdatable", "DoInitBuffer", "DoPushBuffer", "DoSetBufAuth",
           "DoCloseBuffer", "DoWithBuffer", "DoTick")


def classify(e, mon):
    return {"monitor": mon, "op": e["op"], "ok": e["ok"], "err": e["err"], "roles": "+".join(e["roles"]) or "none"}


def action_coverage(raw):
    cov = {}
    for m in re.finditer(r"^<(Do\w+) line [^>]*>: (\d+):(\d+)", raw, re.M):
        cov[m.group(1)] = (int(m.group(2)), int(m.group(3)))
    return cov


def scenario_classes(ev):
    """which policy-relevant situations occurred (vacuity control of the monitors' antecedents)"""
    seen = set()
    for e in ev:
        roles, p, op = set(e["roles"]), e["pre"], e["op"]
        only_mck = roles == {"MCK"}
        if op in ("update", "update_flag") and (e["k"] in p["cfg"] or e["k"] in p["flg"]):
            upd = e["k"] in p["upd"]
            if only_mck:
                seen.add("mck_%s_%s_%s" % (op, "updatable" if upd else "fixed", "ok" if e["ok"] else "rejected"))
            elif "MK" in roles:
                seen.add("mk_%s_%s" % (op, "ok" if e["ok"] else "rejected"))
            else:
                seen.add("nokeeper_%s_%s" % (op, "ok" if e["ok"] else "rejected"))
        if op == "with_buffer" and p["buf"]["exists"]:
            b = p["buf"]
            ks = [x["k"] for x in b["entries"]]
            live = b["expiry"] > p["now"]
            mine = b["auth"] == e["s"]
            allu = all(k in p["upd"] for k in ks)
            someu = any(k in p["upd"] for k in ks)
            tag = "ok" if e["ok"] else "rejected"
            if mine and only_mck and live and ks:
                seen.add("mck_buffer_%s_%s" % ("all_updatable" if allu else ("mixed" if someu else "none_updatable"), tag))
            if mine and "MK" in roles and live:
                seen.add("mk_buffer_live_" + tag)
            if mine and roles & {"MK", "MCK"} and not live:
                seen.add("buffer_expired_%s_%s" % ("at" if b["expiry"] == p["now"] else "before", tag))
            if not mine:
                seen.add("buffer_not_authority_" + tag)
            if mine and not roles:
                seen.add("buffer_nokeeper_" + tag)
    return seen


def run(ctx):
    ctx.build("h-runtime", "c20")
    # 1. design satisfies the monitors (every transition), bounded model
    r = ctx.model_check("MC_ConfigPolicy", cfg="MC_ConfigPolicy" if ctx.quick else "MC_ConfigPolicy_thorough",
                        workers=8, timeout=1500)
    depth = 2 if ctx.quick else 3
    cov = action_coverage(r.raw)
    for a in ACTIONS:
        if cov.get(a, (0, 0))[1] == 0:
            raise vlib.ToolError("vacuity: action %s of MC_ConfigPolicy never taken" % a)
    ctx.model_check("MC_ConfigPolicy", cfg="MC_ConfigPolicy_design" if ctx.quick else "MC_ConfigPolicy_design4",
                    workers=8, timeout=1500)
    # 2. spec -> implementation
    paths, seen = [], set()
    for t in r.tagged("T"):
        if len(t["path"]) > depth:
            continue
        k = json.dumps(t["st"], sort_keys=True)
        if k not in seen:
            seen.add(k)
            paths.append(t)
    pp = ctx.path("paths.ndjson")
    vlib.write_ndjson(pp, paths)
    tr = ctx.path("replay.ndjson")
    out = ctx.run_bin("c20", ["replay", "--in", pp, "--out", tr])
    stat = json.loads(out.strip().splitlines()[-1])
    vlib.log("  replay: %s" % stat)
    if stat["unreachable"] or stat["state_mismatch"]:
        ctx.note("replay: %d model states not reached by the real code, %d reached with a different projection"
                 % (stat["unreachable"], stat["state_mismatch"]))
        ctx.drift += stat["unreachable"] + stat["state_mismatch"]
    traces = [("replay", tr)]
    # 3. implementation -> spec: random + scripted histories over all real keys / flags
    seeds = [ctx.seed] if ctx.quick else [ctx.seed + k for k in range(5)]
    rstat = {}
    for k, s in enumerate(seeds):
        rp = ctx.path("random%d.ndjson" % k)
        out = ctx.run_bin("c20", ["random", "--seed", s, "--n", 8000 if ctx.quick else 30000, "--out", rp])
        rstat = json.loads(out.strip().splitlines()[-1])
        traces.append(("random seed %d" % s, rp))
    classes = set()
    for name, path in traces:
        fails, drifts, _ = ctx.validate_trace("Trace_ConfigPolicy", path)
        ev = vlib.read_ndjson(path)
        classes |= scenario_classes(ev)
        ctx.distinct += len({(e["op"], e["s"], e["k"], e["v"], e["b"], json.dumps(e["es"]), e["n"],
                              json.dumps(e["pre"], sort_keys=True)) for e in ev})
        ctx.cov["samples"] += [{k: v for k, v in ev[len(ev) // 2].items()}, ev[-1]]
        for f in fails:
            e = ev[f["i"] - 1]
            ctx.report(classify(e, f["mon"]), {"driver": "h-runtime c20 (%s)" % name, "event": e,
                                               "events": ev[max(0, f["i"] - 3):f["i"]]})
    need = ["mk_update_ok", "mk_update_flag_ok", "mck_update_updatable_ok", "mck_update_fixed_rejected",
            "mck_update_flag_updatable_ok", "mck_update_flag_fixed_rejected", "nokeeper_update_rejected",
            "mck_buffer_all_updatable_ok", "mck_buffer_mixed_rejected", "mk_buffer_live_ok",
            "buffer_expired_at_rejected", "buffer_expired_before_rejected", "buffer_not_authority_rejected"]
    missing = [c for c in need if c not in classes]
    if missing and not ctx.violations and not ctx.drift:
        raise vlib.ToolError("vacuity: situations never observed in the traces: %s" % missing)
    ctx.cov["situations"] = sorted(classes)
    ctx.cov["replayed_states"] = stat["states"]
    ctx.cov["real_keys_covered"] = "%s of %s keys, %s flags" % (rstat.get("real_keys_covered"), rstat.get("real_keys"), rstat.get("real_flags"))
    ctx.cov["trusted_base"] += ["TLC", "h-runtime in-process program runtime (account/CPI emulation, System, SPL Token)",
                                "c20 driver projection (Market::get_config / get_config_flag, MarketConfigBuffer, the two "
                                "permission bitmaps of Store located by a calibration step, Store::has_role)"]
    ctx.assumptions += ["bounded model: 3 real keys + 2 real flags, signers {MARKET_KEEPER, MARKET_CONFIG_KEEPER, none}, one buffer "
                        "<= 3 entries, histories up to %d accepted operations with all 94 operations attempted from every state; "
                        "all 66 keys / 4 flags and signers holding both / an unrelated role only in the random histories" % depth,
                        "roles are static during a history (role management is C18); cluster restart is not exercised here",
                        "the market is created by the real initialize_market on real SPL mints"]
    return ctx.finish("model_checking",
                      "distinct = distinct (projected pre-state, operation, arguments, signer) executed through the real "
                      "instructions; all operations incl. the rejected ones are attempted from every model state up to the depth",
                      exhaustive=False)
