"""C41 Transaction packing preserves instructions and respects size limits.
Spec: TxPack.tla (TransactionGroup::optimize as the code's greedy pairwise merge over an abstract size
oracle), TxPackProps.tla (monitors), MC_TxPack (bounded exhaustive model, prints the inputs),
Trace_TxPack (TLC trace validation of runs of the real packing code on concrete instructions)."""
import json
import vlib



def vacuity(ctx, msg):
    """a vacuity alarm is a tool error only when nothing else explains the missing cases: with violations or
    drift on record the verdict comes first and the alarm is demoted to a note"""
    if ctx.violations or ctx.drift:
        ctx.note("vacuity (demoted: violations or drift on record): " + msg)
    else:
        raise vlib.ToolError("vacuity: " + msg)

def members(tx):
    return sorted({t // 10 for t in tx["ixs"]})


def classify(e, mon):
    cls = "other"
    txs = [t for b in e["out"] for t in b]
    if mon == "Limits":
        over = [t for t in txs if t["built"] and t["real"] > e["maxSize"]]
        cnt = [t for t in txs if t["nix"] > e["maxIx"]]
        # narrow: the only thing wrong is a transaction that add() measured without the memo
        if over and not cnt and e["memo"] and all(t["est0"] <= e["maxSize"] for t in over):
            cls = "memo_not_counted_by_add"
        elif cnt:
            cls = "instruction_count"
        else:
            cls = "size"
    elif mon == "Estimate":
        cls = "luts" if e["luts"] else "no_luts"
    elif mon in ("MergeAllowed", "Payer"):
        cls = "cross_parallel" if any(len(p["ags"]) == 1 for p in e["pgs"]) else "in_parallel"
    return {"monitor": mon, "class": cls, "allow": e["allow"], "maxIx": e["maxIx"], "maxSize": e["maxSize"],
            "memo": e["memo"], "luts": e["luts"], "case": e["case"]}


def replay_obj(e, driver):
    line = {"pgs": e["orig"]["pgs"], "allow": e["orig"]["allow"], "seed": e["seed"]}
    return {"driver": driver, "input": line, "event": {k: v for k, v in e.items() if k != "fit"}}


def judge(ctx, tr, driver):
    fails, drifts, _ = ctx.validate_trace("Trace_TxPack", tr)
    ev = vlib.read_ndjson(tr)
    seen = {}
    for f in fails:
        e = ev[f["i"] - 1]
        c = classify(e, f["mon"])
        k = (c["monitor"], c["class"])
        seen[k] = seen.get(k, 0) + 1
        if seen[k] <= 20 or vlib.match_known(ctx.pid, c) is not None:   # at most 20 replay files per class
            ctx.report(c, replay_obj(e, driver))
    return ev


def stats(ev):
    s = {"merged_in_parallel": 0, "merged_cross_parallel": 0, "payer_changed": 0, "lut_used": 0,
         "rejected_by_add": 0, "at_size_limit": 0, "at_count_limit": 0, "unbuildable": 0, "with_memo": 0}
    for e in ev:
        pay = {a["id"]: a["payer"] for p in e["pgs"] for a in p["ags"]}
        pg_of = {a["id"]: i for i, p in enumerate(e["pgs"]) for a in p["ags"]}
        for t in (t for b in e["out"] for t in b):
            m = members(t)
            if len(m) >= 2:
                if len({pg_of[g] for g in m}) >= 2:
                    s["merged_cross_parallel"] += 1
                else:
                    s["merged_in_parallel"] += 1
                if len({pay[g] for g in m}) >= 2:
                    s["payer_changed"] += 1
            if not t["built"]:
                s["unbuildable"] += 1
        n = len(pay)
        # a pair that was refused only because of the limits
        if any(not e["fit"][a][a + 1] for a in range(n - 1)):
            s["at_size_limit" if e["maxIx"] >= 6 else "at_count_limit"] += 1
        s["lut_used"] += 1 if e["luts"] else 0
        s["rejected_by_add"] += 1 if e["rejected"] else 0
        s["with_memo"] += 1 if e["memo"] else 0
    return s


def run(ctx):
    ctx.build("h-sdk", "c41")
    if ctx.replay_file:
        rp = json.load(open(ctx.replay_file))
        inp = ctx.path("replay-in.ndjson")
        vlib.write_ndjson(inp, [rp["replay"]["input"]])
        tr = ctx.path("replay.ndjson")
        ctx.run_bin("c41", ["replay", "--in", inp, "--out", tr])
        ev = judge(ctx, tr, "h-sdk c41 replay")
        ctx.distinct += max(2, len(ev))
        return ctx.finish("exploration", "replay of one recorded case", exhaustive=False)
    # 1. the design (TxPack.Optimize) satisfies the monitors on the whole bounded model; TLC prints inputs
    cfg = "MC_TxPack" if ctx.quick else "MC_TxPack_thorough"
    r = ctx.model_check("MC_TxPack", cfg=cfg, workers=8, timeout=600 if ctx.quick else 2400,
                        expect_actions=["Gen"])
    inputs = r.tagged("T")
    if len(inputs) < 1000:
        raise vlib.ToolError("MC_TxPack printed only %d inputs" % len(inputs))
    inp = ctx.path("inputs.ndjson")
    vlib.write_ndjson(inp, inputs)
    # 2. spec -> implementation: every printed input realised with concrete instructions
    tr = ctx.path("replay.ndjson")
    ctx.run_bin("c41", ["replay", "--in", inp, "--seed", ctx.seed, "--reals", 1 if ctx.quick else 2, "--out", tr])
    ev = judge(ctx, tr, "h-sdk c41 replay")
    # 3. seeded random inputs up to 4 parallel x 2 atomic groups, n in 0..3
    tr2 = ctx.path("random.ndjson")
    ctx.run_bin("c41", ["random", "--seed", ctx.seed, "--n", 6000 if ctx.quick else 60000, "--out", tr2])
    ev2 = judge(ctx, tr2, "h-sdk c41 random")
    allev = ev + ev2
    s = stats(allev)
    for k in ("merged_in_parallel", "merged_cross_parallel", "payer_changed", "lut_used", "rejected_by_add",
              "at_size_limit", "at_count_limit"):
        if s[k] == 0:
            vacuity(ctx, "no case with %s" % k)
    panics = sum(1 for e in allev if e["panic"])
    if panics:
        ctx.note("%d run(s) where optimize() panicked (not judged)" % panics)
    if s["unbuildable"]:
        ctx.note("%d packed transaction(s) could not be built (SignerError::TooManySigners): after a merge with "
                 "payer change the second group's payer stays in the signer list although no instruction "
                 "requires it; outside the listed property, recorded as an observation" % s["unbuildable"])
    ctx.distinct += len({json.dumps([e["orig"], e["maxIx"], e["maxSize"], e["memo"], e["luts"],
                                     [[t["ixs"] for t in b] for b in e["out"]]], sort_keys=True)
                         for e in allev if sum(len(p["ags"]) for p in e["pgs"]) >= 2})
    ctx.cov["samples"] += [{k: v for k, v in ev[len(ev) // 2].items() if k != "fit"},
                           {k: v for k, v in ev2[-1].items() if k != "fit"}]
    ctx.cov["trusted_base"] += ["TLC", "harness h-sdk c41 driver (realisation of abstract groups, read-back of "
                                "serialized transactions with bincode / solana-sdk)"]
    ctx.assumptions += ["instructions are synthetic (3 programs, 14 accounts, 2 payers, 2 extra signers, 0..3 lookup "
                        "tables with overlapping and duplicate entries); compute-budget limits stay below the u32 "
                        "overflow of ComputeBudget::add_assign",
                        "the instruction-count limit is read as the code documents it: compute budget and memo "
                        "instructions are not counted"]
    return ctx.finish("model_checking",
                      "every input of the bounded model with <= %d atomic groups realised with concrete instructions "
                      "(%d), plus %d seeded random inputs of up to 4x2 groups; distinct = distinct (input, limits, "
                      "memo, lookup tables, produced packing) with at least two atomic groups"
                      % (3, len(ev), len(ev2)),
                      extra={"case_counts": s, "model_inputs_printed": len(inputs)}, exhaustive=False)
