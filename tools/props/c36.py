"""C36 Timelocked instructions run only as approved, after the delay.
Spec: Timelock.tla (buffer life cycle), TimelockProps.tla (monitors), MC_Timelock (bounded design check + one path
per distinct state), Trace_Timelock (TLC judges real timelock instructions).
Binding: gmsol_timelock::entry for create/approve/cancel/execute/increase_delay; the access-control CPI runs the real
store program (check_role) on the same Store account; the buffered instruction is recorded at the CPI boundary."""
import vlib


def classify(e, mon):
    return {"monitor": mon, "op": e["op"], "ok": e["ok"], "state": e["pre"]["buf"][e["b"] - 1]["st"] if e["b"] else "",
            "delay": e["pre"]["delay"]}


def run(ctx):
    ctx.build("h-aux", "c36")
    q = ctx.quick
    # 1. design: 2 buffers, 2 approvers, delay in {1,2}, depth 8: monitors on every transition
    ctx.model_check("MC_Timelock", workers=8, timeout=1800, expect_actions=["Next"])
    # 2. one shortest path per distinct state (depth 6 quick / 7), replayed on the real program; in every reached
    #    state every buffer operation of the model is tried as well (the rejections are the point of the property)
    cfg = "MC_Timelock_paths_q" if q else "MC_Timelock_paths"
    r = ctx.model_check("MC_Timelock", cfg=cfg, workers=8, timeout=1800, count=False)
    paths = r.tagged("T")
    if len(paths) < r.distinct - 2:
        raise vlib.ToolError("%s printed %d paths for %d states" % (cfg, len(paths), r.distinct))
    stats = {"executed": 0, "execute_too_early": 0, "execute_approver_revoked": 0, "execute_unapproved": 0,
             "approve_twice": 0, "approve_without_role": 0, "rerun_closed": 0, "create_bad_signer": 0,
             "delay_increased": 0, "recreated": 0, "executed_readonly_signer": 0, "executed_wallet_listed_twice": 0,
             "executed_no_accounts": 0, "executed_empty_data": 0, "executed_nonsigner_wallet": 0,
             "increase_from_above_30_days": 0, "increase_overflow_rejected": 0, "executed_after_long_delay": 0}
    seen = set()
    total = 0
    # the model's shape classes (1: the wallet signs, 2: nobody signs, 3: a foreign signer) are executed as four
    # variants of concrete account lists: all (signer, writable) combinations on the wallet, the wallet listed several
    # times with different flags, no accounts, empty data.  Variant 0 with the per-state probes.
    runs = [("replay", ["replay", "--in", ctx.path("paths.ndjson"), "--probe", 1])]
    runs += [("replay-v%d" % v, ["replay", "--in", ctx.path("paths.ndjson"), "--variant", v] + ([] if q else ["--probe", 1]))
             for v in (1, 2, 3)]
    runs += [("random", ["random", "--seed", ctx.seed, "--n", 150 if q else 2000, "--len", 40]),
             # large delays (30 / 90 days .. u32::MAX), increments 0 / 1 / one day / overflowing u32
             ("delays", ["delays"])]
    vlib.write_ndjson(ctx.path("paths.ndjson"), paths)
    for name, args in runs:
        tr = ctx.path(name + ".trace.ndjson")
        ctx.run_bin("c36", args + ["--out", tr])
        fails, drifts, _ = ctx.validate_trace("Trace_Timelock", tr, timeout=2400)
        ev = vlib.read_ndjson(tr)
        total += len(ev)
        for e in ev:
            pre = e["pre"]
            b = pre["buf"][e["b"] - 1] if e["b"] else None
            if e["op"] == "increase_delay_big":
                stats["increase_from_above_30_days"] += e["ok"]
                stats["increase_overflow_rejected"] += (not e["ok"]) and not e["fits"] and e["xs"] != "0"
                seen.add((e["op"], e["xs"], pre["delay"]))
                continue
            if e["op"] == "execute":
                if e["ok"]:
                    stats["executed"] += 1
                    stats["executed_after_long_delay"] += pre["delay"] > 30 * 86400
                    ms = e["buffered"]["metas"]
                    stats["executed_readonly_signer"] += any(m["signer"] and not m["writable"] for m in ms)
                    stats["executed_wallet_listed_twice"] += sum(m["key"] == "W" for m in ms) > 1
                    stats["executed_no_accounts"] += len(ms) == 0
                    stats["executed_empty_data"] += len(e["buffered"]["data"]) == 0
                    stats["executed_nonsigner_wallet"] += any(m["key"] == "W" and not m["signer"] for m in ms)
                elif b["st"] == "approved":
                    if b["approver"] not in pre["holds"]:
                        stats["execute_approver_revoked"] += 1
                    elif pre["now"] < b["at"] + pre["delay"]:
                        stats["execute_too_early"] += 1
                elif b["st"] == "created":
                    stats["execute_unapproved"] += 1
                else:
                    stats["rerun_closed"] += b["st"] in ("executed", "cancelled")
            elif e["op"] == "approve" and not e["ok"]:
                stats["approve_twice"] += b["st"] == "approved"
                stats["approve_without_role"] += b["st"] == "created" and e["x"] not in pre["holds"]
            elif e["op"] == "create":
                stats["create_bad_signer"] += (not e["ok"]) and e["x"] % 10 == 3
                stats["recreated"] += e["ok"] and b["st"] in ("executed", "cancelled")
            elif e["op"] == "increase_delay":
                stats["delay_increased"] += e["ok"]
                stats["increase_from_above_30_days"] += e["ok"] and pre["delay"] > 30 * 86400
            seen.add((e["op"], e["b"], e["x"], vlib.json.dumps(pre, sort_keys=True)))
        ctx.cov["samples"] += [ev[len(ev) // 2], ev[-1]]
        for f in fails:
            e = ev[f["i"] - 1]
            ctx.report(classify(e, f["mon"]), {"driver": "h-aux c36 " + " ".join(map(str, args)), "event": e})
    ctx.distinct += len(seen)
    for k, v in stats.items():
        if v == 0 and not ctx.violations:
            raise vlib.ToolError("vacuity: no event of class %s" % k)
    # 3. the same property on the in-process program runtime (real timelock + store entrypoints, CPI privilege rules)
    try:
        from props import c36rt
    except ImportError:
        c36rt = None
    if c36rt is not None:
        c36rt.run_rt(ctx)
    ctx.assumptions += [
        "one executor role; the keeper and the admin always hold TIMELOCK_KEEPER / TIMELOCK_ADMIN (the role gates are C19's)",
        "system create_account is emulated, the buffered instruction's callee is a recording probe; a failed instruction is "
        "rolled back by the harness as the runtime would",
        "role changes are Store::grant / Store::revoke applied to the Store account (not the store instructions)",
        "the abstract state of a closed buffer (executed vs cancelled) and the buffered instruction's shape are remembered "
        "by the driver; everything else is read from account data through the programs' public getters"]
    ctx.cov["trusted_base"] += ["TLC", "h-aux rt (syscall stubs, CPI dispatch, account buffers)", "h-aux c36 driver"]
    return ctx.finish("model_checking",
                      "every distinct state of the bounded model (2 buffers, 2 approvers, delay 1..2, %d operations) reached on "
                      "the real program by its shortest path, then every create/approve/cancel/execute tried in that state; plus "
                      "random runs; distinct = distinct (operation, pre-state)" % (6 if q else 7),
                      extra={"classes": stats, "calls": total}, exhaustive=False)
