"""C35 Stored names read back exactly as they were accepted.
Spec: FixedStr.tla (code transcription + design 'accept iff readable'), FixedStrProps.tla (monitors),
MC_FixedStr (all names over {a, NUL, 2-byte char} up to 4 chars vs a 3-byte field; prints them for
replay), Trace_FixedStr (TLC trace validation).  Drivers: h-model c35 (gmsol-utils helpers at 3/32/64,
token config name), h-programs c35p (store key, role metadata, RoleStore, market name, timelock executor)."""
import vlib


def name_class(e):
    nm, n = e["name"], e["n"]
    if len(nm) > n:
        return "too_long"
    if 0 in nm:
        return "contains_nul"
    if len(nm) == n:
        return "exactly_fills_field"
    return "fits"


def classify(e, mon):
    return {"monitor": mon, "tgt": e["tgt"], "n": e["n"], "class": name_class(e), "stage": e["stage"],
            "name_bytes": e["name"]}


def run(ctx):
    ctx.build("h-model", "c35")
    ctx.build("h-programs", "c35p")
    r = ctx.model_check("MC_FixedStr", workers=2)
    names = [{"name": [], "cls": "fits"}] + r.tagged("N")
    if len(names) < 100:
        raise vlib.ToolError("MC_FixedStr printed only %d names" % len(names))
    np_ = ctx.path("names.ndjson")
    vlib.write_ndjson(np_, names)
    n_rand = 300 if ctx.quick else 5000
    runs = []
    for bin_, tag in (("c35", "utils"), ("c35p", "programs")):
        a = ctx.path("%s-replay.ndjson" % tag)
        ctx.run_bin(bin_, ["replay", "--in", np_, "--out", a])
        b = ctx.path("%s-random.ndjson" % tag)
        ctx.run_bin(bin_, ["random", "--seed", ctx.seed, "--n", n_rand, "--out", b])
        runs += [(a, "%s replay (names of MC_FixedStr)" % bin_), (b, "%s random --seed %s" % (bin_, ctx.seed))]
    seen = set()
    for path, drv in runs:
        fails, drifts, _ = ctx.validate_trace("Trace_FixedStr", path)
        ev = vlib.read_ndjson(path)
        if not any(e["accepted"] for e in ev) or all(e["accepted"] for e in ev):
            raise vlib.ToolError("vacuity: %s has no accepted or no rejected name" % path)
        for e in ev:
            seen.add((e["tgt"], bytes(e["name"])))
        ctx.cov["samples"] += [ev[len(ev) // 3], ev[-1]]
        for f in fails:
            e = ev[f["i"] - 1]
            ctx.report(classify(e, f["mon"]), {"driver": drv, "event": e,
                                               "name_utf8_escaped": bytes(e["name"]).decode("utf-8").encode("unicode_escape").decode()})
    ctx.distinct += len(seen)
    ctx.assumptions += ["timelock Executor::try_init is pub(crate): the driver calls the same fixed_str_to_bytes::<32> and "
                        "writes the role_name bytes at their offset (layout asserted), then reads with role_name()",
                        "the store's TokenConfigExt::update is pub(crate): the token-config name is written with the same "
                        "helper and read with TokenConfig::name()",
                        "names are replayed on the state structs (Store::init, RoleStore, Market::init), not through instructions"]
    ctx.cov["trusted_base"] += ["TLC", "harness h-model c35 / h-programs c35p drivers"]
    return ctx.finish("model_checking",
                      "all 121 names over {a, NUL, U+00E9} of 0..4 chars at field size 3, re-based (as is / padded in front / "
                      "padded after the first char) to 32 and 64 bytes, on 9 creation paths; plus seeded random names with "
                      "1-4 byte chars around each capacity; distinct = distinct (path, name)",
                      exhaustive=False)
