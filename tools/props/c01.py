"""C01 Fixed-point arithmetic is exact with the documented rounding.
Spec: Num.tla (operators), NumProps.tla (monitors), MC_Num (laws), Trace_Num (TLC trace validation),
Wide_Num (Apalache, full width)."""
import vlib

SCHEMA = {"op": "Str", "w": "Int", "a": "Int", "b": "Int", "c": "Int", "d": "Int",
          "ok": "Bool", "v": "Int", "panic": "Bool"}


def classify(e, mon):
    return {"monitor": mon, "op": e["op"], "w": e["w"], "a": e["a"], "b": e["b"], "c": e["c"], "d": e["d"]}


def run(ctx):
    ctx.build("h-model", "c01")
    # 1. the specification itself means "mathematically rounded": exhaustive laws on the small world
    ctx.model_check("MC_Num", workers=8)
    # 2. every small tuple through the real u64 and u128 code, judged by TLC against the same operators
    rng, rng4 = (12, 6) if ctx.quick else (24, 10)
    tr = ctx.path("small.ndjson")
    ctx.run_bin("c01", ["small", "--range", rng, "--range4", rng4, "--out", tr])
    fails, drifts, _ = ctx.validate_trace("Trace_Num", tr)
    ev = vlib.read_ndjson(tr)
    ctx.distinct += len({(e["op"], e["a"], e["b"], e["c"], e["d"]) for e in ev})
    ctx.cov["samples"] += [ev[len(ev) // 3], ev[-1]]
    for f in fails:
        e = ev[f["i"] - 1]
        ctx.report(classify(e, f["mon"]), {"driver": "h-model c01 small", "event": e})
    # 3. wide tier: boundary-biased operands at the real widths, Apalache
    n = 150 if ctx.quick else 1500
    wide_total = 0
    for bits, cinit in ((64, "CInit64"), (128, "CInit128")):
        wp = ctx.path("wide%d.ndjson" % bits)
        ctx.run_bin("c01", ["wide", "--bits", bits, "--n", n, "--seed", ctx.seed, "--out", wp])
        wev = vlib.read_ndjson(wp)
        res = vlib.apalache_events(ctx, "Wide_Num", ["Num", "NumProps"], wev, SCHEMA, cinit,
                                   {"exact": ["MonNoPanic", "MonExact"], "conf": ["Conforms"]})
        wide_total += len(wev)
        ctx.evaluations += len(wev)
        ctx.distinct += len({(e["op"], e["a"], e["b"], e["c"], e["d"]) for e in wev})
        ctx.cov["samples"].append(wev[0])
        for i in res["exact"]:
            e = wev[i - 1]
            ctx.report(classify(e, "Exact"), {"driver": "h-model c01 wide --bits %d" % bits, "event": e})
        if res["conf"]:
            ctx.drift += len(res["conf"])
            ctx.drift_first = ctx.drift_first or wev[res["conf"][0] - 1]
    ctx.assumptions += ["fractional exponents (rust_decimal path of checked_pow_fixed) are outside the property",
                        "full-width operands are a boundary-biased sample, the small domain is exhaustive"]
    ctx.cov["trusted_base"] += ["TLC", "Apalache/Z3", "harness h-model c01 driver"]
    return ctx.finish("model_checking",
                      "every operand tuple in 0..%d (4-ary 0..%d, signed +-) for 21 helpers at u64 and u128 "
                      "plus %d boundary-biased full-width calls; distinct = distinct (op, operands)" % (rng, rng4, wide_total),
                      extra={"wide_events": wide_total}, exhaustive=False)
