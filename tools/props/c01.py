"""C01 Fixed-point arithmetic is exact with the documented rounding.
Spec: Num.tla (operators), NumProps.tla (monitors), MC_Num (laws), Trace_Num (TLC trace validation),
Wide_Num (Apalache, full width)."""
import vlib

SCHEMA = {"op": "Str", "w": "Int", "a": "Int", "b": "Int", "c": "Int", "d": "Int",
          "ok": "Bool", "v": "Int", "panic": "Bool"}


CINIT64 = "Unit = 1000000000 /\\ MaxU = 18446744073709551615 /\\ MaxS = 9223372036854775807"
CINIT128 = ("Unit = 100000000000000000000 /\\ MaxU = 340282366920938463463374607431768211455 "
            "/\\ MaxS = 170141183460469231731687303715884105727")


def classify(e, mon):
    return {"monitor": mon, "op": e["op"], "w": e["w"], "a": e["a"], "b": e["b"], "c": e["c"], "d": e["d"]}


def run(ctx):
    ctx.build("h-model", "c01")
    # 1. the specification itself means "mathematically rounded": exhaustive laws on the small world
    ctx.model_check("MC_Num", workers=8)
    # 2. every small tuple through the real u64 and u128 code, judged by TLC against the same operators
    rng, rng4 = (12, 6) if ctx.quick else (24, 10)
    tr = ctx.path("small.ndjson")
    ctx.run_bin("c01", ["small", "--range", rng, "--range4", rng4, "--out", tr])
    fails, drifts, _ = ctx.validate_trace("Trace_Num", tr)
    ev = vlib.read_ndjson(tr)
    ctx.distinct += len({(e["op"], e["a"], e["b"], e["c"], e["d"]) for e in ev})
    ctx.cov["samples"] += [ev[len(ev) // 3], ev[-1]]
    for f in fails:
        e = ev[f["i"] - 1]
        ctx.report(classify(e, f["mon"]), {"driver": "h-model c01 small", "event": e})
    # 3. wide tier: boundary-biased operands at the real widths; Apalache evaluates the SAME operators
    #    with MaxU = 2^64-1 / 2^128-1 (one run per helper and width, in parallel)
    per_op = 30 if ctx.quick else 200
    if ctx.violations:
        per_op = 0      # a violation is already established on the small domain: skip the slow wide tier
    quick_ops = ["mul_div", "mul_div_ceil", "mul_div_signed", "round_up_div", "round_up_mag_div",
                 "bound_magnitude", "mul_signed", "add_signed", "usd_to_mt", "apply_factors"]
    wide_total = 0
    for bits, cinit in (((64, CINIT64), (128, CINIT128)) if per_op else ()):
        wp = ctx.path("wide%d.ndjson" % bits)
        ctx.run_bin("c01", ["wide", "--bits", bits, "--n", per_op * 21, "--seed", ctx.seed, "--out", wp])
        wev = vlib.read_ndjson(wp)
        ops = sorted({e["op"] for e in wev})
        if ctx.quick:
            ops = [o for o in ops if o in quick_ops]
        jobs = []
        for op in ops:
            g = [e for e in wev if e["op"] == op]
            jobs.append(("%s-%d" % (op, bits), g, "MonNoPanic(e) /\\ ExactWith(e, Math_%s(e))" % op))
        res = vlib.apalache_groups(ctx, "NumProps", ["Num", "NumProps"], SCHEMA, cinit, jobs,
                                   parallel=6 if ctx.quick else 8)
        for label, g, _ in jobs:
            wide_total += len(g)
            ctx.evaluations += len(g)
            ctx.distinct += len({(e["op"], e["a"], e["b"], e["c"], e["d"]) for e in g})
            for k in res.get(label, []):
                e = g[k]
                ctx.report(classify(e, "Exact" if not e["panic"] else "NoPanic"),
                           {"driver": "c01 wide --bits %d --seed %d" % (bits, ctx.seed), "event": e})
        ctx.cov["samples"].append(wev[0])
    ctx.assumptions += ["fractional exponents (rust_decimal path of checked_pow_fixed) are outside the property",
                        "full-width operands are a boundary-biased sample, the small domain is exhaustive"]
    ctx.cov["trusted_base"] += ["TLC", "Apalache/Z3", "harness h-model c01 driver"]
    return ctx.finish("model_checking",
                      "every operand tuple in 0..%d (4-ary 0..%d, signed +-) for 21 helpers at u64 and u128 "
                      "plus %d boundary-biased full-width calls; distinct = distinct (op, operands)" % (rng, rng4, wide_total),
                      extra={"wide_events": wide_total}, exhaustive=False)
