"""Shared by C04 / C05 / C06 (market stage M1: swap, deposit, withdrawal).
Spec: Market.tla (precise actions), MarketProps.tla (monitors), MC_Market (bounded models),
Trace_Market (trace validation); driver: harness/h-model/src/bin/c04.rs."""
import json, os
from concurrent.futures import ThreadPoolExecutor
import vlib

CHUNK = 20000          # events per trace-validation process
PAR = 4                # trace validations in parallel (1 TLC worker each)


def _tlc(ctx, cfg, timeout, simulate=None):
    """TLC on MC_Market without -coverage: coverage mode switches off TLC's caching of LET
    definitions, which makes the deeply nested precise actions exponentially slow (TLC runs out of
    memory).  Vacuity of the actions is checked on the printed transitions instead."""
    r = vlib.tlc(ctx.spec("MC_Market.tla"), ctx.spec(cfg + ".cfg"), workers=8, timeout=timeout,
                 simulate=simulate, coverage=False)
    if simulate:
        vlib.log("  tlc %s (simulation, %s traces per worker): %.1fs%s" % (
            cfg, simulate, r.wall, " [%s]" % (r.violated or r.error) if (r.violated or r.error) else ""))
    else:
        vlib.log("  tlc %s: %d generated, %d distinct, depth %d, %.1fs%s" % (
            cfg, r.generated, r.distinct, r.depth, r.wall, "" if r.ok else " [NOT OK: %s]" % (r.violated or r.error)))
    if r.violated:
        raise vlib.ToolError("specification MC_Market (%s) violates its own invariant %s: a monitor does not hold "
                             "on the design (calibration)\n%s" % (cfg, r.violated, _tail(r.raw)))
    return r


def _tail(raw):
    return "\n".join(l for l in raw.splitlines() if not l.startswith('"T|') and not l.startswith('"CFGS|'))[-3000:]


def explore(ctx, cfg, ops, timeout=900):
    """Exhaustive TLC run of one bounded model; returns (transitions for `ops`, configurations).
    An invariant violation here means a monitor does not hold on the *design* (tool error)."""
    r = _tlc(ctx, cfg, timeout)
    if not r.ok:
        raise vlib.ToolError("TLC failed on MC_Market (%s): %s\n%s" % (cfg, r.error, _tail(r.raw)))
    ctx.states += r.distinct
    ctx.transitions += r.generated
    cfgs = r.tagged("CFGS")
    if not cfgs:
        raise vlib.ToolError("MC_Market did not print its configurations")
    seen, rows = set(), []
    for t in r.tagged("T"):
        if not isinstance(t, dict) or t.get("op") not in ops:
            continue
        k = json.dumps(t, sort_keys=True)
        if k not in seen:
            seen.add(k)
            rows.append(t)
    for op in ops:
        if not any(t["op"] == op for t in rows):
            raise vlib.ToolError("vacuity: operation %s of MC_Market (%s) was never explored" % (op, cfg))
    return rows, cfgs[0]


def simulate(ctx, cfg, num, timeout=1200):
    """Random behaviours of a larger model (deeper budgets, prices change at every step): the
    monitors are checked on the design only (nothing printed, nothing replayed)."""
    r = _tlc(ctx, cfg, timeout, simulate="num=%d" % num)
    if r.error:
        raise vlib.ToolError("TLC simulation failed on MC_Market (%s): %s\n%s" % (cfg, r.error, _tail(r.raw)))
    return r


def batches(rows, n=60000):
    """replay / validate in batches so that a large model never has to be held in memory at once"""
    return [rows[k:k + n] for k in range(0, len(rows), n)] or [[]]


def replay(ctx, rows, cfgs, name, dec=1):
    """Spec -> implementation: inject each `from` state into the real market, apply the operation
    with the real code, record the events."""
    tin, cj, out = ctx.path(name + "-transitions.ndjson"), ctx.path(name + "-cfgs.json"), ctx.path(name + "-trace.ndjson")
    vlib.write_ndjson(tin, rows)
    json.dump(cfgs, open(cj, "w"))
    ctx.run_bin("c04", ["replay", "--in", tin, "--cfgs", cj, "--dec", dec, "--out", out])
    return out


def replay_case(ctx, mon, classify):
    """./check Cxx --replay FILE: re-execute the recorded failing operation (its pre-state is
    injected; a round trip is regenerated from its deposit) on the current tree and judge it."""
    rec = json.load(open(ctx.replay_file))
    evs = rec["replay"]["events"]
    e = evs[-1]
    if e.get("rt") and len(evs) > 1:
        e = evs[-2]
    dec = 2 if "--dec 2" in rec["replay"].get("driver", "") else 1
    row = {"from": e["pre"], "ci": 1, "pr": e["pr"], "op": e["op"], "side": e["side"], "a": e["a"], "b": e["b"]}
    tr = replay(ctx, [row], [e["c"]], "replay-case", dec=dec)
    ev, fails = validate(ctx, tr, mon, cfg="Trace_Market_d2" if dec == 2 else "Trace_Market")
    for i, m in fails:
        ctx.report(classify(ev, i, m), {"driver": "h-model c04 replay (recorded case)" + (" --dec 2" if dec == 2 else ""),
                                        "events": ev[:i + 1]})
    ctx.distinct += 2
    ctx.cov["samples"] += ev[:2]
    return ctx.finish("exploration", "re-execution of one recorded case", exhaustive=False)


def random_trace(ctx, name, n, dec=1, seed_off=0):
    out = ctx.path(name + ".ndjson")
    ctx.run_bin("c04", ["random", "--seed", int(ctx.seed) + seed_off, "--n", n, "--dec", dec, "--out", out])
    return out


def validate(ctx, trace, mon, cfg="Trace_Market"):
    """Implementation -> spec: TLC walks the recorded trace (in chunks, a few processes in parallel),
    returns (events, fails) with fails = [(event index (0-based), monitor name)]; drift is counted."""
    ev = vlib.read_ndjson(trace)
    if not ev:
        raise vlib.ToolError("empty trace " + trace)
    ctx.m1_last_trace = trace
    # a round-trip event is judged together with its predecessor: never split between them
    nparts = max(1, min(PAR, len(ev) // 4000)) if len(ev) <= PAR * CHUNK else -(-len(ev) // CHUNK)
    size = -(-len(ev) // nparts)
    bounds, start = [], 0
    while start < len(ev):
        end = min(len(ev), start + size)
        while end < len(ev) and ev[end].get("rt"):
            end += 1
        bounds.append((start, end))
        start = end
    base = os.path.splitext(trace)[0]
    parts = []
    if len(bounds) == 1:
        parts = [trace]
    else:
        for k, (a, b) in enumerate(bounds):
            p = "%s.part%d.ndjson" % (base, k)
            vlib.write_ndjson(p, ev[a:b])
            parts.append(p)
    def one(p):
        # ctx bookkeeping is not thread safe: only the TLC process itself runs in the pool
        mp, cp = ctx.spec("Trace_Market.tla"), ctx.spec(cfg + ".cfg")
        # own metadir per process (vlib's default name is per millisecond, not unique across threads)
        meta = os.path.join(ctx.wd, "meta-" + os.path.basename(p))
        return vlib.tlc(mp, cp, workers=1, timeout=1800, env={"TRACE": p, "MON": mon}, heap="4g", metadir=meta)

    with ThreadPoolExecutor(max_workers=PAR) as ex:
        results = list(ex.map(one, parts))
    fails = []
    for (a, b), p, r in zip(bounds, parts, results):
        done = r.tagged("DONE")
        if r.violated or not r.ok or not done:
            raise vlib.ToolError("trace validation did not complete on %s: %s\n%s"
                                 % (p, r.violated or r.error, r.raw[-3000:]))
        if done[-1].get("events") != b - a:
            raise vlib.ToolError("trace validation consumed %s of %d events of %s" % (done[-1].get("events"), b - a, p))
        f, d = r.tagged("MONFAIL"), r.tagged("DRIFT")
        vlib.log("  trace Trace_Market[%s] on %s: %d events, %d monitor failures, %d drift, %.1fs"
                 % (mon, os.path.basename(p), b - a, len(f), len(d), r.wall))
        ctx.traces += 1
        ctx.evaluations += b - a
        if d:
            ctx.drift += len(d)
            if ctx.drift_first is None:
                x = dict(d[0])
                x["event"] = ev[a + x["i"] - 1]
                ctx.drift_first = x
        fails += [(a + x["i"] - 1, x["mon"]) for x in f]
        ctx.m1_drift_idx = getattr(ctx, "m1_drift_idx", {})
        ctx.m1_drift_idx.setdefault(trace, set()).update(a + x["i"] - 1 for x in d)
        if p != trace:
            os.remove(p)
    return ev, fails


# ---- classification / coverage of recorded events ------------------------------------------------
def side(e, is_long):
    return "long" if is_long else "short"


def imp_lost(e, s):
    return max(0, e["pre"]["imp"][s] - e["post"]["imp"][s])


def swap_class(e):
    if e["op"] != "swap":
        return e["op"]
    if e.get("panic"):
        return "panic"
    if not e["ok"]:
        return "failed"
    i, o = side(e, e["side"]), side(e, not e["side"])
    if imp_lost(e, i) > 0:
        return "capped_positive"          # the input-token impact pool paid part of the impact
    if imp_lost(e, o) > 0:
        return "positive"
    if e["post"]["imp"][i] > e["pre"]["imp"][i]:
        return "negative"
    return "no_impact"


def round_trip_class(d):
    """why a round trip may legitimately return more than was deposited (see known_findings)"""
    if imp_lost(d, "long") > 0 or imp_lost(d, "short") > 0:
        return "positive_impact"
    if d["pre"]["supply"] == 0 and d["pre"]["liq"]["long"] + d["pre"]["liq"]["short"] > 0:
        return "orphan_value"             # value without owners: supply 0 but liquidity left in the pool
    return "other"


def zero_cfg(c):
    return c["feePos"] == 0 and c["feeNeg"] == 0 and c["impPos"] == 0 and c["impNeg"] == 0


def key(e):
    return json.dumps([e["op"], e["side"], e["a"], e["b"], e["pr"], e["c"], e["pre"]], sort_keys=True)


def need(counts, names, what):
    """vacuity: every listed class must have been exercised in the validated traces"""
    missing = [n for n in names if counts.get(n, 0) == 0]
    if missing:
        raise vlib.ToolError("vacuous %s: no validated event of class %s (counts %s)" % (what, missing, counts))
