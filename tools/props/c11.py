"""C11 Position profit and loss moves with the price in the right direction.
Spec: Position.tla (PnlValue, TotalPnl, SizeDeltaInTokens, CapPnl), PositionProps.tla (MonMonotone, MonCapped,
MonPartial), MC_PositionC11 (bounded design check, prints the domain), Trace_PositionC11 (TLC trace validation
of the real PositionExt::pnl_value)."""
import collections
import vlib
from props import poslib


def classify(e, mon, cls=None):
    d = {"monitor": mon, "long": e["p"]["long"], "class": "n/a"}
    if mon == "Monotone":
        # established by MC_PositionC11: the credited pnl is monotone whenever the MaxForTrader cap is inactive
        d["class"] = "trader_cap_active" if (cls or {}).get("cap_active") else "trader_cap_inactive"
        d["uncapped_monotone"] = (cls or {}).get("unc_monotone")
    return d


def case_of(e):
    return {k: e[k] for k in ("p", "m", "px1", "px2", "d")}


def judge(ctx, name, tr, decimals, acc):
    fails, drifts, r = ctx.validate_trace("Trace_PositionC11", tr, cfg=poslib.trace_cfg("Trace_PositionC11", decimals))
    ev = vlib.read_ndjson(tr)
    cls = {x["i"]: x for x in r.tagged("CLS")}
    nontrivial = [e for e in ev if e["f1"]["ok"] and e["f2"]["ok"] and (e["px1"] != e["px2"] or e["d"] != e["p"]["size"])]
    acc["evaluated"] += len(nontrivial)
    acc["capped"] += sum(1 for e in ev if e["f1"]["ok"] and e["f1"]["pnl"] != e["f1"]["unc"] or e["f2"]["ok"] and e["f2"]["pnl"] != e["f2"]["unc"])
    acc["profit"] += sum(1 for e in ev if e["f2"]["ok"] and e["f2"]["unc"] > 0)
    ctx.distinct += len({vlib.json.dumps(case_of(e), sort_keys=True) for e in nontrivial})
    if ev:
        ctx.cov["samples"] += [{k: ev[len(ev) // 2][k] for k in ("p", "px1", "px2", "d", "f1", "f2", "q1", "q2")}]
    for f in fails:
        e = ev[f["i"] - 1]
        ctx.report(dict(classify(e, f["mon"], cls.get(f["i"])), conforms=f.get("conforms", True)),
                   {"driver": "h-model c11 replay", "decimals": decimals, "cases": [case_of(e)], "source": name, "event": e})
    return ev


def run(ctx):
    ctx.build("h-model", "c11")
    acc = collections.Counter()
    rp = poslib.load_replay(ctx)
    if rp and rp.get("cases"):
        cp = ctx.path("replay-cases.ndjson")
        vlib.write_ndjson(cp, rp["cases"])
        tr = ctx.path("replay.ndjson")
        ctx.run_bin("c11", ["replay", "--in", cp, "--decimals", rp.get("decimals", 1), "--out", tr])
        judge(ctx, "replay-file", tr, rp.get("decimals", 1), acc)
        ctx.distinct = max(ctx.distinct, 2)
        return ctx.finish("exploration", "re-run of the recorded failing case(s) only", exhaustive=False)

    cfg = "MC_PositionC11" if ctx.quick else "MC_PositionC11_thorough"
    r = poslib.model_check(ctx, "MC_PositionC11", cfg)
    cases = poslib.cases_from(r, ctx.path("cases.ndjson"))
    witnesses = r.tagged("W")
    vlib.log("  bounded model: %d cases; credited pnl non-monotone in the index price in %d of them, all with the "
             "MaxForTrader cap active (uncapped pnl monotone everywhere)" % (len(cases), len(witnesses)))
    tr = ctx.path("replay.ndjson")
    ctx.run_bin("c11", ["replay", "--in", ctx.path("cases.ndjson"), "--out", tr])
    ev = judge(ctx, "MC_PositionC11 domain", tr, 1, acc)
    if len(ev) != len(cases):
        raise vlib.ToolError("replay produced %d events for %d cases" % (len(ev), len(cases)))
    if not ctx.quick:
        tr = ctx.path("small.ndjson")
        ctx.run_bin("c11", ["small", "--out", tr])
        poslib.stage(ctx, judge, ctx, "small", tr, 1, acc)
    n = 4000 if ctx.quick else 60000
    tr = ctx.path("random.ndjson")
    ctx.run_bin("c11", ["random", "--seed", ctx.seed, "--n", n, "--decimals", 2, "--out", tr])
    poslib.stage(ctx, judge, ctx, "random", tr, 2, acc)

    if (acc["capped"] == 0 or acc["profit"] == 0) and not ctx.violations:
        raise vlib.ToolError("vacuity: no capped / no profitable pnl evaluation in the validated traces")
    ctx.assumptions += [
        "index price pairs px1 <= px2 componentwise (min and max); the long token price is either fixed or equal to "
        "the index price; everything else (position, pools, open interest, caps) is the same at both prices",
        "established on the bounded model: the uncapped pnl is monotone everywhere and the credited pnl is monotone "
        "whenever the MaxForTrader cap is inactive; with the cap active the credited pnl can move against the price "
        "(the position's share of the capped pool pnl shrinks, or the cap switches off when the pool pnl turns "
        "non-positive); real-code occurrences are reported as a known finding (class trader_cap_active), not excluded",
        "partial close: closed tokens within one token of tok*d/size (either rounding direction accepted), pnl within "
        "one unit of full*dtok/tok",
        "small world: u64, Unit = 10 (bounded domain) and Unit = 100 (random); values < 2^31",
    ]
    ctx.cov["trusted_base"] += ["TLC", "harness h-model c11 driver + vmarket (state injection)"]
    return ctx.finish("model_checking",
                      "bounded domain of MC_PositionC11 (side x position sizes x other open interest x pool amounts x "
                      "trader caps x 21 index price pairs over 6 levels x long-token price mode x partial sizes) replayed "
                      "into the real pnl_value, plus random cases; distinct = distinct (position, market, price pair, "
                      "partial size) with both evaluations defined and px1 != px2 or a partial size",
                      extra={"model_cases": len(cases), "model_nonmonotone_with_cap_active": len(witnesses),
                             "evaluations_with_cap_effect": acc["capped"]},
                      exhaustive=False)
