"""C32 Builder fees are bounded by what the order actually produced.
Spec: BuilderFee.tla (the four private helpers of ops/order.rs, Order::record_builder_fee, the decrease-side charge,
SettleBuilderFee), BuilderFeeProps.tla (monitors), MC_BuilderFee (laws + settlement state machine),
Trace_BuilderFee (TLC, whole-percent factors), Wide_BuilderFee (Apalache, full width)."""
import vlib
from props import c24

SCHEMA = {"op": "Str", "size": "Int", "f": "Int", "pmin": "Int", "x": "Int", "pre": "Int", "ok": "Bool",
          "r1": "Int", "r2": "Int", "post": "Int", "panic": "Bool"}


def classify(e, mon):
    return {"monitor": mon, "op": e["op"], "ok": e["ok"], "f_zero": str(e["f"]) == "0"}


def run(ctx):
    ctx.build("h-programs", "c32")
    q = ctx.quick
    # 1. design: helper laws on the small domain; settlement state machine (spec level only)
    c24.mc(ctx, "MC_BuilderFee", "MC_BuilderFee_laws_quick" if q else "MC_BuilderFee_laws", timeout=1500)
    c24.mc(ctx, "MC_BuilderFee", "MC_BuilderFee_settle", timeout=900)
    # 2. the real helpers through hooks: small exhaustive + random, judged by TLC
    allev = []
    for name, args in (("small", ["small"]), ("random", ["random", "--seed", ctx.seed, "--n", 6000 if q else 80000])):
        tr = ctx.path(name + ".ndjson")
        ctx.run_bin("c32", args + ["--out", tr])
        fails, drifts, _ = ctx.validate_trace("Trace_BuilderFee", tr)
        ev = vlib.read_ndjson(tr)
        for f in fails:
            e = ev[f["i"] - 1]
            ctx.report(classify(e, f["mon"]), {"driver": "h-programs c32 " + name, "event": e})
        allev += ev
        ctx.cov["samples"] += [ev[len(ev) // 2], ev[-1]]
    cls = {"fee_rounded_up": sum(1 for e in allev if e["op"] == "compute" and e["ok"] and e["f"] and e["pmin"] and
                                 (e["size"] * e["f"] // 100) % e["pmin"] != 0),
           "charge_ok": sum(1 for e in allev if e["op"] == "charge" and e["ok"] and e["r2"] > 0),
           "charge_exact": sum(1 for e in allev if e["op"] == "charge" and e["ok"] and e["r2"] > 0 and e["r1"] == 0),
           "charge_underpaid": sum(1 for e in allev if e["op"] == "charge" and e["err"] == "BuilderFeeExceedsCollateral"),
           "decrease_clamped": sum(1 for e in allev if e["op"] == "decrease" and e["ok"] and e["r2"] < e["r1"]),
           "decrease_full": sum(1 for e in allev if e["op"] == "decrease" and e["ok"] and e["r2"] == e["r1"] > 0),
           "estimate_rejected_swap": sum(1 for e in allev if e["op"] == "estimate" and e["err"] == "BuilderFeeSwapTypeNotAllowed"),
           "zero_price": sum(1 for e in allev if e["op"] == "compute" and not e["ok"])}
    for k, v in cls.items():
        if v == 0:
            if not ctx.violations:
                raise vlib.ToolError("vacuity: no event of class " + k)
    ctx.cov["classes"] = cls
    ctx.distinct += len({(e["op"], e["size"], e["f"], e["pmin"], e["x"], e["pre"], e["swap"]) for e in allev})
    # 3. wide tier
    wp = ctx.path("wide.ndjson")
    ctx.run_bin("c32", ["wide", "--seed", ctx.seed, "--n", 150 if q else 500, "--out", wp])
    wev = vlib.read_ndjson(wp)
    res = vlib.apalache_events(ctx, "Wide_BuilderFee", ["BuilderFee", "Num"], wev, SCHEMA, "CInit128",
                               {"bad": ["EvOK"], "drift": ["EvConf"]}, chunk=250)
    ctx.evaluations += len(wev)
    ctx.distinct += len({(e["op"], e["size"], e["f"], e["pmin"], e["x"], e["pre"]) for e in wev})
    ctx.cov["samples"].append(wev[0])
    ctx.cov["wide_ok"] = sum(1 for e in wev if e["ok"])
    for i in res["bad"]:
        ctx.report(classify(wev[i - 1], "WideLaws"), {"driver": "h-programs c32 wide", "event": wev[i - 1]})
    if res["drift"]:
        ctx.drift += len(res["drift"])
        ctx.drift_first = ctx.drift_first or wev[res["drift"][0] - 1]
    ctx.assumptions += ["fee factors are whole percents in the TLC tier (factor = k * 10^18, apply_factor exact); full-width "
                        "operands are a boundary-biased sample judged by Apalache",
                        "the decrease-side charge is three lines inside execute_decrease_position; the driver composes the same "
                        "three real calls (compute at the min price, clamp to the output, record)",
                        "settlement (SettleBuilderFee::invoke): specification level in this module; the real instruction is "
                        "executed by the runtime binding props/c32rt.py when present"]
    # instruction-level binding of the settlement (real settle_builder_fee / close_order_v2 in world R2)
    try:
        import props.c32rt as rt
        rt.run_rt(ctx)
    except ImportError:
        pass
    ctx.cov["trusted_base"] += ["TLC", "Apalache/Z3", "h-programs c32 driver", "hooks ops/order.rs, states/order.rs ::verif"]
    return ctx.finish("model_checking",
                      "every operand tuple of the small domain for the four helpers, record and the decrease-side charge, "
                      "plus random larger values (%d calls) and %d full-width calls; distinct = distinct (op, operands)"
                      % (len(allev), len(wev)), extra={"wide_events": len(wev)}, exhaustive=False)
