"""C03 Price impact penalises imbalance and cannot be farmed by round trips.
Spec: Impact.tla (precise operators), ImpactProps.tla (monitors + predicted event), MC_Impact (bounded
exhaustive model; prints its finite domain, which the driver then enumerates through the real code),
Trace_Impact (TLC trace validation)."""
import json
import vlib

KEY = ("op", "L", "S", "pL", "pS", "dL", "dS", "exp", "pos", "neg", "isLong", "hasvi", "VL", "VS")


def impact_class(e):
    """the same classification as ImpactProps!ImpactClass, from the logged real-pool state"""
    cl, cs = e["L"] * e["pL"], e["S"] * e["pS"]
    nl, ns = cl + e["dL"] * e["pL"], cs + e["dS"] * e["pS"]
    i0, i1 = abs(cl - cs), abs(nl - ns)
    cross = (cl <= cs) != (nl <= ns)
    if i1 < i0:
        return "crossover_improved" if cross else "same_side_improved"
    return "worsened" if i1 > i0 else "unchanged"


def classify(e, mon):
    d = {"monitor": mon, "class": impact_class(e)}
    d.update({k: e[k] for k in KEY})
    return d


def judge(ctx, tr, driver, cfg=None):
    fails, drifts, _ = ctx.validate_trace("Trace_Impact", tr, cfg=cfg, heap="6g")
    ev = vlib.read_ndjson(tr)
    for f in fails:
        e = ev[f["i"] - 1]
        ctx.report(dict(classify(e, f["mon"]), conforms=f.get("conforms", True)), {"driver": driver, "events": [e]})
    return ev


def run(ctx):
    ctx.build("h-model", "c03")
    if ctx.replay_file:
        rp = json.load(open(ctx.replay_file))
        inp = ctx.path("replay-in.ndjson")
        vlib.write_ndjson(inp, rp["replay"]["events"])
        tr = ctx.path("replay.ndjson")
        ctx.run_bin("c03", ["replay", "--in", inp, "--out", tr])
        ev = judge(ctx, tr, "h-model c03 replay")
        ctx.distinct += max(2, len(ev))
        return ctx.finish("exploration", "replay of one recorded case", exhaustive=False)
    # 1. the design satisfies the monitors on the whole bounded domain, except MonImproved on the recorded
    #    finding class (asserted to fail on a concrete witness); the round-trip slack is shown tight
    r = ctx.model_check("MC_Impact", coverage=False, cfg="MC_Impact" if ctx.quick else "MC_Impact_thorough",
                            workers=8, timeout=900 if ctx.quick else 1500)
    dom = r.tagged("DOM")
    if not dom:
        raise vlib.ToolError("MC_Impact did not print its domain")
    dom = dom[0]
    dp = ctx.path("dom.json")
    json.dump(dom, open(dp, "w"))
    n_init = (len(dom["poolAmts"]) ** 2 + 2 * dom["mid"] + 1 + len(dom["swapAmts"]) ** 2 + len(dom["oiAmts"]) ** 2)
    # 2. exactly the same tuples through the real code
    tr = ctx.path("small.ndjson")
    ctx.run_bin("c03", ["small", "--dom", dp, "--out", tr])
    ev = judge(ctx, tr, "h-model c03 small")
    if len(ev) != r.distinct - n_init:
        raise vlib.ToolError("driver enumerated %d tuples, the bounded model has %d" % (len(ev), r.distinct - n_init))
    # 3. seeded random calls (deltas biased to cancelling / crossing the imbalance); Unit = 100 in thorough
    n = 20000 if ctx.quick else 300000
    tr2 = ctx.path("random.ndjson")
    ctx.run_bin("c03", ["random", "--seed", ctx.seed, "--n", n, "--out", tr2])
    ev2 = judge(ctx, tr2, "h-model c03 random")
    ev3 = []
    if not ctx.quick:
        tr3 = ctx.path("random-u100.ndjson")
        ctx.run_bin("c03", ["random", "--decimals", 2, "--seed", ctx.seed + 1, "--n", n, "--out", tr3])
        ev3 = judge(ctx, tr3, "h-model c03 random --decimals 2", cfg="Trace_Impact_u100")
    allev = ev + ev2 + ev3
    cnt = {}
    for e in allev:
        if e["ok"]:
            c = impact_class(e)
            cnt[c] = cnt.get(c, 0) + 1
    pos_imp = sum(1 for e in allev if e["ok"] and e["v"] > 0)
    neg_imp = sum(1 for e in allev if e["ok"] and e["v"] < 0)
    trips = sum(1 for e in allev if e["ok"] and e["rok"] and (e["v"] != 0 or e["rv"] != 0))
    vi_worse = sum(1 for e in allev if e["ok"] and e["ok0"] and e["v"] < e["v0"])
    need = [cnt.get("worsened", 0), cnt.get("same_side_improved", 0), cnt.get("crossover_improved", 0),
            pos_imp, neg_imp, trips, vi_worse]
    if not ctx.violations and min(need) == 0:
        raise vlib.ToolError("vacuity: classes=%s positive=%d negative=%d round_trips=%d vi_worse=%d"
                             % (cnt, pos_imp, neg_imp, trips, vi_worse))
    ctx.distinct += len({tuple(e[k] for k in KEY) for e in allev if e["ok"] and (e["v"] != 0 or e["rv"] != 0)})
    ctx.cov["samples"] += [ev[len(ev) // 3], ev[-1], ev2[0]]
    ctx.cov["trusted_base"] += ["TLC", "harness h-model c03 driver", "VMarket (harness-owned market holding the pools)"]
    ctx.assumptions += ["exponents are whole units (1, 2, 3) as the property states",
                        "round-trip tolerance: 1 smallest usd unit (four floor roundings, shown tight by ASSUME SlackIsTight)",
                        "full-width values are not enumerated (the quantifier does not mention type limits)"]
    return ctx.finish("model_checking",
                      "the bounded model's finite domain (grid of pools x two-sided deltas x prices x exponents x factor "
                      "pairs; full one-sided sweep of every (initial, next) imbalance up to mid; swap and position calls "
                      "with / without virtual inventory) enumerated identically by TLC on the specification and by the "
                      "driver on the real code, plus seeded random calls; distinct = distinct argument tuples with a "
                      "non-zero impact in either direction",
                      extra={"classes": cnt, "positive_impacts": pos_imp, "negative_impacts": neg_imp,
                             "nonzero_round_trips": trips, "virtual_inventory_worse": vi_worse,
                             "small_domain_events": len(ev), "model_states": r.distinct}, exhaustive=False)
