"""C31 Order fee discounts are valid fractions combining rank and referral.
Spec: Discount.tla (formula as the code computes it), DiscountProps.tla (monitors), MC_Discount (all tables at
Unit = 10), Trace_Discount (TLC, whole-percent factors of the real 10^20-unit code, Unit = 10^4 in units of 10^16),
Wide_Discount (Apalache, arbitrary u128 factors at Unit = 10^20).  Program side: h-programs c31 (real Store /
GtState); SDK side: h-sdk c31s evaluates gmsol_programs' copy on the same Store bytes."""
import vlib
from props import c24

SCHEMA = {"a": "Int", "b": "Int", "referred": "Bool", "rank_ok": "Bool", "ok": "Bool", "v": "Int", "uok": "Bool", "uv": "Int",
          "sdk_ok": "Bool", "sdk": "Int"}


def classify(e, mon):
    return {"monitor": mon, "op": e["op"], "referred": e.get("referred"), "ok": e.get("ok"), "rank": e.get("rank")}


def run(ctx):
    ctx.build("h-programs", "c31")
    ctx.build("h-sdk", "c31s")
    q = ctx.quick
    # 1. laws of the formula on every table at Unit = 10
    c24.mc(ctx, "MC_Discount", "MC_Discount", timeout=900)
    # 2. whole-percent factors through the real program code and the SDK copy, judged by TLC
    sets, qs, st, merged = ctx.path("set.ndjson"), ctx.path("query.ndjson"), ctx.path("stores.bin"), ctx.path("merged.ndjson")
    ctx.run_bin("c31", ["small", "--full", 0 if q else 1, "--out-set", sets, "--out-query", qs, "--stores", st])
    ctx.run_bin("c31s", ["merge", "--in", qs, "--stores", st, "--out", merged])
    import os
    os.remove(st)
    allev = []
    for path, drv in ((sets, "h-programs c31 small (set)"), (merged, "h-programs c31 small + h-sdk c31s merge")):
        fails, drifts, _ = ctx.validate_trace("Trace_Discount", path)
        ev = vlib.read_ndjson(path)
        for f in fails:
            e = ev[f["i"] - 1]
            ctx.report(classify(e, f["mon"]), {"driver": drv, "event": e})
        allev.append(ev)
        ctx.cov["samples"] += [ev[len(ev) // 2], ev[-1]]
    qev = allev[1]
    cls = {"referred_ok": sum(1 for e in qev if e["ok"] and e["referred"]),
           "strictly_above_unreferred": sum(1 for e in qev if e["ok"] and e["referred"] and e["v"] > e["uv"]),
           "rank_above_max": sum(1 for e in qev if e["rank"] >= len(e["factors"])),
           "referral_above_100pct": sum(1 for e in qev if e["b"] > 10000 and e["referred"]),
           "set_rejected_above_100pct": sum(1 for e in allev[0] if not e["ok"] and any(x > 10000 for x in e["factors"])),
           "set_accepted": sum(1 for e in allev[0] if e["ok"])}
    for k, v in cls.items():
        if v == 0:
            if not ctx.violations:
                raise vlib.ToolError("vacuity: no event of class " + k)
    ctx.cov["classes"] = cls
    ctx.distinct += len({(tuple(e["factors"]), e["b"], e["rank"], e["referred"]) for e in qev})
    # 3. wide tier: arbitrary / boundary factors at the real unit, program = SDK, Apalache
    n = 200 if q else 1000
    wp, wst, wm = ctx.path("wide.ndjson"), ctx.path("wstores.bin"), ctx.path("wide-merged.ndjson")
    ctx.run_bin("c31", ["wide", "--seed", ctx.seed, "--n", n, "--out", wp, "--stores", wst])
    ctx.run_bin("c31s", ["merge", "--in", wp, "--stores", wst, "--out", wm])
    os.remove(wst)
    wev = vlib.read_ndjson(wm)
    for e in wev:
        e["rank_ok"] = e["rank"] <= e["max_rank"]
    for e in wev:                      # a panic is a violation on its own (Apalache sees flat numeric events only)
        if e["panic"]:
            ctx.report(classify(e, "NoPanic"), {"driver": "h-programs c31 wide", "event": e})
    res = vlib.apalache_events(ctx, "Wide_Discount", ["Discount"], wev, SCHEMA, "CInit20",
                               {"bad": ["EvOK"], "badSdk": ["EvSdk"], "drift": ["EvConf"]}, chunk=250)
    ctx.evaluations += len(wev)
    ctx.distinct += len({(e["a"], e["b"], e["rank"], e["referred"]) for e in wev})
    ctx.cov["samples"].append(wev[0])
    for i in res["bad"]:
        ctx.report(classify(wev[i - 1], "WideLaws"), {"driver": "h-programs c31 wide", "event": wev[i - 1]})
    for i in res["badSdk"]:
        ctx.report(classify(wev[i - 1], "Sdk"), {"driver": "h-programs c31 wide + h-sdk c31s", "event": wev[i - 1]})
    if res["drift"]:
        ctx.drift += len(res["drift"])
        ctx.drift_first = ctx.drift_first or wev[res["drift"][0] - 1]
    ctx.assumptions += ["TLC binds the real code on whole-percent factors (results are exact multiples of 10^16); arbitrary "
                        "values are judged by Apalache on a boundary-biased sample",
                        "the referral discount is written through Store::get_factor_mut (what insert_factor does); it has no cap"]
    ctx.cov["trusted_base"] += ["TLC", "Apalache/Z3", "h-programs c31 + h-sdk c31s drivers", "hooks states/gt.rs::verif"]
    return ctx.finish("model_checking",
                      "every rank table over 7 percent levels with up to 3 entries x 8 referral discounts x all ranks (+1) x "
                      "referred/unreferred (%d queries) through program and SDK on the same Store bytes, %d setter calls, "
                      "%d full-width queries; distinct = distinct (table, referral, rank, referred)"
                      % (len(qev), len(allev[0]), len(wev)), extra={"wide_events": len(wev)}, exhaustive=False)
