"""EXCHANGE (pseudo-id, not registered in MANIFEST): the composed specification of the model crate's market.

Specs: Exchange.tla (one state, every operation of crates/model as an action, composed from Market / Position /
MarketHist / Distribution through lenses), ExchangeProps.tla (all market-level monitors C04-C14 on that state),
MC_Exchange (bounded model: exhaustive + simulation, all actions enabled, all monitors), Trace_Exchange (FULL
conformance of recorded histories: every event, Ok and Err, state + report + partial state + probes).
Driver: harness/h-model/src/bin/hist.rs (random / replay), extended additively (cx, vi, rx, part, pv, c11).

run(ctx): build -> model-check -> generate histories (random raw, random under the programs' pre-execute
protocol, scripted scenarios, behaviours printed by the model) -> validate with Trace_Exchange ->
REPORT THE CONFORMANCE COVERAGE: per operation kind and outcome, how many events the explicit specification
predicts exactly, how many drift and on which field.  Summary: work/EXCHANGE/summary.json.

Run with tools/run_exchange.sh [quick|thorough] [seed]."""
import collections, json, os, re
import vlib
from props import markethist_common as mh

TRACE = "Trace_Exchange"
PROP_OF = {"C04": "C04", "C05": "C05", "C06": "C06", "C07": "C07", "C08": "C08", "C09": "C09", "C10": "C10",
           "C11": "C11", "C12": "C12", "C13": "C13", "C14": "C14"}
RESET = {"op": "reset", "d": 1, "fp": 4, "bp": 2, "fe": 0, "ip": 0, "vi": False}
PRE = [{"op": "distribute"}, {"op": "update_borrowing"}, {"op": "update_funding"}]


# ---------------------------------------------------------------------------------------------
# histories
def random_batch(ctx, name, n, runs, seed, vi=3, proto=False, d=1):
    tr, ops = ctx.path(name + ".ndjson"), ctx.path(name + ".ops.ndjson")
    args = ["random", "--seed", seed, "--n", n, "--runs", runs, "--d", d, "--vi", vi, "--out", tr, "--ops", ops]
    if proto:
        args += ["--proto", 1]
    vlib.log("  " + ctx.run_bin("hist", args).strip())
    return mh.Batch(name, tr, ops, cfg=None if d == 1 else "Trace_Exchange_d2")


def expand(op):
    """a specification-level operation record -> the driver's operations"""
    if op["op"] == "update_fees":
        return [dict(o) for o in PRE]
    return [op]


def model_scripts_to_ops(scripts):
    rows = []
    for s in scripts:
        fp, bp, fe, ip, vi = s["preset"]
        rows += [dict(RESET, fp=fp, bp=bp, fe=fe, ip=ip, vi=bool(vi)), {"op": "init"}]
        for o in s["ops"]:
            rows += expand(o)
    return rows


def scenario_rows(n):
    """scripted histories under the programs' protocol (fee state updated before every action): LP and position
    round trips, swaps inside decreases (both kinds), liquidations after a price move, collateral-only decreases,
    distribution of the impact pool, with and without virtual inventories"""
    rows = []
    combos = [(0, 1, 2, 1), (2, 0, 3, 2), (3, 3, 1, 3), (7, 1, 0, 0), (0, 0, 3, 2), (6, 4, 1, 1), (1, 1, 2, 3), (4, 2, 0, 0),
              (5, 1, 3, 1)]      # fp 5: adaptive funding with min > max -- update_funding is an Err once both sides are open

    def act(o):
        return ([dict(x) for x in PRE] if o["op"] in ("deposit", "withdraw", "increase", "decrease")
                else [{"op": "update_borrowing"}] if o["op"] == "swap" else []) + [o]

    for k in range(n):
        fp, bp, fe, ip = combos[k % len(combos)]
        vi = k % 3 == 1
        a, b = (1, 4) if k % 2 == 0 else (2, 3)          # a long and a short slot (own / cross collateral)
        big, small = 200 + 23 * (k % 7), 70 + 11 * (k % 5)
        up = 10 + (k % 4)
        seq = [{"op": "deposit", "l": 300 + 10 * (k % 9), "s": 3000},
               # LP round trip
               {"op": "deposit", "l": 7 + k % 13, "s": 40 + 9 * (k % 11)}, {"op": "withdraw", "rt": True},
               # position round trips on both sides (open, immediate full close)
               {"op": "increase", "pos": a, "size": big, "coll": (big // 15 + 1) if a % 2 == 1 else 2 * big // 3 + 1},
               {"op": "decrease", "pos": a, "size": 100000, "cap": True},
               {"op": "increase", "pos": b, "size": small, "coll": (small // 20 + 1) if b % 2 == 1 else small // 2 + 1},
               {"op": "decrease", "pos": b, "size": 100000, "cap": True},
               # build open interest on both sides, let time pass
               {"op": "increase", "pos": a, "size": big, "coll": (big // 15 + 1) if a % 2 == 1 else 2 * big // 3 + 1},
               {"op": "increase", "pos": b, "size": small, "coll": (small // 20 + 1) if b % 2 == 1 else small // 2 + 1},
               {"op": "tick", "dt": 1 + k % 3},
               {"op": "swap", "long_in": k % 2 == 0, "amt": 9 if k % 2 == 0 else 110},
               {"op": "tick", "dt": 2},
               {"op": "price", "imin": up, "imax": up + k % 2, "lmin": up, "lmax": up},
               # profit of the long in pnl tokens -> collateral token / collateral -> pnl token
               {"op": "decrease", "pos": a, "size": big // 3, "swap": 1 + k % 2},
               {"op": "decrease", "pos": a, "size": 0, "wd": 1},
               {"op": "withdraw", "mt": 100 + k},
               {"op": "tick", "dt": 3},
               {"op": "price", "imin": up + 5, "imax": up + 5, "lmin": up + 5, "lmax": up + 5},
               # the short is under water now: liquidation (full size, insolvent close allowed)
               {"op": "decrease", "pos": b, "size": small, "liq": True, "ins": True},
               {"op": "decrease", "pos": a, "size": 100000, "cap": True, "swap": 2 - k % 2},
               {"op": "decrease", "pos": b, "size": 100000, "cap": True},
               {"op": "tick", "dt": 5}, {"op": "distribute"},
               {"op": "withdraw", "mt": 500},
               # operations that must fail, some after having written part of the state (deposit above the pool cap,
               # withdrawal of more than the supply), some before (empty deposit / swap / withdrawal, swap beyond the pool)
               {"op": "deposit", "l": 0, "s": 0}, {"op": "deposit", "l": 0, "s": 130001 + k},
               {"op": "swap", "long_in": True, "amt": 0}, {"op": "swap", "long_in": k % 2 == 0, "amt": 5000 + 100 * k},
               {"op": "withdraw", "mt": 0}, {"op": "withdraw", "mt": 9000},
               {"op": "increase", "pos": 5 + k % 4, "size": 3900, "coll": 1 + k % 5},
               {"op": "decrease", "pos": 5 + k % 4, "size": 10}]
        rows += [dict(RESET, fp=fp, bp=bp, fe=fe, ip=ip, vi=vi), {"op": "init"}]
        for o in seq:
            rows += [o] if o["op"] in ("price", "tick", "distribute") else act(o)
    return rows


def liquidity_rows(n):
    """swap / deposit / withdraw sequences under price spreads on every token and swap impact / fee presets:
    imbalancing and rebalancing steps in both directions (negative, positive and capped positive swap impact),
    with and without the virtual inventory for swaps, with open interest in the market"""
    rows = []
    combos = [(0, 1, 3, 3), (4, 2, 1, 3), (2, 0, 3, 2), (7, 3, 0, 3), (0, 1, 1, 2), (3, 4, 3, 3)]
    for k in range(n):
        fp, bp, fe, ip = combos[k % len(combos)]
        lp, sp = 8 + k % 5, 1 + k % 2
        seq = [{"op": "price", "imin": lp, "imax": lp + 1, "lmin": lp, "lmax": lp + (k % 3 > 0), "smin": sp, "smax": sp + (k % 4 > 1)},
               {"op": "deposit", "l": 60 + 7 * (k % 5), "s": (900 - 60 * (k % 7)) // sp},
               {"op": "increase", "pos": 1 + k % 4, "size": 150 + 10 * (k % 6), "coll": 20 if (k % 4) % 2 == 0 else 160 // sp}]
        amts = [(True, 3 + k % 4), (True, 20 + k % 9), (False, 150 // sp), (False, 40 + 7 * (k % 5)), (True, 1), (False, 330 // sp),
                (True, 35), (False, 11), (True, 9 + k % 3), (False, 500 // sp)]
        for j, (side, amt) in enumerate(amts):
            seq.append({"op": "swap", "long_in": side, "amt": amt})
            if j % 3 == 1:
                seq.append({"op": "deposit", "l": (5 + k % 4) if j % 2 else 0, "s": 0 if j % 2 else 70 // sp})
            if j % 4 == 2:
                seq += [{"op": "tick", "dt": 1 + j % 2}, {"op": "withdraw", "mt": 80 + 13 * j}]
            if j == 5:
                seq.append({"op": "price", "imin": lp + 1, "imax": lp + 2, "lmin": lp + 1, "lmax": lp + 2, "smin": sp, "smax": sp + 1})
        seq += [{"op": "deposit", "l": 9, "s": 90 // sp}, {"op": "withdraw", "rt": True}]
        rows += [dict(RESET, fp=fp, bp=bp, fe=fe, ip=ip, vi=k % 2 == 1), {"op": "init"}]
        for o in seq:
            if o["op"] in ("deposit", "withdraw", "increase"):
                rows += [dict(x) for x in PRE]
            elif o["op"] == "swap":
                rows.append({"op": "update_borrowing"})
            rows.append(o)
    return rows


# ---------------------------------------------------------------------------------------------
# C08 ledger residuals with the fee-remainder dust of known finding C08-fee-remainder-dust.  markethist_common's
# classification is deliberately narrow (no swap inside the decrease); a decrease that swapped its profit to the
# collateral token first (DecreasePositionSwapType::PnlTokenToCollateralToken: the secondary output is then empty)
# leaks in exactly the same way -- do_pay_for_cost floors the unpaid fee remainder, converted to pnl tokens, to
# zero -- and the swap itself is neutral for the holdings.  ExchangeProps!DustOf is the same criterion.
def fee_dust_x(e, prev_r, r):
    d = mh.fee_dust(e, prev_r, r)
    if d or not (e["op"] == "decrease" and e["ok"] and e["ncb"] == 0 and prev_r is not None):
        return d
    if e["rx"]["sw1"] != "ok" or e["rx"]["step"]:
        return None
    p = e["ps"][e["arg"]["pos"] - 1]
    tc, tp = mh._ix(p["cl"]), mh._ix(p["long"])
    if tc == tp or p["col"] != 0 or e["rx"]["sec"] != 0:
        return None
    exc = [(e["r"]["fund"] if t == tc else 0) - e["r"]["cf"][t] - (r[t] - prev_r[t]) for t in (0, 1)]
    pc = e["px"]["lmin"] if tc == 0 else e["px"]["smin"]
    pp = e["px"]["lmin"] if tp == 0 else e["px"]["smin"]
    if 0 < exc[tc] <= e["rx"]["feeCost"] and exc[tp] == 0 and exc[tc] * pc < pp:
        return exc
    return None


def residuals_x(ev):
    out, led, prev_r, dust = [], None, None, [0, 0]
    for e in ev:
        if e["reset"] or led is None:
            led = {"in": [0, 0], "out": [0, 0], "cb": False}
            prev_r, dust = None, [0, 0]
        i, o = mh.step_in_out(e)
        for t in (0, 1):
            led["in"][t] += i[t]
            led["out"][t] += o[t]
        if e["ncb"]:
            led["cb"] = True
        r = [led["in"][t] - led["out"][t] - mh.holdings(e["m"], t) for t in (0, 1)]
        d = fee_dust_x(e, prev_r, r)
        if d:
            dust = [dust[0] + d[0], dust[1] + d[1]]
        out.append((r, led["cb"], list(dust), d))
        prev_r = r
    return out


# ---------------------------------------------------------------------------------------------
# classification of monitor failures (known findings of the owning property; nothing else is suppressed)
def classify(ev, res, idx, mon, fails_at):
    e = ev[idx]
    pid = mon.split(".")[0]
    v = {"monitor": mon, "op": e["op"], "ok": e["ok"], "run": e["run"], "step": e["step"]}
    known = None
    if pid == "C08":
        v = mh.classify(ev, res, idx, mon)
        known = vlib.match_known("C08", v)
    elif mon == "C06.RoundTrip":
        d = ev[idx - 1]
        lost = [max(0, ev[idx - 2]["m"]["simp"][t] - d["m"]["simp"][t]) for t in (0, 1)] if idx >= 2 else [0, 0]
        pre = ev[idx - 2]["m"] if idx >= 2 else None
        v["class"] = ("positive_impact" if lost[0] + lost[1] > 0 else
                      "orphan_value" if pre and pre["supply"] == 0 and sum(pre["liq"]) > 0 else "other")
        known = vlib.match_known("C06", dict(v, monitor="C06RoundTrip"))
    elif mon == "C11.Monotone":
        v["class"] = "other" if "C11.MonotoneNoCap" in fails_at else "trader_cap_active"
        known = vlib.match_known("C11", dict(v, monitor="Monotone"))
    elif mon == "C10.RoundTrip":
        c = e["cx"]
        v["class"] = "within_convention" if c["max_pos_impact"] <= c["max_neg_impact"] else "positive_cap_above_negative_cap"
        known = vlib.match_known("C10", dict(v, monitor="RoundTrip"))
    if known is not None:
        return v, "known:" + known["id"]
    # not a finding of the property: a history the programs cannot produce.  The share / backing monitors are
    # statements about actions executed on an up-to-date fee state (update_fees_state runs first on chain).
    if idx >= 1 and not e["reset"] and e["op"] in ("deposit", "withdraw", "swap", "increase", "decrease"):
        m0 = ev[idx - 1]["m"]
        stale = [k for k in ("ck_b", "ck_f", "ck_d") if m0[k] != m0["now"]]
        if stale and mon in ("C06.DepositShare", "C06.WithdrawShare", "C06.RoundTripFunded"):
            v["stale_clocks"] = stale
            return v, "outside-protocol:fee-state-not-updated"
    return v, "unexplained"


# ---------------------------------------------------------------------------------------------
def judge(ctx, batch, cov, fails_out, drift_out):
    fails, drifts, r = ctx.validate_trace(TRACE, batch.trace, cfg=batch.cfg, timeout=3000)
    ev = vlib.read_ndjson(batch.trace)
    res = residuals_x(ev)
    what = {}
    for d in drifts:
        if isinstance(d, dict):
            what[d["i"]] = d["what"]
    for i, e in enumerate(ev, 1):
        key = (e["op"], "ok" if e["ok"] else "err")
        c = cov[key]
        c["events"] += 1
        if e["part"]["has"]:
            c["partial_states"] += 1
        if i in what:
            w = what[i].split(":", 1)[1] if ":" in what[i] else what[i]
            c["drift"][w] += 1
            if len(drift_out) < 40:
                drift_out.append({"batch": batch.name, "i": i, "what": what[i], "run": e["run"], "step": e["step"],
                                  "arg": e["arg"], "err": e["err"], "cx": e["cx"], "px": e["px"]})
        else:
            c["exact"] += 1
        if e["op"] == "decrease" and (e["rx"]["sw1"] or e["rx"]["sw2"]):
            cov[("decrease+swap", "ok" if e["ok"] else "err")]["events"] += 1
            cov[("decrease+swap", "ok" if e["ok"] else "err")]["exact" if i not in what else "n_drift"] += 1
        if e["vi"]["s_on"]:
            cov[("(with virtual inventories)", "any")]["events"] += 1
            cov[("(with virtual inventories)", "any")]["exact" if i not in what else "n_drift"] += 1
    by_i = collections.defaultdict(set)
    for f in fails:
        by_i[f["i"]].add(f["mon"])
    for f in fails:
        if f["mon"] == "C11.MonotoneNoCap" and "C11.Monotone" in by_i[f["i"]]:
            continue        # reported through C11.Monotone's class
        v, verdict = classify(ev, res, f["i"] - 1, f["mon"], by_i[f["i"]])
        if not f.get("conforms", True) and verdict.startswith("known:"):
            verdict = "unexplained"      # a known finding describes the design: only conforming events qualify
        fails_out[(f["mon"], verdict)] += 1
        if verdict == "unexplained" and len(ctx.unexplained) < 20:
            ctx.unexplained.append({"batch": batch.name, "i": f["i"], "viol": v, "event": mh._slim(ev[f["i"] - 1])})
        elif verdict.startswith("outside") and len(ctx.outside) < 5:
            ctx.outside.append({"batch": batch.name, "i": f["i"], "viol": v, "pre_m": ev[f["i"] - 2]["m"], "pre_pv": ev[f["i"] - 2]["pv"],
                                "event": {k: ev[f["i"] - 1][k] for k in ("op", "arg", "px", "r", "m", "pv")}})
    return ev


def new_cov():
    return collections.defaultdict(lambda: {"events": 0, "exact": 0, "n_drift": 0, "partial_states": 0,
                                            "drift": collections.Counter()})


def check_presets(ctx, mc, ev):
    """the configurations rebuilt in MC_Exchange are the driver's presets"""
    cfgs = {}
    for payload in mc.tagged("CFGS"):
        for row in payload:
            cfgs[tuple(row["preset"])] = row["cx"]
    seen = {}
    for e in ev:
        if e["reset"]:
            seen[json.dumps(e["cx"], sort_keys=True)] = e["cx"]
    bad = []
    for preset, cx in cfgs.items():
        if not any(all(c.get(k) == v for k, v in cx.items()) and set(c) == set(cx) for c in seen.values()):
            bad.append(preset)
    return cfgs, bad


def run(ctx):
    q = ctx.quick
    ctx.unexplained, ctx.outside = [], []
    ctx.build("h-model", "hist")
    summary = {"tier": ctx.tier, "seed": int(ctx.seed)}

    # ---- 1. the bounded model: all actions, all monitors (design variants)
    mc = ctx.model_check("MC_Exchange", cfg="MC_Exchange" if q else "MC_Exchange_thorough", workers=8,
                         timeout=3000, coverage=False)
    summary["model_exhaustive"] = {"cfg": "MC_Exchange" if q else "MC_Exchange_thorough", "generated": mc.generated,
                                   "distinct": mc.distinct, "depth": mc.depth, "wall_s": round(mc.wall, 1)}
    secs = 150 if q else 900
    sim = ctx.model_check("MC_Exchange", cfg="MC_Exchange_sim", workers=8, timeout=secs + 900, coverage=False,
                          simulate="num=100000000", count=False,
                          env={"JAVA_TOOL_OPTIONS": "-Xss1g -Dtlc2.TLC.stopAfter=%d" % secs})
    m = [l for l in sim.raw.splitlines() if l.startswith("The number of states generated:")]
    mh.need(m, "MC_Exchange simulation did not report its state count")
    sim_states = int(m[-1].split(":")[1].strip().replace(",", ""))
    ctx.transitions += sim_states
    summary["model_simulation"] = {"cfg": "MC_Exchange_sim", "states": sim_states, "behaviours": len(sim.tagged("T")),
                                   "wall_s": round(sim.wall, 1), "stop_after_s": secs}
    # any order of actions (no ordering rule): everything but the C06 share statements, which are required of
    # liquidity operations on an up-to-date fee state only ...
    raw_secs = 100 if q else 600
    raw = ctx.model_check("MC_Exchange", cfg="MC_Exchange_raw_sim", workers=8, timeout=raw_secs + 900, coverage=False,
                          simulate="num=100000000", count=False,
                          env={"JAVA_TOOL_OPTIONS": "-Xss1g -Dtlc2.TLC.stopAfter=%d" % raw_secs})
    m = [l for l in raw.raw.splitlines() if l.startswith("The number of states generated:")]
    raw_states = int(m[-1].split(":")[1].strip().replace(",", "")) if m else 0
    ctx.transitions += raw_states
    summary["model_simulation_any_order"] = {"cfg": "MC_Exchange_raw_sim", "states": raw_states, "wall_s": round(raw.wall, 1)}
    # ... and without that restriction the model must break exactly those statements (a deposit after a Tick
    # re-prices the pending borrowing fees at the new utilisation)
    neg = vlib.tlc(ctx.spec("MC_Exchange.tla"), ctx.spec("MC_Exchange_neg.cfg"), workers=8, timeout=1500,
                   simulate="num=100000000", env={"JAVA_TOOL_OPTIONS": "-Xss1g -Dtlc2.TLC.stopAfter=400"})
    nb = re.findall(r'bad = "([^"]+)"', neg.raw)
    summary["model_negative"] = {"cfg": "MC_Exchange_neg", "violated": neg.violated, "first_failing_monitor": nb[-1] if nb else None,
                                 "wall_s": round(neg.wall, 1)}
    vlib.log("  tlc MC_Exchange_neg: %s (%s) -- expected: the C06 share monitors need the fee state to be up to date" % (
        neg.violated, nb[-1] if nb else "no monitor failed"))
    mh.need(neg.violated == "MonitorsHold" and nb and nb[-1] in ("C06.DepositShare", "C06.WithdrawShare", "C06.RoundTripFunded",
                                                                "C06.WithdrawShare(rt)"),
            "MC_Exchange_neg did not violate a C06 share monitor: %s %s" % (neg.violated, nb[-1:] ))
    ex_scripts = mc.tagged("T")
    sim_scripts = sim.tagged("T")
    mh.need(len(ex_scripts) >= 10 and len(sim_scripts) >= 10,
            "MC_Exchange printed too few behaviours (%d exhaustive, %d simulated)" % (len(ex_scripts), len(sim_scripts)))

    # ---- 2. histories of the real code
    seed = int(ctx.seed)
    batches = [
        random_batch(ctx, "random_raw", 6000 if q else 40000, 120 if q else 800, seed),
        random_batch(ctx, "random_protocol", 6000 if q else 40000, 100 if q else 700, seed + 1, proto=True),
        mh.replay_batch(ctx, "scenarios", scenario_rows(48 if q else 400)),
        mh.replay_batch(ctx, "liquidity", liquidity_rows(60 if q else 600)),
        mh.replay_batch(ctx, "funding_cross_collateral", mh.cross_collateral_scenarios(24 if q else 240)),
        mh.replay_batch(ctx, "model_exhaustive", model_scripts_to_ops(ex_scripts[: (150 if q else 1500)])),
        mh.replay_batch(ctx, "model_simulation", model_scripts_to_ops(sim_scripts[: (100 if q else 800)])),
        # the same specification text at the finer unit (DECIMALS = 2, Unit = 100)
        random_batch(ctx, "random_raw_d2", 2000 if q else 20000, 40 if q else 400, seed + 2, d=2),
    ]

    # ---- 3. full conformance + monitors
    cov, fails, drift_samples = new_cov(), collections.Counter(), []
    per_batch = {}
    all_first = None
    for b in batches:
        before = sum(c["events"] for k, c in cov.items() if k[1] in ("ok", "err"))
        d0 = ctx.drift
        ev = judge(ctx, b, cov, fails, drift_samples)
        per_batch[b.name] = {"events": len(ev), "drift": ctx.drift - d0}
        if b.name == "model_exhaustive":
            cfgs, bad = check_presets(ctx, mc, ev)
            summary["presets_checked"] = len(cfgs)
            if bad:
                raise vlib.ToolError("MC_Exchange presets differ from the driver's: %s" % bad)
        all_first = all_first or ev
    ctx.distinct += sum(c["exact"] for k, c in cov.items() if k[1] in ("ok", "err"))

    # ---- 4. report
    table = []
    for (op, okk), c in sorted(cov.items()):
        nd = sum(c["drift"].values()) if okk in ("ok", "err") else c["n_drift"]
        table.append({"op": op, "outcome": okk, "events": c["events"], "exact": c["exact"], "drift": nd,
                      "partial_states_compared": c["partial_states"], "drift_fields": dict(c["drift"])})
    vlib.log("\nCONFORMANCE COVERAGE (events of the real code predicted EXACTLY by Exchange.tla: outcome, state after, "
             "report, partial state on Err, pool values, pnl probe)")
    vlib.log("  %-28s %-4s %8s %8s %6s  %s" % ("operation", "", "events", "exact", "drift", "drift by first differing field"))
    for r in table:
        vlib.log("  %-28s %-4s %8d %8d %6d  %s" % (r["op"], r["outcome"], r["events"], r["exact"], r["drift"],
                                                   r["drift_fields"] or ""))
    tot = sum(r["events"] for r in table if r["outcome"] in ("ok", "err"))
    exact = sum(r["exact"] for r in table if r["outcome"] in ("ok", "err"))
    vlib.log("  %-28s      %8d %8d %6d" % ("TOTAL", tot, exact, tot - exact))
    vlib.log("\nMONITORS on the histories (literal statements; verdict per failing event):")
    for (mon, verdict), n in sorted(fails.items()):
        vlib.log("  %-28s %-50s %d" % (mon, verdict, n))
    unexplained = sum(n for (mon, verdict), n in fails.items() if verdict == "unexplained")
    summary.update({
        "conformance": table, "events": tot, "exact": exact, "drift": tot - exact, "drift_samples": drift_samples,
        "per_batch": per_batch,
        "monitor_failures": [{"monitor": m_, "verdict": v_, "count": n} for (m_, v_), n in sorted(fails.items())],
        "unexplained": ctx.unexplained, "outside_protocol_samples": ctx.outside,
        "wall_s": round(__import__("time").time() - ctx.t0, 1),
    })
    os.makedirs(ctx.wd, exist_ok=True)
    with open(ctx.path("summary.json"), "w") as f:
        json.dump(summary, f, indent=1, default=str)
    vlib.log("\nsummary: %s" % ctx.path("summary.json"))
    if unexplained:
        vlib.log("UNEXPLAINED monitor failures: %d (see summary.json 'unexplained')" % unexplained)
        return 1
    vlib.log("OK EXCHANGE tier=%s events=%d exact=%d drift=%d states=%d (exhaustive) + %d + %d (simulated) wall=%.0fs" % (
        ctx.tier, tot, exact, tot - exact, mc.distinct, sim_states, raw_states, summary["wall_s"]))
    return 0


def selftest(ctx, n=4000):
    """Histories only (no model checking): used by tools/exchange_selftest.sh to show what the composed
    specification says about a CHANGED model crate (isolated copy): which operation kinds drift on which field,
    which monitors fail.  Returns the summary dict."""
    ctx.unexplained, ctx.outside = [], []
    ctx.build("h-model", "hist")
    seed = int(ctx.seed)
    batches = [random_batch(ctx, "random_raw", n, n // 50, seed),
               random_batch(ctx, "random_protocol", n, n // 60, seed + 1, proto=True),
               mh.replay_batch(ctx, "scenarios", scenario_rows(32)),
               mh.replay_batch(ctx, "liquidity", liquidity_rows(48)),
               mh.replay_batch(ctx, "funding_cross_collateral", mh.cross_collateral_scenarios(12))]
    # behaviours printed by the bounded model in the last full run (operation scripts), if any
    for name in ("model_exhaustive", "model_simulation"):
        ops = os.path.join(vlib.VERIF, "work", "EXCHANGE", name + ".ops.ndjson")
        if os.path.exists(ops):
            batches.append(mh.replay_batch(ctx, name, vlib.read_ndjson(ops)))
    cov, fails, drift_samples = new_cov(), collections.Counter(), []
    for b in batches:
        judge(ctx, b, cov, fails, drift_samples)
    drift = collections.Counter()
    for (op, okk), c in cov.items():
        if okk in ("ok", "err"):
            for w, k in c["drift"].items():
                drift["%s/%s:%s" % (op, okk, w)] += k
    tot = sum(c["events"] for k, c in cov.items() if k[1] in ("ok", "err"))
    return {"events": tot, "drift_events": sum(drift.values()), "drift": dict(drift.most_common(12)),
            "monitor_failures": {"%s [%s]" % k: v for k, v in sorted(fails.items()) if not k[1].startswith("known:")},
            "first_drift": drift_samples[:1]}
