"""C42 Swap path search returns valid, bounded and best paths.
Spec: Graph.tla (tokens, markets as two directed integer-cost edges, market-simple Paths, brute-force Best,
NegCycle, Search as it is meant), GraphProps.tla (monitors), MC_Graph (every small graph; prints them),
Trace_Graph (TLC trace validation of the real MarketGraph search, built through the gmsol_verif hook)."""
import json
import vlib

NO_EDGE = 99



def vacuity(ctx, msg):
    """a vacuity alarm is a tool error only when nothing else explains the missing cases: with violations or
    drift on record the verdict comes first and the alarm is demoted to a note"""
    if ctx.violations or ctx.drift:
        ctx.note("vacuity (demoted: violations or drift on record): " + msg)
    else:
        raise vlib.ToolError("vacuity: " + msg)

def steps(g):
    out = []
    for i, m in enumerate(g["mk"], 1):
        if m["cab"] != NO_EDGE:
            out.append((i, m["a"], m["b"], m["cab"]))
        if m["cba"] != NO_EDGE:
            out.append((i, m["b"], m["a"], m["cba"]))
    return out


def best_within(g, src, dst, k):
    """cheapest market-simple path src -> dst with at most k steps (None if there is none)"""
    st = steps(g)
    best = None
    stack = [(src, 0, frozenset())]
    while stack:
        cur, cost, used = stack.pop()
        if cur == dst and (best is None or cost < best):
            best = cost
        if len(used) == k:
            continue
        for (mi, a, b, c) in st:
            if a == cur and mi not in used:
                stack.append((b, cost + c, used | {mi}))
    return best


def classify(e, mon, j):
    r = e["res"][j]
    g, k = e["g"], e["k"]
    best = best_within(g, r["src"], r["dst"], k)
    cls = "other"
    if mon == "Best":
        if not r["found"]:
            # a distance is recorded for the target (it was reached) but to() found the predecessor chain longer
            # than max_steps (or cyclic) and gave up: every node keeps ONE predecessor, which a cheaper but
            # longer path overwrites (Bellman-Ford relaxing in place / DFS re-visiting at a larger depth)
            if r["has_dist"] and best is not None and not r["skip"] and r["arb"] == "false":
                cls = "bf_gives_up_walking_predecessors"
            elif r["has_dist"] and best is not None and r["skip"]:
                cls = "dfs_only_gives_up_walking_predecessors"
            elif not r["has_dist"] and best is not None and r["skip"]:
                # DFS only: a token first reached on a cheap path AT the depth limit is not expanded again when it
                # is reached later on a shallower but not cheaper path (pruned by `d >= best`), so the tokens
                # behind it are never reached at all
                cls = "dfs_only_prunes_shallower_visit"
            else:
                cls = "nothing_recommended"
        else:
            cls = "suboptimal"
    elif mon == "Rate":
        cls = "rate_differs_from_path"
    elif mon == "Valid":
        cls = "too_long" if len(r["path"]) > k else ("repeats_market" if len(set(r["path"])) < len(r["path"]) else "broken_chain")
    return {"monitor": mon, "class": cls, "skip": r["skip"], "arb": r["arb"], "k": k, "src": r["src"], "dst": r["dst"],
            "markets": len(g["mk"]), "tokens": g["n"], "best_within_k": best, "recorded_cost": r["cost"]}


def judge(ctx, tr, driver, smallest):
    fails, _, _ = ctx.validate_trace("Trace_Graph", tr)
    ev = vlib.read_ndjson(tr)
    seen = {}
    for f in fails:
        mon, j = f["mon"].split("#")
        e = ev[f["i"] - 1]
        c = classify(e, mon, int(j) - 1)
        c["conforms"] = f.get("conforms", True)
        key = (c["monitor"], c["class"])
        seen[key] = seen.get(key, 0) + 1
        size = (len(e["g"]["mk"]), e["g"]["n"], e["k"], sum(abs(m["cab"]) + abs(m["cba"]) for m in e["g"]["mk"]))
        if key not in smallest or size < smallest[key][0]:
            smallest[key] = (size, {"g": e["g"], "k": e["k"], "result": e["res"][int(j) - 1]})
        if seen[key] <= 20 or vlib.match_known(ctx.pid, c) is not None:
            ctx.report(c, {"driver": driver, "graph": {"g": e["g"], "k": e["k"]}, "result": e["res"][int(j) - 1]})
    return ev


def run(ctx):
    ctx.build("h-sdk", "c42")
    smallest = {}
    if ctx.replay_file:
        rp = json.load(open(ctx.replay_file))
        inp = ctx.path("replay-in.ndjson")
        vlib.write_ndjson(inp, [rp["replay"]["graph"]])
        tr = ctx.path("replay.ndjson")
        ctx.run_bin("c42", ["replay", "--in", inp, "--out", tr, "--skip-every", 1])
        ev = judge(ctx, tr, "h-sdk c42 replay", smallest)
        ctx.distinct += max(2, len(ev))
        return ctx.finish("exploration", "replay of one recorded graph", exhaustive=False)
    # 1. the specification: Search satisfies the monitors on every small graph; brute-force definitions cross-checked
    r = ctx.model_check("MC_Graph", cfg="MC_Graph" if ctx.quick else "MC_Graph_thorough", workers=8,
                        timeout=600 if ctx.quick else 3000, expect_actions=["Gen"])
    graphs = r.tagged("G")
    if len(graphs) < 1000:
        raise vlib.ToolError("MC_Graph printed only %d graphs" % len(graphs))
    inp = ctx.path("graphs.ndjson")
    vlib.write_ndjson(inp, graphs)
    # 2. spec -> implementation: every printed graph into the real MarketGraph, every ordered token pair
    tr = ctx.path("replay.ndjson")
    ctx.run_bin("c42", ["replay", "--in", inp, "--out", tr, "--skip-every", 3])
    ev = judge(ctx, tr, "h-sdk c42 replay", smallest)
    # 3. seeded random graphs: 2..4 tokens, 1..4 markets, costs -2..3 or absent, both orientations, k in 1..3
    tr2 = ctx.path("random.ndjson")
    ctx.run_bin("c42", ["random", "--seed", ctx.seed, "--n", 3000 if ctx.quick else 60000, "--out", tr2])
    ev2 = judge(ctx, tr2, "h-sdk c42 random", smallest)
    allev = ev + ev2
    res = [x for e in allev for x in e["res"]]
    st = {"results": len(res), "found_nonempty": sum(1 for x in res if x["found"] and x["path"]),
          "bellman_ford_no_arbitrage": sum(1 for x in res if x["arb"] == "false"),
          "dfs_fallback_negative_cycle": sum(1 for x in res if x["arb"] == "true"),
          "dfs_only": sum(1 for x in res if x["skip"]),
          "at_step_limit": sum(1 for e in allev for x in e["res"] if x["found"] and len(x["path"]) == e["k"]),
          "nothing_found": sum(1 for x in res if not x["found"]), "panics": sum(1 for x in res if x["panic"])}
    for key in ("found_nonempty", "bellman_ford_no_arbitrage", "dfs_fallback_negative_cycle", "dfs_only", "at_step_limit",
                "nothing_found"):
        if st[key] == 0:
            vacuity(ctx, "no result with %s" % key)
    if st["panics"]:
        ctx.note("%d search call(s) panicked (treated as failed searches)" % st["panics"])
    for key, (_, case) in sorted(smallest.items()):
        ctx.note("smallest failing graph for %s/%s: %s" % (key[0], key[1], json.dumps(case)))
    ctx.evaluations += len(res)
    ctx.distinct += len({json.dumps([e["g"], e["k"]], sort_keys=True) for e in allev})
    ctx.cov["samples"] += [ev[len(ev) // 2], ev2[-1]]
    ctx.cov["trusted_base"] += ["TLC", "harness h-sdk c42 driver", "hook gmsol_sdk::market_graph::verif (sets the edge "
                                "estimations of a graph built with insert_market_with_options and returns to()'s result "
                                "with the recorded distance)"]
    ctx.assumptions += ["edge costs are integers (the code's Decimal arithmetic is exact on them); the rate itself is "
                        "compared through the recorded distance: rate == exp(-distance) is checked in Decimal by the "
                        "driver with the code's own conversion, distance == sum of the path's costs by TLC",
                        "pure markets (long token = short token, a self-loop) are not generated",
                        "'no arbitrage cycle' is read as: no negative directed cycle anywhere in the graph"]
    return ctx.finish("model_checking",
                      "graphs printed by the bounded model (%d, all with fewer than the maximal number of markets, the "
                      "rest sampled deterministically) plus %d seeded random graphs, every ordered token pair, "
                      "Bellman-Ford(+DFS fallback) and DFS-only; distinct = distinct (graph, max_steps)"
                      % (len(ev), len(ev2)), extra={"case_counts": st, "model_graphs_printed": len(graphs)},
                      exhaustive=False)
