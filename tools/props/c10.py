"""C10 Opening and immediately closing a position is never profitable.
Spec: Position.tla (Increase, Decrease), PositionProps.tla (MonRoundTrip), MC_PositionC10 (bounded design check
over ALL orderings of the impact caps, prints the domain), Trace_PositionC10 (TLC trace validation of real
open/close round trips)."""
import collections
import vlib
from props import poslib


def classify(e_open, e_close, mon, profit=None, design=None):
    """profit: the round-trip profit of the real code (usd at min prices); design: what the precise specification
    yields for the same input ([ok, profit], from Trace_PositionC10's DES line).  A known DESIGN-level profit is only
    the same finding when the code is not worse than the design on the monitored quantity."""
    c = e_open["pre"]["m"]["c"]
    p = e_open["pre"]["p"]
    worse = None
    if mon == "RoundTrip":
        worse = design is None or not design.get("ok") or profit is None or profit > design["profit"]
    return {"monitor": mon, "profit": profit, "design_profit": (design or {}).get("profit") if (design or {}).get("ok") else None,
            "worse_than_design": worse,
            # governance convention max_positive_position_impact_factor <= max_negative_position_impact_factor
            "class": "within_convention" if c["maxPosImp"] <= c["maxNegImp"] else "positive_cap_above_negative_cap",
            "maxPosImp": c["maxPosImp"], "maxNegImp": c["maxNegImp"], "long": p["long"], "clong": p["clong"],
            "tag": e_close.get("tag", "")}


def case_of(e_open):
    return {"m": e_open["pre"]["m"], "p": e_open["pre"]["p"], "px": e_open["px"],
            "dcoll": e_open["a"]["dcoll"], "dsize": e_open["a"]["dsize"]}


def judge(ctx, name, tr, decimals, acc):
    fails, drifts, r = ctx.validate_trace("Trace_PositionC10", tr, cfg=poslib.trace_cfg("Trace_PositionC10", decimals))
    ev = vlib.read_ndjson(tr)
    rts = r.tagged("RT")
    acc["round_trips"] += len(rts)
    for x in rts:
        if x["conv"]:
            acc["max_profit_within_convention"] = max(acc["max_profit_within_convention"], x["profit"] - x["tol"])
        else:
            acc["outside_convention"] += 1
    ctx.distinct += len({vlib.hashlib.md5(vlib.json.dumps([ev[x["i"] - 2]["pre"], ev[x["i"] - 2]["px"], ev[x["i"] - 2]["a"]],
                                                          sort_keys=True).encode()).hexdigest() for x in rts})
    if rts:
        k = rts[len(rts) // 2]["i"]
        ctx.cov["samples"] += [{"open": {q: ev[k - 2][q] for q in ("a", "px", "rep")},
                                "close": {q: ev[k - 1][q] for q in ("a", "rep")}, "profit": rts[len(rts) // 2]["profit"]}]
    des = {x["i"]: x["design"] for x in r.tagged("DES")}
    prof_by_i = {x["i"]: x["profit"] for x in rts}
    for f in fails:
        e2 = ev[f["i"] - 1]
        e1 = ev[f["i"] - 2] if f["mon"] == "RoundTrip" else e2
        prof = [prof_by_i[f["i"]]] if f["i"] in prof_by_i else []
        dr10 = {d.get("i") for d in drifts}
        ctx.report(dict(classify(e1, e2, f["mon"], prof[0] if prof else None, des.get(f["i"])),
                        conforms=not (f["i"] in dr10 or (f["i"] - 1) in dr10)),
                   {"driver": "h-model c10 replay", "decimals": decimals, "cases": [case_of(e1)], "source": name,
                    "profit_usd": prof[0] if prof else None, "open": e1, "close": e2})
    return ev


def run(ctx):
    ctx.build("h-model", "c10")
    acc = collections.Counter()
    acc["max_profit_within_convention"] = -10**9
    rp = poslib.load_replay(ctx)
    if rp and rp.get("cases"):
        cp = ctx.path("replay-cases.ndjson")
        vlib.write_ndjson(cp, rp["cases"])
        tr = ctx.path("replay.ndjson")
        ctx.run_bin("c10", ["replay", "--in", cp, "--decimals", rp.get("decimals", 1), "--out", tr])
        judge(ctx, "replay-file", tr, rp.get("decimals", 1), acc)
        ctx.distinct = max(ctx.distinct, 2)
        return ctx.finish("exploration", "re-run of the recorded failing case(s) only", exhaustive=False)

    # 1. the design: all cap orderings; Inv = no profit within the convention; W = profits outside it
    cfg = "MC_PositionC10" if ctx.quick else "MC_PositionC10_thorough"
    r = poslib.model_check(ctx, "MC_PositionC10", cfg)
    cases = poslib.cases_from(r, ctx.path("cases.ndjson"))
    profit_orderings = sorted({(w["maxPosImp"], w["maxNegImp"]) for w in r.tagged("W")})
    all_orderings = sorted({(c["m"]["c"]["maxPosImp"], c["m"]["c"]["maxNegImp"]) for c in cases})
    bad = [o for o in profit_orderings if o[0] <= o[1]]
    if bad:
        raise vlib.ToolError("bounded model: cap orderings inside the convention admit a profit: %s" % bad)
    model_n = r.tagged("N")
    vlib.log("  bounded model: cap orderings (maxPos, maxNeg) %s; admitting a round-trip profit: %s; "
             "%d completed round trips, max (profit - tolerance) within the convention: %s"
             % (all_orderings, profit_orderings, len(model_n),
                max([x["profit"] - x["tol"] for x in model_n if x["conv"]] or [None])))
    tr = ctx.path("replay.ndjson")
    ctx.run_bin("c10", ["replay", "--in", ctx.path("cases.ndjson"), "--out", tr])
    judge(ctx, "MC_PositionC10 domain", tr, 1, acc)
    # 2. sweep where the other traders' open interest comes from real increases
    if not ctx.quick:
        tr = ctx.path("small.ndjson")
        ctx.run_bin("c10", ["small", "--out", tr])
        poslib.stage(ctx, judge, ctx, "small", tr, 1, acc)
    # 3. random configurations / markets at Unit = 100 (both cap orderings)
    n = 2500 if ctx.quick else 40000
    tr = ctx.path("random.ndjson")
    ctx.run_bin("c10", ["random", "--seed", ctx.seed, "--n", n, "--decimals", 2, "--out", tr])
    poslib.stage(ctx, judge, ctx, "random", tr, 2, acc)

    if acc["round_trips"] == 0 and not ctx.violations:
        raise vlib.ToolError("vacuity: no completed round trip in the validated traces")
    ctx.assumptions += [
        "max_positive_position_impact_factor <= max_negative_position_impact_factor is a governance convention, not a "
        "code check; the bounded model enumerates all orderings and only those outside the convention admit a profit; "
        "real-code round trips outside the convention that return a profit are reported as a known finding "
        "(class positive_cap_above_negative_cap), not excluded",
        "tolerance: one base unit of the collateral token for the open plus one base unit of the dearer of collateral "
        "/ pnl token for the close, valued at min prices",
        "no decrease swap; prices unchanged incl. min != max; zero elapsed time (the market clock is asserted unchanged)",
        "small world: u64, Unit = 10 (bounded domain) and Unit = 100 (random); values < 2^31",
    ]
    ctx.cov["trusted_base"] += ["TLC", "harness h-model c10 driver + vmarket (state injection / projection)"]
    return ctx.finish("model_checking",
                      "bounded domain of MC_PositionC10 (side x collateral token x sizes x collaterals x 6 market fixtures x "
                      "6 fee/impact settings x 6 cap orderings x price sets) replayed case by case into the real "
                      "increase + full decrease, plus random markets; distinct = distinct completed round trips "
                      "(pre-state, prices, deposit, size)",
                      extra={"model_cases": len(cases), "cap_orderings_checked": [list(o) for o in all_orderings],
                             "cap_orderings_admitting_profit_in_model": [list(o) for o in profit_orderings],
                             "round_trips_completed": acc["round_trips"],
                             "round_trips_outside_convention": acc["outside_convention"],
                             "max_profit_minus_tolerance_within_convention": acc["max_profit_within_convention"]},
                      exhaustive=False)
