"""C21 Uncommitted market operations never leak into stored state.
Spec: Revertible.tla (storage / buffer / rev / per-slot rev; Begin, Read, Write, Commit, Abandon as in buffer.rs, plus the
deferred mint/burn of the liquidity market), RevertibleProps.tla (ghost = the current operation's own writes; monitors),
MC_Revertible (bounded exhaustive model, prints every transition as a path), Trace_Revertible (TLC trace validation of a
real Market account driven through RevertibleMarket / RevertibleLiquidityMarket)."""
import os
import vlib

OPS = {"begin", "read", "write", "mint", "burn", "commit", "abandon"}


def classify(e, mon):
    return {"monitor": mon, "op": e["op"], "slot": e["slot"], "field": e["field"], "fv": e["fv"], "pure": e["pure"]}


def prefix_of(ev, idx):
    out, want = [], ev[idx - 1]["depth"]
    for j in range(idx - 1, -1, -1):
        if ev[j]["depth"] == want:
            out.append({k: v for k, v in ev[j].items() if k not in ("slot_revs",)})
            want -= 1
            if want < 0:
                break
    return list(reversed(out))


def run(ctx):
    ctx.build("h-programs", "c21")
    if ctx.replay_file:
        ctx.note("replay: the recorded case lies inside the finite domain of this check, which is re-executed as a whole")
    def explore(depth):
        src = open(ctx.spec("MC_Revertible.cfg")).read()
        cfg = "MC_Revertible_run_%s_%d" % (ctx.tier, depth)
        with open(ctx.spec(cfg + ".cfg"), "w") as f:
            f.write(src.replace("Depth = 6", "Depth = %d" % depth))
        try:
            r = ctx.model_check("MC_Revertible", cfg=cfg, workers=8, timeout=1700)
        finally:
            os.remove(ctx.spec(cfg + ".cfg"))
        paths = r.tagged("P")
        seen = {o["op"] for p in paths for o in p}
        if OPS - seen:
            raise vlib.ToolError("vacuity: operations never taken in MC_Revertible: %s" % sorted(OPS - seen))
        pf = ctx.path("paths.%d.ndjson" % depth)
        vlib.write_ndjson(pf, paths)
        return pf, len({vlib.json.dumps(p) for p in paths})

    depth = 6 if ctx.quick else 8
    deep = explore(depth)
    # the model's pool slot is played by different real pool kinds, in a two-token and a single-token market
    if ctx.quick:
        plays = [("primary", 1, deep), ("total_borrowing", 0, deep)]
    else:
        shallow = explore(6)
        kinds = ["primary", "swap_impact", "claimable_fee", "open_interest_for_long", "open_interest_for_short",
                 "open_interest_in_tokens_for_long", "open_interest_in_tokens_for_short", "position_impact", "borrowing_factor",
                 "funding_amount_per_size_for_long", "funding_amount_per_size_for_short",
                 "claimable_funding_amount_per_size_for_long", "claimable_funding_amount_per_size_for_short",
                 "collateral_sum_for_long", "collateral_sum_for_short", "total_borrowing"]
        plays = [(k, 1 - i % 2, deep if k in ("primary", "total_borrowing") else shallow) for i, k in enumerate(kinds)]
    npaths = deep[1]
    for kind, pure, (pf, want) in plays:
        tr = ctx.path("replay.%s.ndjson" % kind)
        out = ctx.run_bin("c21", ["replay", "--in", pf, "--pool", kind, "--pure", pure, "--out", tr])
        vlib.log("  %s pure=%d: %s" % (kind, pure, out.strip()))
        fails, drifts, _ = ctx.validate_trace("Trace_Revertible", tr, timeout=2400, heap="6g")
        ev = vlib.read_ndjson(tr)
        if len(ev) - 1 < want:
            raise vlib.ToolError("replay executed %d operations for %d transitions" % (len(ev) - 1, want))
        ctx.distinct += len(ev) - 1
        if not fails and not any(e["op"] == "commit" and e["events"] == 1 for e in ev):
            raise vlib.ToolError("vacuity: no commit emitted its MarketStateUpdated event")
        ctx.cov["samples"] += [{k: v for k, v in ev[min(len(ev) - 1, 9)].items() if k not in ("storage", "slot_revs")}]
        for f in fails[:100]:      # the first failures are enough to decide and to replay
            ctx.report(classify(ev[f["i"] - 1], f["mon"]),
                       {"driver": "h-programs c21 replay --pool %s --pure %d" % (kind, pure), "events": prefix_of(ev, f["i"])})
    # random histories over all 16 pool kinds, all clocks, all other-state fields, mint / burn, both market kinds
    tr = ctx.path("random.ndjson")
    runs, ln = (10, 300) if ctx.quick else (120, 500)
    ctx.run_bin("c21", ["random", "--seed", ctx.seed, "--n", runs, "--len", ln, "--out", tr])
    fails, drifts, _ = ctx.validate_trace("Trace_Revertible", tr, timeout=2400, heap="6g")
    ev = vlib.read_ndjson(tr)
    slots_written = {(e["slot"], e["field"]) for e in ev if e["op"] == "write"}
    if not fails and (not any(e["op"] == "commit" and e["tok"] for e in ev) or not any(e["op"] == "abandon" for e in ev)):
        raise vlib.ToolError("vacuity: no commit with deferred mint/burn or no abandoned operation in the random histories")
    ctx.cov["slot_fields_written"] = len(slots_written)
    ctx.distinct += len({(e["op"], e["slot"], e["field"], e["fv"], vlib.json.dumps(e["val"]), e["rev"]) for e in ev})
    ctx.cov["samples"] += [{k: v for k, v in ev[len(ev) // 2].items() if k not in ("storage", "slot_revs")}]
    for f in fails[:100]:      # the first failures are enough to decide and to replay
        ctx.report(classify(ev[f["i"] - 1], f["mon"]), {"driver": "h-programs c21 random", "events": prefix_of(ev, f["i"])[-10:]})
    ctx.assumptions += ["operations are driven through RevertibleMarket / RevertibleLiquidityMarket on an in-memory account "
                        "(no virtual inventories, no swap/position wrappers); the instruction-level use is covered by C22/C23",
                        "the event and token CPIs of commit are recorded and swallowed by the sol_invoke_signed stub: "
                        "'supply changes only at commit' is observed as 'the mint/burn CPI is issued only at commit'",
                        "a crash point is an abandoned operation (a Solana transaction is atomic; a failed instruction drops the operation)"]
    ctx.cov["trusted_base"] += ["TLC", "harness h-programs c21 driver", "hooks revertible::{market,liquidity_market}::verif, buffer_verif, pool::verif",
                                "syscall stubs (clock, sol_invoke_signed)"]
    return ctx.finish("model_checking",
                      "every transition of the bounded model (3 slots, values 0..2, mint/burn, depth %d: %d operation sequences) "
                      "replayed on a real Market with the pool slot played by %d pool kinds; random histories over all 18 slots and "
                      "their fields; distinct = distinct path prefixes + distinct (op, slot, field, value, result, revision)"
                      % (depth, npaths, len(plays)), exhaustive=True)
