"""Shared by C07, C08, C12, C13: histories of market operations.

Specs: MarketHist.tla (precise operators), MarketHistProps.tla (monitors + conformance),
MC_OIBook / MC_FundingBack / MC_Funding / MC_Borrowing (bounded models, one per property),
Trace_MarketHist (judges recorded histories; MONFAIL names are prefixed by the property).
Driver: harness/h-model/src/bin/hist.rs (random histories, replay of TLC-printed scripts)."""
import json, os, collections
import vlib

TRACE = "Trace_MarketHist"


# ---------------------------------------------------------------------------------------------
# ledger of the C08 monitors, recomputed here only to CLASSIFY failures for known_findings matching
def _ix(b):
    return 0 if b else 1


def step_in_out(e):
    i, o = [0, 0], [0, 0]
    if not e["ok"]:
        return i, o
    a, r, op = e["arg"], e["r"], e["op"]
    if op == "deposit":
        i = [a["l"], a["s"]]
    elif op == "withdraw":
        o = list(r["wd"])
    elif op == "swap":
        i[_ix(a["long_in"])] = a["amt"]
        o[_ix(not a["long_in"])] = r["sw_out"]
    elif op == "increase":
        i[_ix(e["ps"][a["pos"] - 1]["cl"])] = a["coll"]
        o = list(r["cf"])
    elif op == "decrease":
        o = list(r["cf"])
        o[_ix(r["out_long"])] += r["out"] + r["hold"][0] + r["user"][0]
        o[_ix(r["out2_long"])] += r["out2"] + r["hold"][1] + r["user"][1]
    return i, o


def holdings(m, t):
    return m["liq"][t] + m["simp"][t] + m["fee"][t] + m["col"][0][t] + m["col"][1][t]


def secondary_spill(e):
    """pnl tokens realised for the position (profit and positive impact, taken out of the pool) that did NOT
    leave as secondary output / claimable amounts: they were used to pay costs (paid_in_secondary_output_amount
    of do_pay_for_cost).  Only meaningful when pnl token != collateral token and no swap was executed."""
    r, px = e["r"], e["px"]
    p = e["ps"][e["arg"]["pos"] - 1]
    pp_max = px["lmax"] if p["long"] else px["smax"]
    sec_in = (r["pnl"] // pp_max if r["pnl"] > 0 else 0) + (r["impact"] // pp_max if r["impact"] > 0 else 0)
    return sec_in - r["out2"] - r["hold"][1] - r["user"][1]


def fee_dust(e, prev_r, r):
    """Tokens credited to the pools but never collected by this step, recognised by the MECHANISM of the known
    rounding leak of pay_for_fees_excluding_funding (same criterion as ExchangeProps!DustOf): a successful
    decrease of a position with pnl token != collateral token whose collateral ran out; the collateral-token
    ledger shows an over-credit E with 0 < E <= the fees booked by the report and E * collateral price (min)
    strictly below one pnl-token base unit (min price) at THIS event's prices -- do_pay_for_cost floored the
    unpaid remainder to zero secondary tokens -- while the pnl-token ledger is exact.  Any path qualifies
    (plain close, profit swap, liquidation, insolvent close stopping at a later step; later steps may
    legitimately pay from the secondary output).  A change that books fees paid with pnl tokens in the wrong
    token breaks the pnl-token ledger and is therefore never absorbed.
    Returns [dust_long, dust_short] or None if the step does not have that shape."""
    if not (e["op"] == "decrease" and e["ok"] and prev_r is not None):
        return None
    p = e["ps"][e["arg"]["pos"] - 1]
    tc, tp = _ix(p["cl"]), _ix(p["long"])
    if tc == tp or p["col"] != 0:
        return None
    exc = []
    for t in (0, 1):
        due = e["r"]["fund"] if t == tc else 0
        hi = due - e["r"]["cf"][t]
        lo = -e["r"]["cf"][t]
        d = r[t] - prev_r[t]
        # with a reported insufficient funding payment the funding collected is anywhere in 0..due
        exc.append(hi - d if e["ncb"] == 0 else max(0, lo - d) if d < lo else (0 if d <= hi else hi - d))
    pc = e["px"]["lmin"] if tc == 0 else e["px"]["smin"]
    pp = e["px"]["lmin"] if tp == 0 else e["px"]["smin"]
    if 0 < exc[tc] <= e["r"]["fee_ex"] and exc[tp] == 0 and exc[tc] * pc < pp:
        return exc
    return None


def residuals(ev):
    """per event: ([R_long, R_short], callback seen so far in this history, cumulative fee dust [l, s])"""
    out, led, prev_r, dust = [], None, None, [0, 0]
    for e in ev:
        if e["reset"] or led is None:
            led = {"in": [0, 0], "out": [0, 0], "cb": False}
            prev_r, dust = None, [0, 0]
        i, o = step_in_out(e)
        for t in (0, 1):
            led["in"][t] += i[t]
            led["out"][t] += o[t]
        if e["ncb"]:
            led["cb"] = True
        r = [led["in"][t] - led["out"][t] - holdings(e["m"], t) for t in (0, 1)]
        d = fee_dust(e, prev_r, r)
        if d:
            dust = [dust[0] + d[0], dust[1] + d[1]]
        out.append((r, led["cb"], list(dust), d))
        prev_r = r
    return out


def pending_owed(e, t):
    return sum(p["pf"][0] for p in e["ps"] if p["size"] > 0 and _ix(p["cl"]) == t and p["pf_ok"])


def pending_claimable(e, t):
    return sum(p["pf"][1 + t] for p in e["ps"] if p["size"] > 0 and p["pf_ok"])


def classify(ev, res, idx, mon):
    e = ev[idx]
    v = {"monitor": mon, "op": e["op"], "ok": e["ok"], "run": e["run"], "step": e["step"], "unit": e["unit"]}
    if e["op"] == "decrease":
        v["liq"] = e["arg"]["liq"]
        v["remove"] = e["r"]["remove"]
    r, _, dust, d = res[idx]
    if mon == "C08.Conserved":
        v["class"] = "fee_remainder_below_one_secondary_token" if d else "other"
        v["excess"] = d
    elif mon == "C08.ResidualLiteral":
        if all(r[t] + pending_owed(e, t) >= 0 for t in (0, 1)):
            v["class"] = "claimed_before_payers_settled"
        elif all(r[t] + dust[t] + pending_owed(e, t) >= 0 for t in (0, 1)):
            v["class"] = "after_fee_remainder_dust"
        else:
            v["class"] = "unbacked"
        v["residual"] = r
    elif mon == "C08.ResidualBacked":
        if all(r[t] + dust[t] + pending_owed(e, t) - pending_claimable(e, t) >= 0 for t in (0, 1)):
            v["class"] = "after_fee_remainder_dust"
        else:
            v["class"] = "unbacked"
        v["residual"] = r
    return v


# ---------------------------------------------------------------------------------------------
def split_runs(ops):
    runs, cur = [], None
    for o in ops:
        if o.get("op") == "reset":
            cur = [o]
            runs.append(cur)
        elif cur is not None:
            cur.append(o)
    return runs


def prefix_for(run_ops, step):
    """ops of one run up to and including the one that produced event number `step`"""
    out, n = [], 0
    for o in run_ops:
        out.append(o)
        if o.get("op") not in ("reset", "price"):
            n += 1
            if n >= step:
                break
    return out


class Batch:
    """one recorded trace + the operation records that produced it"""
    def __init__(self, name, trace, ops, cfg=None):
        self.name, self.trace, self.ops, self.cfg = name, trace, ops, cfg


def random_batch(ctx, name, d, n, runs, seed):
    tr, ops = ctx.path(name + ".ndjson"), ctx.path(name + ".ops.ndjson")
    out = ctx.run_bin("hist", ["random", "--seed", seed, "--n", n, "--runs", runs, "--d", d, "--out", tr, "--ops", ops])
    vlib.log("  " + out.strip())
    return Batch(name, tr, ops, cfg=None if d == 1 else "Trace_MarketHist_d2")


def replay_batch(ctx, name, op_rows):
    ops, tr = ctx.path(name + ".ops.ndjson"), ctx.path(name + ".ndjson")
    vlib.write_ndjson(ops, op_rows)
    out = ctx.run_bin("hist", ["replay", "--in", ops, "--out", tr])
    vlib.log("  " + out.strip())
    return Batch(name, tr, ops)


def merge_batches(ctx, name, batches):
    """one trace (and one ops file) out of several, runs renumbered: one TLC start judges them all"""
    if len(batches) == 1:
        return batches[0]
    tr, ops = ctx.path(name + ".ndjson"), ctx.path(name + ".ops.ndjson")
    base = 0
    with open(tr, "w") as ft, open(ops, "w") as fo:
        for b in batches:
            nruns = 0
            for line in open(b.ops):
                if line.strip():
                    fo.write(line if line.endswith("\n") else line + "\n")
                    if '"reset"' in line and json.loads(line).get("op") == "reset":
                        nruns += 1
            for line in open(b.trace):
                if not line.strip():
                    continue
                e = json.loads(line)
                e["run"] += base
                ft.write(json.dumps(e, separators=(",", ":")) + "\n")
            base += nruns
    return Batch(name, tr, ops, cfg=batches[0].cfg)


def scripts_to_ops(scripts, reset, prologue):
    rows = []
    for s in scripts:
        r = dict(reset)
        if isinstance(s, dict) and "bp" in s:
            r["bp"] = s["bp"]
        rows.append(r)
        rows += prologue
        rows += list(s["ops"])
    return rows


def funding_scenarios(patterns, limit):
    """open payers (long side, larger) and receivers (short side), let funding accrue over one period,
    then settle everybody -- receivers first or payers first; sizes come from MC_FundingBack's patterns"""
    seen, pats = set(), []
    for p in patterns:
        k = (p["s1"], p["s2"], p["r1"], p["r2"], p["dt"])
        if k not in seen:
            seen.add(k)
            pats.append(p)
    step = max(1, len(pats) // limit)
    rows = []
    for n, p in enumerate(pats[::step]):
        cl = n % 2 == 0                       # payers' collateral token
        pay = [(1 if cl else 2, 300 + 3 * p["s1"])] + ([(5 if cl else 6, 200 + 2 * p["s2"])] if p["s2"] else [])
        rcv = ([(3, 20 + p["r1"])] if p["r1"] else []) + ([(8, 20 + p["r2"])] if p["r2"] else [])
        rows += [dict(RESET, fp=(0 if n % 3 else 7)), {"op": "init"}, {"op": "deposit", "l": 400, "s": 4000}]
        for slot, size in pay + rcv:
            coll_long = slot % 2 == 1
            usd = size if (slot, size) in pay else size // 2      # payers fully collateralised: they can pay
            rows.append({"op": "increase", "pos": slot, "size": size, "coll": (usd // 10 + 1) if coll_long else usd + 1})
        rows += [{"op": "update_funding"}, {"op": "tick", "dt": p["dt"]}, {"op": "update_funding"}]
        order = (rcv + pay) if n % 4 < 2 else (pay + rcv)
        for slot, _ in order:
            rows.append({"op": "decrease", "pos": slot, "size": 100000, "cap": True, "wd": 0})
    return rows


def cross_collateral_scenarios(n):
    """cross-collateral positions (long backed by the short token, short backed by the long token) that
    are partially decreased / topped up / partially withdrawn AFTER funding accrued, with either side paying"""
    rows = []
    pairs = [(3, 2), (2, 3), (7, 6), (6, 7), (3, 6), (2, 7)]          # (payer slot = larger side, receiver slot)
    for k in range(n):
        a, b = pairs[k % len(pairs)]
        big, small = 300 + 17 * (k % 7), 60 + 9 * (k % 5)
        dt = 1 + k % 2
        fp = (0, 7, 2, 3)[k % 4]
        def inc(slot, size, usd):
            return {"op": "increase", "pos": slot, "size": size, "coll": (usd // 10 + 1) if slot % 2 == 1 else usd + 1}
        def dec(slot, size, wd=0):
            return {"op": "decrease", "pos": slot, "size": size, "wd": wd}
        rows += [dict(RESET, fp=fp), {"op": "init"}, {"op": "deposit", "l": 400, "s": 4000},
                 inc(a, big, big), inc(b, small, small),
                 {"op": "update_funding"}, {"op": "tick", "dt": dt}, {"op": "update_funding"},
                 dec(b, small // 3), dec(a, big // 3),
                 {"op": "tick", "dt": 1}, {"op": "update_funding"},
                 dec(b, 0, 1), dec(a, 0, 1), inc(b, 20, 0), dec(b, small // 4), dec(a, big // 4),
                 # flip the paying side: the former receiver grows past the former payer
                 inc(b, 2 * big, 2 * big), {"op": "tick", "dt": dt}, {"op": "update_funding"},
                 dec(a, big // 5), dec(b, big // 3), {"op": "tick", "dt": 1}, {"op": "update_funding"},
                 dec(a, 100000) | {"cap": True}, dec(b, 100000) | {"cap": True}]
    return rows


def fee_spill_scenarios(n):
    """cross-collateral positions closed IN PROFIT without the profit->collateral swap while their collateral
    (whose token lost value) no longer covers the order fees: the fees spill into the secondary output.
    A larger opposite position is opened first, so the target's open improves the balance (cheap) and its
    close worsens it (the higher fee factor applies)."""
    fees = {2: (1, 2), 3: (1, 1), 4: (2, 3)}            # order fee factors (improved, worsened) in tenths at DECIMALS = 1
    rows = []
    for k in range(n):
        fe = (4, 2, 4, 3)[k % 4]
        pos_f, neg_f = fees[fe]
        size = 400 + 50 * (k % 5)
        usd = size * (pos_f + neg_f + 1) // 10 + 20 + 10 * (k % 3)      # open fee + hypothetical close fee + 10 % + a bit
        rows += [dict(RESET, fe=fe, fp=4 if k % 3 else 0, bp=2 if k % 2 else 1), {"op": "init"}]
        if k % 2 == 0:
            # long backed by the short token: index up, short token 3 -> 1
            slot, opp = (2 if k % 4 else 6), 4
            rows += [{"op": "price", "imin": 10, "lmin": 10, "smin": 3}, {"op": "deposit", "l": 500, "s": 2000},
                     {"op": "increase", "pos": opp, "size": 2 * size, "coll": (2 * size * 12 // 10) // 3 + 1},
                     {"op": "increase", "pos": slot, "size": size, "coll": usd // 3 + 1},
                     {"op": "update_funding"}, {"op": "update_borrowing"}, {"op": "tick", "dt": 1},
                     {"op": "price", "imin": 13 + k % 3, "lmin": 13 + k % 3, "smin": 1},
                     {"op": "update_borrowing"}]
        else:
            # short backed by the long (= index) token: both fall 12 -> 6..7
            slot, opp = (3 if k % 4 == 1 else 7), 1
            rows += [{"op": "price", "imin": 12, "lmin": 12, "smin": 1}, {"op": "deposit", "l": 600, "s": 5000},
                     {"op": "increase", "pos": opp, "size": 2 * size, "coll": (2 * size * 12 // 10) // 12 + 1},
                     {"op": "increase", "pos": slot, "size": size, "coll": usd // 12 + 1},
                     {"op": "update_funding"}, {"op": "update_borrowing"}, {"op": "tick", "dt": 1},
                     {"op": "price", "imin": 6 + k % 2, "lmin": 6 + k % 2, "smin": 1},
                     {"op": "update_borrowing"}]
        if k % 5 == 0:
            rows.append({"op": "decrease", "pos": slot, "size": size // 2, "wd": 0, "swap": 0})       # partial first
        rows += [{"op": "decrease", "pos": slot, "size": size, "wd": 0, "swap": 0, "cap": True},
                 {"op": "decrease", "pos": opp, "size": 100000, "cap": True, "wd": 0, "ins": True}]
    return rows


def solvent_liquidation_scenarios(n):
    """DECIMALS = 2 world (liquidation fee 1-2 % < min collateral factor 5 %): a position opened at 10x is made
    liquidatable by a 4 % adverse move while its collateral still covers the loss, the order fee AND the
    liquidation fee; it is then closed with the liquidation flag (fees fully payable in the collateral token)"""
    rows = []
    for k in range(n):
        fe = 2 if k % 2 == 0 else 3
        slot = (2, 4, 6, 8)[k % 4]                      # short-token collateral (price 1): long, short, long, short
        long = slot in (2, 6)
        size = 1000 + 100 * (k % 4)
        rows += [dict(RESET, d=2, fe=fe, fp=4, bp=2 if k % 3 else 1, ip=0), {"op": "init"},
                 {"op": "price", "imin": 100, "lmin": 100, "smin": 1}, {"op": "deposit", "l": 100, "s": 10000},
                 {"op": "increase", "pos": slot, "size": size, "coll": size // 10 + (k % 3)},
                 {"op": "update_borrowing"}, {"op": "tick", "dt": 1},
                 {"op": "decrease", "pos": slot, "size": size, "liq": True, "ins": True},          # healthy: must be refused
                 {"op": "price", "imin": 96 if long else 104, "lmin": 96 if long else 104, "smin": 1},
                 {"op": "decrease", "pos": slot, "size": size, "liq": True, "ins": k % 2 == 0}]
    return rows


def judge(ctx, pid, batch, stats):
    """validate one batch; report this property's monitor failures; collect statistics"""
    fails, drifts, _ = ctx.validate_trace(TRACE, batch.trace, cfg=batch.cfg)
    ev = vlib.read_ndjson(batch.trace)
    res = residuals(ev)
    runs = split_runs(vlib.read_ndjson(batch.ops))
    mine = [f for f in fails if f["mon"].startswith(pid + ".")]
    others = collections.Counter(f["mon"] for f in fails if not f["mon"].startswith(pid + "."))
    if others:
        vlib.log("  (failures of other properties' monitors on this trace, judged by their own checks: %s)" % dict(others))
    new_per_mon = collections.Counter()
    for f in mine:
        idx = f["i"] - 1
        e = ev[idx]
        v = classify(ev, res, idx, f["mon"])
        v["conforms"] = f.get("conforms", True)
        if vlib.match_known(pid, v) is None:
            new_per_mon[f["mon"]] += 1
            if new_per_mon[f["mon"]] > 3:
                continue            # same monitor again: keep the first few replay files only
        run_ops = runs[e["run"] - 1] if e["run"] - 1 < len(runs) else []
        ctx.report(v, {"driver": "hist replay --in <ops as ndjson>", "trace_cfg": batch.cfg or TRACE,
                       "ops": prefix_for(run_ops, e["step"]), "event": e})
    collect(stats, ev)
    if ev:
        ctx.cov["samples"] += [_slim(ev[len(ev) // 2])]
    return ev


def _slim(e):
    return {k: e[k] for k in ("run", "step", "op", "arg", "ok", "err", "r", "f", "m")}


def collect(st, ev):
    prev = None
    seen_cb = False
    for e in ev:
        if e["reset"]:
            prev, seen_cb = None, False
        op, a, r = e["op"], e["arg"], e["r"]
        st["ops"][(op, e["ok"])] += 1
        if op in ("increase", "decrease") and e["ok"]:
            p = e["ps"][a["pos"] - 1]
            st["pos_ok"].add((op, p["long"], p["cl"], r["dusd"], r["dtok"], p["size"], p["tok"], p["col"]))
            if op == "decrease":
                if r["remove"]:
                    st["removed"] += 1
                if prev is not None:
                    q = prev["ps"][a["pos"] - 1]
                    if r["dusd"] == q["size"] and a["size"] < q["size"]:
                        st["promoted"] += 1
                    if a["size"] > q["size"]:
                        st["capped"] += 1
                    if r["dusd"] > 0 and r["dtok"] == 0:
                        st["zero_tok_delta"] += 1
                if a["size"] == 0:
                    st["collateral_only"] += 1
                if a["liq"]:
                    st["liquidations"] += 1
                if r["insolv"]:
                    st["insolvent"] += 1
                if a["liq"] and not r["insolv"] and r["fee_ex"] > 0 and e["c"].get("l_factor", 0) > 0 and e["c"].get("l_recv") != e["unit"] // 2:
                    st["solvent_liquidation_with_liq_fee"] += 1
                p1 = e["ps"][a["pos"] - 1]
                if (p1["long"] != p1["cl"] and not r["insolv"] and "swap" not in e["cbs"] and r["pnl"] > 0
                        and secondary_spill(e) > 0 and r["hold"][1] == 0):
                    # costs other than funding were partly paid with profit tokens and the close completed
                    st["fees_paid_from_secondary"] += 1
            if r["fund"] > 0:
                st["funding_collected"] += 1
            if r["cf"][0] + r["cf"][1] > 0:
                st["funding_claimed"] += 1
        if op in ("increase", "decrease") and not e["ok"]:
            st["failed_attempts"] += 1
            if e["pp"]["has"]:
                st["partial_states"] += 1
        if op == "decrease" and e["ok"] and not r["remove"] and prev is not None:
            p = e["ps"][a["pos"] - 1]
            q0 = prev["ps"][a["pos"] - 1]
            if p["long"] != p["cl"] and q0["pf_ok"] and (sum(q0["pf"]) > 0 or p["fps"] > 0):
                # cross-collateral position partially decreased after funding accrued; which side had been paying
                st["cross_partial_" + ("payer" if q0["pf"][0] > 0 or p["fps"] > q0["fps"] else "receiver")] += 1
        if e["ncb"]:
            st["callbacks"] += e["ncb"]
            seen_cb = True
        if not seen_cb and any(p["size"] > 0 and sum(p["pf"]) > 0 for p in e["ps"]):
            st["backed_states"] += 1
        f = e["f"]
        if f["has"] and f["ok"] and f["L"] > 0 and f["S"] > 0:
            key = "adaptive" if e["c"]["f_inc"] > 0 else "fixed"
            st["rate_" + key].add((f["L"], f["S"], f["dt"], f["stored"], e["c"]["f_max"], e["c"]["f_min"], e["c"]["f_factor"], f["rate"], f["lp"]))
            if f["rate"] > 0:
                st["rate_pos_" + key] += 1
        if f["has"] and not f["ok"]:
            st["rate_failed"] += 1
        if prev is not None and e["m"]["fps"] != prev["m"]["fps"]:
            st["index_moves"] += 1
        if prev is not None and e["m"]["bf"] != prev["m"]["bf"]:
            st["bf_moves"].add((tuple(prev["m"]["bf"]), tuple(e["m"]["bf"]), tuple(map(tuple, e["m"]["oi"]))))
        if any(p["size"] > 0 and p["bf"] > 0 for p in e["ps"]):
            st["borrowing_states"] += 1
        if e["b"]["l"] + e["b"]["s"] > 0:
            st["pending_borrowing_pos"] += 1
        prev = e


def new_stats():
    st = collections.defaultdict(int)
    st["ops"] = collections.Counter()
    for k in ("pos_ok", "rate_adaptive", "rate_fixed", "bf_moves"):
        st[k] = set()
    return st


def need(cond, what):
    if not cond:
        raise vlib.ToolError("vacuity: " + what)


# ---------------------------------------------------------------------------------------------
RESET = {"op": "reset", "d": 1, "fp": 4, "bp": 2, "fe": 0, "ip": 0}


def run(ctx, pid):
    ctx.build("h-model", "hist")
    st = new_stats()
    q = ctx.quick
    batches = []

    if ctx.replay_file:
        rp = json.load(open(ctx.replay_file))
        b = replay_batch(ctx, "replay", rp["replay"]["ops"])
        b.cfg = rp["replay"].get("trace_cfg")
        if b.cfg == TRACE:
            b.cfg = None
        judge(ctx, pid, b, st)
        ctx.distinct += 2
        return ctx.finish("exploration", "replay of one recorded history", exhaustive=False)

    # ---- 1. bounded model of the mechanism (design satisfies the monitors; tolerances calibrated)
    if pid == "C07":
        r = ctx.model_check("MC_OIBook", cfg="MC_OIBook", workers=8, timeout=1500, coverage=False)
        scripts = r.tagged("T")
        if not q:
            # long behaviours (up to 40 operations): TLC simulation of the same model, bounded by wall time
            sim = ctx.model_check("MC_OIBook", cfg="MC_OIBook_sim", workers=8, timeout=900, coverage=False,
                                  simulate="num=100000000", count=False,
                                  env={"JAVA_TOOL_OPTIONS": "-Xss1g -Dtlc2.TLC.stopAfter=240"})
            m = [l for l in sim.raw.splitlines() if l.startswith("The number of states generated:")]
            need(m, "MC_OIBook simulation did not report its state count")
            ctx.transitions += int(m[-1].split(":")[1].strip().replace(",", ""))
            long_scripts = sim.tagged("T")[:600]
            need(len(long_scripts) >= 50, "MC_OIBook simulation printed only %d scripts" % len(long_scripts))
            scripts = scripts + long_scripts
        need(len(scripts) >= 20, "MC_OIBook printed only %d scripts" % len(scripts))
        kinds = collections.Counter(o["op"] for s in scripts for o in s["ops"])
        need(kinds["increase"] and kinds["decrease"] and kinds["price"], "MC_OIBook scripts lack an operation kind: %s" % dict(kinds))
        # the same model without the "token size would reach zero" promotion must break C07
        neg = vlib.tlc(ctx.spec("MC_OIBook.tla"), ctx.spec("MC_OIBook_neg.cfg"), workers=4, timeout=600)
        need(neg.violated in ("InvOIUsd", "InvOITokens"), "MC_OIBook_neg (promotion removed) did not violate C07: %s" % (neg.violated or neg.error))
        vlib.log("  tlc MC_OIBook_neg: violates %s as expected (bookkeeping without the promotion rule)" % neg.violated)
        prologue = [{"op": "init"}, {"op": "deposit", "l": 300, "s": 3000}]
        batches.append(replay_batch(ctx, "oibook", scripts_to_ops(scripts, RESET, prologue)))
        for fe, ip in ((2, 1), (1, 2)):       # the same scripts under fees / price impact
            rs = dict(RESET, fe=fe, ip=ip, bp=1, fp=0)
            batches.append(replay_batch(ctx, "oibook_f%d%d" % (fe, ip), scripts_to_ops(scripts[:: (3 if q else 1)], rs, prologue)))
    elif pid == "C08":
        r = ctx.model_check("MC_FundingBack", cfg="MC_FundingBack" if q else "MC_FundingBack_thorough", workers=8,
                            timeout=1500, coverage=False)
        pats = r.tagged("T")
        need(len(pats) > 100, "MC_FundingBack printed only %d patterns" % len(pats))
        batches.append(replay_batch(ctx, "funding_scenarios", funding_scenarios(pats, 250 if q else 2500)))
        batches.append(replay_batch(ctx, "fee_spill", fee_spill_scenarios(60 if q else 600)))
        b2 = replay_batch(ctx, "solvent_liq", solvent_liquidation_scenarios(40 if q else 400))
        b2.cfg = "Trace_MarketHist_d2"
        batches.append(b2)
    elif pid == "C12":
        r = ctx.model_check("MC_Funding", cfg="MC_Funding" if q else "MC_Funding_thorough", workers=8,
                            timeout=1500, coverage=False)
        probes = r.tagged("T")
        ch = collections.Counter(p["ch"] for p in probes)
        for k in ("inc", "dec", "none", "fixed", "zero", "fail"):
            need(ch[k] > 0, "MC_Funding never took branch %s" % k)
        need(any(p["ch"] == "fixed" and p["rate"] < p["f_min"] and p["ok"] for p in probes),
             "no non-adaptive probe below the configured minimum")
        batches.append(replay_batch(ctx, "probes", [RESET, {"op": "init"}] + probes))
        batches.append(replay_batch(ctx, "cross_collateral", cross_collateral_scenarios(48 if q else 480)))
    elif pid == "C13":
        r = ctx.model_check("MC_Borrowing", cfg="MC_Borrowing" if q else "MC_Borrowing_thorough", workers=8,
                            timeout=1500, coverage=False)
        scripts = r.tagged("T")
        need(len(scripts) >= 10, "MC_Borrowing printed only %d scripts" % len(scripts))
        need(len({s["bp"] for s in scripts}) >= 3, "MC_Borrowing scripts do not cover all borrowing models")
        prologue = [{"op": "init"}, {"op": "deposit", "l": 12, "s": 130}]
        batches.append(replay_batch(ctx, "borrowing", scripts_to_ops(scripts, RESET, prologue)))

    # ---- 2. random histories of the real code (all four properties are judged on histories)
    seed = int(ctx.seed)
    if q:
        batches.append(random_batch(ctx, "hist_d1", 1, 5000, 100, seed))
    else:
        for k in range(4):
            batches.append(random_batch(ctx, "hist_d1_%d" % k, 1, 12000, 240, seed + k))
        for k in range(2):
            batches.append(random_batch(ctx, "hist_d2_%d" % k, 2, 12000, 200, seed + 100 + k))

    last = None
    groups = collections.OrderedDict()
    for b in batches:
        groups.setdefault(b.cfg, []).append(b)
    for cfg, bs in groups.items():
        # thorough: keep each trace file at a size TLC reads comfortably
        chunk = 1 if not q and len(bs) > 2 else len(bs)
        for k in range(0, len(bs), chunk):
            ev = judge(ctx, pid, merge_batches(ctx, "all_%s_%d" % (cfg or "d1", k), bs[k:k + chunk]), st)
            last = ev or last

    # ---- 3. vacuity: the antecedents of this property's monitors were exercised (a defect that makes
    #         whole classes of operations fail must surface as its violation, not as a vacuity error)
    ops = st["ops"]
    need_v = (lambda cond, what: None) if ctx.violations else need
    if pid == "C07":
        need_v(st["removed"] > 5 and st["promoted"] > 0 and st["collateral_only"] > 0 and st["liquidations"] > 0
             and st["failed_attempts"] > 10 and st["capped"] > 0,
             "C07 history classes missing: %s" % {k: st[k] for k in ("removed", "promoted", "collateral_only", "liquidations", "failed_attempts", "capped")})
        ctx.distinct += len(st["pos_ok"])
        rule = ("distinct = distinct successful position operations (side, collateral token, executed size delta in "
                "USD and tokens, resulting position); histories: TLC-printed scripts of MC_OIBook replayed under 3 fee/"
                "impact configurations + seeded random histories over 8 position slots (2 owners x side x collateral)")
    elif pid == "C08":
        need_v(st["solvent_liquidation_with_liq_fee"] > 5, "C08: no solvent liquidation with a liquidation fee whose fees were booked (%d)" % st["solvent_liquidation_with_liq_fee"])
        need_v(st["fees_paid_from_secondary"] > 5, "C08: no close paid its fees partly from the secondary output (%d)" % st["fees_paid_from_secondary"])
        need_v(st["funding_collected"] > 5 and st["funding_claimed"] > 5 and st["backed_states"] > 50 and ops[("swap", True)] > 0
             and ops[("withdraw", True)] > 0, "C08 history classes missing: collected=%d claimed=%d backed_states=%d" % (
                 st["funding_collected"], st["funding_claimed"], st["backed_states"]))
        ctx.distinct += len(st["pos_ok"]) + ops[("swap", True)] + ops[("withdraw", True)] + ops[("deposit", True)]
        rule = ("distinct = distinct successful token-moving operations (position operations by resulting state, "
                "deposits, withdrawals, swaps); the ledger identity is checked on every step, the backing inequality on "
                "every state before the first reported insufficient funding payment")
    elif pid == "C12":
        need_v(len(st["rate_adaptive"]) > 20 and len(st["rate_fixed"]) > 20 and st["rate_pos_fixed"] > 5
             and st["rate_pos_adaptive"] > 5 and st["index_moves"] > 5 and st["rate_failed"] > 0
             and st["partial_states"] > 5 and st["cross_partial_payer"] > 5 and st["cross_partial_receiver"] > 5,
             "C12 classes missing: adaptive=%d fixed=%d moves=%d failed=%d partial=%d cross-collateral partial decreases payer=%d receiver=%d" % (
                 len(st["rate_adaptive"]), len(st["rate_fixed"]), st["index_moves"], st["rate_failed"], st["partial_states"],
                 st["cross_partial_payer"], st["cross_partial_receiver"]))
        ctx.distinct += len(st["rate_adaptive"]) + len(st["rate_fixed"])
        rule = ("distinct = distinct (long OI, short OI, duration, stored rate, parameters, resulting rate, payer) tuples "
                "evaluated by the real next_funding_factor_per_second with both sides non-empty (TLC-printed probes + "
                "update_funding steps of random histories); index monotonicity and pending-fee monitors on every step/state")
    else:
        need_v(len(st["bf_moves"]) > 5 and st["borrowing_states"] > 50 and st["pending_borrowing_pos"] > 20,
             "C13 classes missing: factor moves=%d states with accrued factor=%d positive pending=%d" % (
                 len(st["bf_moves"]), st["borrowing_states"], st["pending_borrowing_pos"]))
        ctx.distinct += len(st["bf_moves"]) + len(st["pos_ok"])
        rule = ("distinct = distinct cumulative-factor updates (factors before/after, open interest) + distinct successful "
                "position operations (each re-stamps a position and updates total borrowing); states judged: every event")

    if last:
        ctx.cov["samples"].append(_slim(last[-1]))
    ctx.cov["history_classes"] = {k: (len(v) if isinstance(v, set) else (dict(("%s/%s" % kk, vv) for kk, vv in v.items()) if isinstance(v, collections.Counter) else v))
                                  for k, v in st.items()}
    ctx.assumptions += [
        "gmsol-model's increase/decrease/deposit are not atomic: the driver discards a failed action's partial state "
        "(clone market + position before, restore on Err/panic) exactly as the programs do with their revertible market",
        "small world: the repository's generic code instantiated at u64 with DECIMALS = 1 (quick) and 1, 2 (thorough); "
        "amounts and prices small enough for 32-bit TLC integers; type-limit overflow is not part of these properties' histories",
        "position slots: 2 owners x {long, short} x {long-token, short-token collateral}; virtual inventories absent",
        "funding/borrowing/impact/fee configurations are drawn from fixed presets (hist.rs Cfg::presets)"]
    ctx.cov["trusted_base"] += ["TLC", "h-model vmarket (deterministic market: copy of the repo's test market)",
                                "hist driver (projection of state and reports, atomicity wrapper)"]
    return ctx.finish("model_checking", rule, exhaustive=False)
