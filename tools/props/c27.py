"""C27 Market openness follows the per-feed status policy and freshness.
Spec: FeedOpen.tla (meaning over unbounded integers + the code's saturating version), FeedOpenProps.tla
(monitors), MC_FeedOpen (saturating == exact on a scaled integer world incl. both limits),
Trace_FeedOpen (TLC, small timestamps), Wide_FeedOpen (Apalache, i64/u32 limits)."""
import copy, os
from concurrent.futures import ThreadPoolExecutor
import vlib

SCHEMA = {"op": "Str", "st": "Int", "flags": "Int", "hi": "Int", "openf": "Bool", "tracking": "Bool", "secs": "Bool",
          "diff": "Int", "ts": "Int", "now": "Int", "timeout": "Int", "open": "Bool", "res": "Str", "panic": "Bool"}


def classify(e, mon):
    return {"monitor": mon, "op": e["op"], "st": e["st"], "flags": e["flags"], "openf": e["openf"],
            "tracking": e["tracking"], "secs": e["secs"], "diff": str(e["diff"]), "ts": str(e["ts"]),
            "now": str(e["now"]), "timeout": str(e["timeout"]), "open": e["open"]}


def key(e):
    return tuple(str(e[k]) for k in ("op", "st", "flags", "hi", "openf", "tracking", "secs", "diff", "ts", "now", "timeout"))


def wide_chunk(ctx, k, events):
    c = copy.copy(ctx)
    c.wd = ctx.path("wide-%d" % k)
    os.makedirs(c.wd, exist_ok=True)
    return vlib.apalache_events(c, "Wide_FeedOpen", ["FeedOpen", "FeedOpenProps"], events, SCHEMA, "CInit",
                                ["bad", "drift"], timeout=900, chunk=100)


def run(ctx):
    ctx.build("h-model", "c27")
    n_wide = 100 if ctx.quick else 1000
    wp = ctx.path("wide.ndjson")
    ctx.run_bin("c27", ["wide", "--seed", ctx.seed, "--n", n_wide, "--out", wp])
    wev = vlib.read_ndjson(wp)
    chunks = [wev[i:i + 100] for i in range(0, len(wev), 100)]
    pool = ThreadPoolExecutor(max_workers=1 if ctx.quick else 2)
    futs = [pool.submit(wide_chunk, ctx, k, ch) for k, ch in enumerate(chunks)]

    # 1. design: the saturating arithmetic equals the exact meaning on a scaled world, all values incl. limits
    ctx.model_check("MC_FeedOpen", cfg="MC_FeedOpen" if ctx.quick else "MC_FeedOpen_thorough", workers=6, timeout=1500)
    # 2. real code on the exhaustive small domain + random mid-size values, judged by TLC
    tr = ctx.path("small.ndjson")
    ctx.run_bin("c27", ["small", "--level", 0 if ctx.quick else 2, "--out", tr])
    rnd = ctx.path("random.ndjson")
    ctx.run_bin("c27", ["random", "--seed", ctx.seed, "--n", 5000 if ctx.quick else 100000, "--out", rnd])
    for path, drv in ((tr, "h-model c27 small"), (rnd, "h-model c27 random --seed %s" % ctx.seed)):
        fails, drifts, _ = ctx.validate_trace("Trace_FeedOpen", path, timeout=1500)
        ev = vlib.read_ndjson(path)
        ctx.distinct += len({key(e) for e in ev})
        ctx.cov["samples"] += [ev[len(ev) // 3], ev[-1]]
        n_open = sum(1 for e in ev if e["op"] == "is_open" and e["open"])
        if n_open == 0 or n_open == len(ev):
            raise vlib.ToolError("vacuity: is_market_open never %s in %s" % ("true" if n_open == 0 else "false", path))
        for f in fails:
            e = ev[f["i"] - 1]
            ctx.report(classify(e, f["mon"]), {"driver": drv, "event": e})
    # 3. wide tier
    for k, fu in enumerate(futs):
        res = fu.result()
        part = chunks[k]
        ctx.evaluations += len(part)
        for i in res["bad"]:
            e = part[i - 1]
            ctx.report(classify(e, "Wide"), {"driver": "h-model c27 wide --seed %s" % ctx.seed, "event": e})
        if res["drift"]:
            ctx.drift += len(res["drift"])
            ctx.drift_first = ctx.drift_first or part[res["drift"][0] - 1]
    pool.shutdown()
    ctx.distinct += len({key(e) for e in wev})
    ctx.cov["samples"] += [wev[0], wev[len(wev) // 2]]
    ctx.assumptions += ["timestamps near the 64-bit limits are a boundary-biased sample judged by Apalache; the small "
                        "domain (all status bytes x all 64 policy sets x price flags x small signed timestamps) is exhaustive",
                        "an invalid stored status byte is produced by writing the byte at its offset in the zero-copy struct"]
    ctx.cov["trusted_base"] += ["TLC", "Apalache/Z3", "harness h-model c27 driver"]
    return ctx.finish("model_checking",
                      "small tier: 3 policies x all (open, tracking, secs, diff, ts, now, timeout) small tuples + every "
                      "status byte class x all 64 policy sets; random mid-size; wide tier: %d boundary-biased calls; "
                      "distinct = distinct argument tuples" % len(wev),
                      extra={"wide_events": len(wev)}, exhaustive=False)
