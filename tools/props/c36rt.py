"""C36, instruction-level binding on the in-process runtime (helper module, not a registered property).
`run_rt(ctx)` builds and runs harness/h-runtime/src/bin/c36rt.rs (real timelock + store entrypoints, a recording
probe program as callee), lets TLC judge the trace with Trace_TimelockRt (TimelockProps monitors, names prefixed
"rt."), reports failures through ctx.report and adds counts to ctx. Returns nothing."""
import json
import vlib


def classify(e, mon):
    b = e["pre"]["buf"][e["b"] - 1] if e["b"] else None
    return {"monitor": mon, "op": e["op"], "ok": e["ok"], "state": b["st"] if b else "", "binding": "runtime"}


def run_rt(ctx):
    ctx.build("h-runtime", "c36rt")
    tr = ctx.path("rt.trace.ndjson")
    out = ctx.run_bin("c36rt", ["run", "--seed", ctx.seed, "--n", 4000 if ctx.quick else 40000, "--len", 40, "--out", tr])
    vlib.log("  c36rt: %s" % out.strip().splitlines()[-1])
    fails, drifts, _ = ctx.validate_trace("Trace_TimelockRt", tr, timeout=2400)
    ev = vlib.read_ndjson(tr)
    stats = {"executed": 0, "execute_too_early": 0, "execute_approver_revoked": 0, "execute_unapproved": 0,
             "approve_twice": 0, "approve_without_role": 0, "rerun_closed": 0, "create_bad_signer": 0,
             "delay_increased": 0, "recreated": 0, "delivered_with_wallet_signer": 0, "batch_variants": 0,
             "executed_readonly_signer": 0, "increase_from_above_30_days": 0, "increase_overflow_rejected": 0}
    for e in ev:
        pre = e["pre"]
        b = pre["buf"][e["b"] - 1] if e["b"] else None
        stats["batch_variants"] += e["via"] == "batch" and e["op"] in ("approve", "cancel") and e["ok"]
        if e["op"] == "execute":
            if e["ok"]:
                stats["executed"] += 1
                stats["delivered_with_wallet_signer"] += any(m["signer"] for m in e["delivered"]["metas"])
                stats["executed_readonly_signer"] += any(m["signer"] and not m["writable"] for m in e["buffered"]["metas"])
            elif b["st"] == "approved":
                if b["approver"] not in pre["holds"]:
                    stats["execute_approver_revoked"] += 1
                elif pre["now"] < b["at"] + pre["delay"]:
                    stats["execute_too_early"] += 1
            elif b["st"] == "created":
                stats["execute_unapproved"] += 1
            else:
                stats["rerun_closed"] += b["st"] in ("executed", "cancelled")
        elif e["op"] == "approve" and not e["ok"]:
            stats["approve_twice"] += b["st"] == "approved"
            stats["approve_without_role"] += b["st"] == "created" and e["x"] not in pre["holds"]
        elif e["op"] == "create":
            stats["create_bad_signer"] += (not e["ok"]) and e["x"] % 10 == 3
            stats["recreated"] += e["ok"] and b["st"] in ("executed", "cancelled")
        elif e["op"] == "increase_delay":
            stats["delay_increased"] += e["ok"]
            stats["increase_from_above_30_days"] += e["ok"] and pre["delay"] > 30 * 86400
        elif e["op"] == "increase_delay_big":
            stats["increase_from_above_30_days"] += e["ok"]
            stats["increase_overflow_rejected"] += (not e["ok"]) and not e["fits"] and e["xs"] != "0"
    ctx.distinct += len({(e["op"], e["b"], e["x"], e["via"], json.dumps(e["pre"], sort_keys=True)) for e in ev})
    ctx.cov["samples"] += [ev[len(ev) // 2]]
    ctx.cov["rt_classes"] = stats
    for f in fails:
        e = ev[f["i"] - 1]
        ctx.report(classify(e, f["mon"]), {"driver": "h-runtime c36rt run --seed %s" % ctx.seed, "event": e,
                                           "events": ev[max(0, f["i"] - 4):f["i"]]})
    empty = [k for k, v in stats.items() if v == 0]
    if empty and not fails and not drifts:
        raise vlib.ToolError("vacuity (runtime binding): no event of class %s" % empty)
    ctx.assumptions += ["runtime binding: executor role MARKET_KEEPER, 2 buffers, 2 approvers, delay 1..2 (+ increases); "
                        "revocation through the real timelock revoke_role, grants written with Store::grant (the store authority is "
                        "the ADMIN executor wallet after initialize_config)",
                        "runtime binding: closed buffers' executed/cancelled distinction and the shape id are remembered by the driver"]
    ctx.cov["trusted_base"] += ["h-runtime in-process program runtime (CPI privilege rules, return data, probe program)", "h-runtime c36rt driver"]
