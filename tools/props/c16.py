"""C16 Every configuration key reads and writes its own setting.
Spec: ConfigKV.tla (cfg: Key -> Val, ParamTable / ClosedTable), ConfigKVProps.tla (monitors), MC_ConfigKV (design),
Trace_ConfigKV (TLC trace validation of writes on the real Market / Store)."""
import vlib


def classify(e, mon):
    return {"monitor": mon, "scope": e["scope"], "kind": e["kind"], "key": e["key"], "v": e["v"], "closed": e["closed"]}


def run(ctx):
    ctx.build("h-programs", "c16")
    if ctx.replay_file:
        ctx.note("replay: the recorded case lies inside the finite domain of this check, which is re-executed as a whole")
    # 1. the design: tables well-formed, every write of every key satisfies the monitors + isolation
    ctx.model_check("MC_ConfigKV", cfg="MC_ConfigKV" if ctx.quick else "MC_ConfigKV_thorough", workers=8, timeout=1500,
                    expect_actions=["DoWrite"])
    # 2. the real Market / Store: every key of the code's enums (strum iteration), distinct value per key,
    #    open / closed market x closed-market switch, pure and impure
    tr = ctx.path("writes.ndjson")
    ctx.run_bin("c16", ["all", "--out", tr])
    fails, drifts, _ = ctx.validate_trace("Trace_ConfigKV", tr)
    ev = vlib.read_ndjson(tr)
    keys = {e["key"] for e in ev}
    accessors = set()
    for e in ev:
        accessors |= set(e["params"].keys())
    rejected = sorted({e["key"] for e in ev if not e["ok"]})
    ctx.distinct += len({(e["scope"], e["key"], e["v"], e["closed"], e["cfg0"].get("flag.enable_market_closed_params")) for e in ev})
    ctx.cov["samples"] += [{k: (v if not isinstance(v, dict) else "{%d entries}" % len(v)) for k, v in ev[70].items()},
                           {k: (v if not isinstance(v, dict) else "{%d entries}" % len(v)) for k, v in ev[-3].items()}]
    ctx.cov["keys_written"] = len(keys)
    ctx.cov["accessors_observed"] = len(accessors)
    ctx.cov["writes_rejected_by_the_code"] = rejected
    for need in ("market", "store"):
        if not fails and not any(e["scope"] == need and e["ok"] for e in ev):
            raise vlib.ToolError("vacuity: no accepted %s write" % need)
    if not fails and not any(e["closed"] and e["cfg"].get("flag.enable_market_closed_params") == "true" for e in ev):
        raise vlib.ToolError("vacuity: closed-market switch never in force")
    for f in fails[:100]:      # the first failures are enough to decide and to replay
        e = ev[f["i"] - 1]
        ctx.report(classify(e, f["mon"]), {"driver": "h-programs c16 all", "event_index": f["i"], "event": e})
    # 3. the SDK market model (crates/programs/src/model/market.rs) on the same account bytes: the same writes
    #    (harness/h-sdk/src/bin/c16s.rs), every model-trait accessor read from gmsol_programs' MarketModel under every
    #    swap pricing kind, judged by the same monitors (Trace_ConfigKV_sdk = ConfigKVProps + pricing-aware conformance)
    ctx.build("h-sdk", "c16s")
    str_ = ctx.path("sdk-writes.ndjson")
    ctx.run_bin("c16s", ["all", "--out", str_])
    sfails, _, _ = ctx.validate_trace("Trace_ConfigKV_sdk", str_)
    sev = vlib.read_ndjson(str_)
    if not any(e["pricing"] == "shift" for e in sev) or not any(
            e["closed"] and e["cfg"].get("flag.enable_market_closed_params") == "true" for e in sev):
        raise vlib.ToolError("vacuity: SDK stage without shift pricing / closed-market switch")
    ctx.distinct += len({("sdk", e["key"], e["v"], e["closed"], e["pricing"],
                          e["cfg0"].get("flag.enable_market_closed_params")) for e in sev})
    ctx.cov["sdk_events"] = len(sev)
    ctx.cov["samples"].append({k: (v if not isinstance(v, dict) else "{%d entries}" % len(v)) for k, v in sev[200].items()})
    for f in sfails[:100]:
        e = sev[f["i"] - 1]
        c = classify(e, f["mon"])
        c.update({"target": "sdk", "pricing": e["pricing"], "conforms": f.get("conforms", True)})
        ctx.report(c, {"driver": "h-sdk c16s all", "event_index": f["i"], "event": e})
    ctx.assumptions += ["values are opaque distinct numbers per key (1000+i, 5000+i, 0 for the 'unset' liquidation factors); "
                        "value-dependent behaviour of a parameter is outside this property",
                        "SDK side: the key is written and read back through the program's getters, the parameters are read from "
                        "the SDK MarketModel built on the same bytes; under Shift pricing the two swap fee factors read zero by design",
                        "keys without a model-trait accessor (min_tokens_for_first_deposit, most store amounts/factors) are "
                        "checked for read-back and frame only"]
    ctx.cov["trusted_base"] += ["TLC", "harness h-programs c16 driver (projection through the public getters and model traits)",
                                "syscall stubs (clock, last restart slot)", "harness h-sdk c16s driver (SDK MarketModel on the program's bytes)"]
    return ctx.finish("model_checking",
                      "every key of MarketConfigKey, MarketConfigFlag, AmountKey, FactorKey, AddressKey as iterated from the code "
                      "(%d keys), written in every mode (open/closed x switch off/on x pure/impure); distinct = distinct "
                      "(scope, key, value, closed, switch)" % len(keys), exhaustive=True)
