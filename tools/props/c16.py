"""C16 Every configuration key reads and writes its own setting.
Spec: ConfigKV.tla (cfg: Key -> Val, ParamTable / ClosedTable), ConfigKVProps.tla (monitors), MC_ConfigKV (design),
Trace_ConfigKV (TLC trace validation of writes on the real Market / Store)."""
import vlib


def classify(e, mon):
    return {"monitor": mon, "scope": e["scope"], "kind": e["kind"], "key": e["key"], "v": e["v"], "closed": e["closed"]}


def run(ctx):
    ctx.build("h-programs", "c16")
    if ctx.replay_file:
        ctx.note("replay: the recorded case lies inside the finite domain of this check, which is re-executed as a whole")
    # 1. the design: tables well-formed, every write of every key satisfies the monitors + isolation
    ctx.model_check("MC_ConfigKV", cfg="MC_ConfigKV" if ctx.quick else "MC_ConfigKV_thorough", workers=8, timeout=1500,
                    expect_actions=["DoWrite"])
    # 2. the real Market / Store: every key of the code's enums (strum iteration), distinct value per key,
    #    open / closed market x closed-market switch, pure and impure
    tr = ctx.path("writes.ndjson")
    ctx.run_bin("c16", ["all", "--out", tr])
    fails, drifts, _ = ctx.validate_trace("Trace_ConfigKV", tr)
    ev = vlib.read_ndjson(tr)
    keys = {e["key"] for e in ev}
    accessors = set()
    for e in ev:
        accessors |= set(e["params"].keys())
    rejected = sorted({e["key"] for e in ev if not e["ok"]})
    ctx.distinct += len({(e["scope"], e["key"], e["v"], e["closed"], e["cfg0"].get("flag.enable_market_closed_params")) for e in ev})
    ctx.cov["samples"] += [{k: (v if not isinstance(v, dict) else "{%d entries}" % len(v)) for k, v in ev[70].items()},
                           {k: (v if not isinstance(v, dict) else "{%d entries}" % len(v)) for k, v in ev[-3].items()}]
    ctx.cov["keys_written"] = len(keys)
    ctx.cov["accessors_observed"] = len(accessors)
    ctx.cov["writes_rejected_by_the_code"] = rejected
    for need in ("market", "store"):
        if not any(e["scope"] == need and e["ok"] for e in ev):
            raise vlib.ToolError("vacuity: no accepted %s write" % need)
    if not any(e["closed"] and e["cfg"].get("flag.enable_market_closed_params") == "true" for e in ev):
        raise vlib.ToolError("vacuity: closed-market switch never in force")
    for f in fails[:100]:      # the first failures are enough to decide and to replay
        e = ev[f["i"] - 1]
        ctx.report(classify(e, f["mon"]), {"driver": "h-programs c16 all", "event_index": f["i"], "event": e})
    ctx.assumptions += ["values are opaque distinct numbers per key (1000+i, 5000+i, 0 for the 'unset' liquidation factors); "
                        "value-dependent behaviour of a parameter is outside this property",
                        "the SDK-side tables (gmsol_programs MarketConfig, MarketModel) are compared with the program in C40",
                        "keys without a model-trait accessor (min_tokens_for_first_deposit, most store amounts/factors) are "
                        "checked for read-back and frame only"]
    ctx.cov["trusted_base"] += ["TLC", "harness h-programs c16 driver (projection through the public getters and model traits)",
                                "syscall stubs (clock, last restart slot)"]
    return ctx.finish("model_checking",
                      "every key of MarketConfigKey, MarketConfigFlag, AmountKey, FactorKey, AddressKey as iterated from the code "
                      "(%d keys), written in every mode (open/closed x switch off/on x pure/impure); distinct = distinct "
                      "(scope, key, value, closed, switch)" % len(keys), exhaustive=True)
