"""C29 An adjusted oracle price stays inside the allowed band.
Spec: OracleValidate.tla (`Adjust`, `AfterAdjust`, `ValidateOne`, `SmallPricesFromPrice`), monitors in
OracleValidateProps.tla (MonAInward, MonABand, MonANoneKeeps, MonAAccepted), MC_OracleValidate "price" family,
Trace_OracleValidate on `adjust` events of the c24 driver (real try_adjust_price -> validate_one -> from_price)
and on with_prices events with AllowPriceAdjustment."""
import vlib
from props import c24


def classify(e, mon):
    c = {"monitor": mon, "op": e["op"], "class": "-"}
    if mon in ("AdjAccepted", "InBand"):
        if e["op"] == "adjust":
            r = c24._ref(e["q"], e["ref"])
            c["class"] = "dev_rounds_to_zero" if (r * e["k"]) // 100 == 0 else "out_of_band"
        else:
            c = c24.classify(e, mon)
    return c


def run(ctx):
    ctx.build("h-programs", "c24")
    q = ctx.quick
    c24.mc(ctx, "MC_OracleValidate", "MC_OracleValidate_price")
    evs = []
    some = acc = one_sided = one_sided_some = 0
    for name, args in (("adjust-small", ["small", "--kind", "adjust"]),
                       ("adjust-random", ["random", "--kind", "adjust", "--seed", ctx.seed, "--n", 5000 if q else 80000])):
        tr = ctx.path(name + ".ndjson")
        ctx.run_bin("c24", args + ["--out", tr])
        fails, drifts, _ = ctx.validate_trace("Trace_OracleValidate", tr)
        ev = vlib.read_ndjson(tr)
        for f in fails:
            e = ev[f["i"] - 1]
            ctx.report(classify(e, f["mon"]), {"driver": "h-programs c24 " + " ".join(map(str, args)), "event": e})
        evs.append(ev)
        some += sum(1 for e in ev if e["some"])
        acc += sum(1 for e in ev if e["some"] and e["vok"] and e["sok"])
        for e in ev:
            # explicit reference, BOTH bounds strictly on the same side of ref +- dev
            r = c24._ref(e["p"], e["ref"])
            d = (r * e["k"]) // 100
            lo, hi = e["p"]["minv"] * 10 ** e["p"]["minm"], e["p"]["maxv"] * 10 ** e["p"]["maxm"]
            if e["ref"]["some"] and lo <= hi and (hi < r - d or lo > r + d):
                one_sided += 1
                one_sided_some += 1 if e["some"] else 0
        ctx.cov["samples"] += [ev[len(ev) // 3], ev[-1]]
    # the real composition inside parse_from_feed_account (AllowPriceAdjustment) -> validate_one -> PriceMap::set
    tr = ctx.path("with.ndjson")
    ctx.run_bin("c24", ["random", "--kind", "with", "--seed", ctx.seed + 1, "--n", 3000 if q else 40000, "--out", tr])
    fails, drifts, _ = ctx.validate_trace("Trace_OracleValidate", tr)
    ev = vlib.read_ndjson(tr)
    for f in fails:
        e = ev[f["i"] - 1]
        # C29 speaks about tokens with price adjustment enabled only (C24 judges the others)
        bad = [it for it, sn in zip(e["items"], e["seen"])
               if it["tc"]["adjust"] and (not c24._in_band_item(it, sn) or not 0 < sn["min"] <= sn["max"])]
        if f["mon"] in ("InBand", "WellFormed") and bad:
            ctx.report(classify(e, f["mon"]), {"driver": "h-programs c24 random --kind with", "event": e})
    adj_acc = sum(1 for e in ev if e["called"] and any(
        it["tc"]["adjust"] and it["tc"]["dev"] and (s["min"] != it["fd"]["min"] * 10 ** it["tc"]["mult"]
                                                    or s["max"] != it["fd"]["max"] * 10 ** it["tc"]["mult"])
        for it, s in zip(e["items"], e["seen"])))
    evs.append(ev)
    ctx.cov["one_sided_inputs"] = one_sided
    ctx.cov["one_sided_inputs_adjusted"] = one_sided_some
    if some == 0 or acc == 0 or adj_acc == 0 or one_sided == 0 or one_sided_some == 0:
        if not ctx.violations:
            raise vlib.ToolError("vacuity: adjusted=%d adjusted-and-accepted=%d adjusted-in-with_prices=%d one-sided=%d/%d"
                                 % (some, acc, adj_acc, one_sided_some, one_sided))
    ctx.cov["adjusted"] = some
    ctx.cov["adjusted_and_accepted"] = acc
    ctx.cov["adjusted_inside_with_prices"] = adj_acc
    import json
    ctx.distinct += len({json.dumps(e, sort_keys=True) for ev in evs for e in ev})
    ctx.assumptions += ["deviation factors are whole percents (factor = k * 10^18) so that apply_factor is exact in small integers",
                        "u32 overflow of a clamped Decimal value is outside the small world"]
    ctx.cov["trusted_base"] += ["TLC", "h-programs c24 driver", "hooks states/oracle/mod.rs::verif"]
    return ctx.finish("model_checking",
                      "all prices (min, max 0..5, both multipliers) x references (mid or explicit) x factors 10/50/100 %% and "
                      "min/max/ref over 1..12 (%d) + random (%d) adjust events, + %d with_prices runs; distinct = distinct events"
                      % (len(evs[0]), len(evs[1]), len(evs[2])), exhaustive=False)
