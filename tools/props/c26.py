"""C26 Price decimal conversion never rounds up and never silently truncates.
Spec: PriceDecimal.tla (operators, floors written as division by powers of ten), PriceDecimalProps.tla
(monitors), MC_PriceDecimal (laws on a scaled copy), Trace_PriceDecimal (TLC, 31-bit tier),
Wide_PriceDecimal (Apalache, full width)."""
import copy, os
from concurrent.futures import ThreadPoolExecutor
import vlib

SCHEMA = {"op": "Str", "p": "Int", "d": "Int", "td": "Int", "prec": "Int", "ru": "Bool", "dm": "Int",
          "ok": "Bool", "value": "Int", "unit": "Int", "panic": "Bool"}


def classify(e, mon):
    return {"monitor": mon, "op": e["op"], "p": str(e["p"]), "d": e["d"], "td": e["td"], "prec": e["prec"],
            "ru": e["ru"], "ok": e["ok"], "panic": e["panic"]}


def key(e):
    return (e["op"], str(e["p"]), e["d"], e["td"], e["prec"], e["ru"], e["dm"] if e["op"] != "from_price" else 0,
            str(e["value"]) if e["op"] == "to_unit" else "")


def wide_chunk(ctx, k, events):
    c = copy.copy(ctx)
    c.wd = ctx.path("wide-%d" % k)
    os.makedirs(c.wd, exist_ok=True)
    return vlib.apalache_events(c, "Wide_PriceDecimal", ["PriceDecimal", "PriceDecimalProps"], events, SCHEMA,
                                "CInit", ["bad", "drift"], timeout=900 if ctx.quick else 1500, chunk=100)


def run(ctx):
    ctx.build("h-model", "c26")
    # wide tier first, in the background: full-width calls of the real code judged by Apalache
    n_wide = 60 if ctx.quick else 300
    wp = ctx.path("wide.ndjson")
    ctx.run_bin("c26", ["wide", "--seed", ctx.seed, "--n", n_wide, "--out", wp])
    wev = vlib.read_ndjson(wp)
    chunks = [wev[i:i + 100] for i in range(0, len(wev), 100)]
    pool = ThreadPoolExecutor(max_workers=1 if ctx.quick else 2)
    futs = [pool.submit(wide_chunk, ctx, k, ch) for k, ch in enumerate(chunks)]

    # 1. the operators mean "exact price truncated to the precision": exhaustive on the scaled copy
    ctx.model_check("MC_PriceDecimal", cfg="MC_PriceDecimal" if ctx.quick else "MC_PriceDecimal_thorough",
                    workers=6, timeout=1500)
    # 2. 31-bit tier: every (d, td, prec) in 0..21^3 x price list through the real code, TLC trace validation
    tr = ctx.path("small.ndjson")
    out = ctx.run_bin("c26", ["small", "--level", 0 if ctx.quick else 2, "--out", tr])
    ctx.note("31-bit tier " + out.strip().splitlines()[-1] +
             " (skipped = truncated value in [2^31, 2^32) or a logged quantity >= 2^31; covered by the wide tier)")
    rnd = ctx.path("random.ndjson")
    ctx.run_bin("c26", ["random", "--seed", ctx.seed, "--n", 3000 if ctx.quick else 60000, "--out", rnd])
    for path, drv in ((tr, "h-model c26 small"), (rnd, "h-model c26 random --seed %s" % ctx.seed)):
        fails, drifts, _ = ctx.validate_trace("Trace_PriceDecimal", path, timeout=1500)
        ev = vlib.read_ndjson(path)
        ctx.distinct += len({key(e) for e in ev})
        ctx.cov["samples"] += [ev[len(ev) // 3], ev[-1]]
        for f in fails:
            e = ev[f["i"] - 1]
            ctx.report(classify(e, f["mon"]), {"driver": drv, "event": e})
    # 3. an input outside the property's quantifier, recorded as an observation only
    pm = ctx.path("pythmin.ndjson")
    ctx.run_bin("c26", ["pyth-min", "--out", pm])
    if vlib.read_ndjson(pm)[0]["panic"]:
        ctx.note("observation (outside C26's quantifier): pyth_price_value_to_decimal(value=1, exponent=i32::MIN) "
                 "panics on `-exponent` (overflow-checks are on in the release profile); Pyth exponents are never that small")
    # 4. join the wide tier
    for k, fu in enumerate(futs):
        res = fu.result()
        part = chunks[k]
        ctx.evaluations += len(part)
        for i in res["bad"]:
            e = part[i - 1]
            ctx.report(classify(e, "Wide"), {"driver": "h-model c26 wide --seed %s" % ctx.seed, "event": e})
        if res["drift"]:
            ctx.drift += len(res["drift"])
            ctx.drift_first = ctx.drift_first or part[res["drift"][0] - 1]
    pool.shutdown()
    ctx.distinct += len({key(e) for e in wev})
    ctx.cov["samples"] += [wev[0], wev[len(wev) // 2]]
    ctx.assumptions += ["31-bit tier: prices below 2^31 whose truncated value is outside [2^31, 2^32)",
                        "full-width operands (u128 prices, u32 values, U192 storage conversion, pyth u64/i32) are a "
                        "boundary-biased sample judged by Apalache, not an enumeration"]
    ctx.cov["trusted_base"] += ["TLC", "Apalache/Z3", "harness h-model c26 driver"]
    return ctx.finish("model_checking",
                      "31-bit tier: all 9261 (d, td, prec) in 0..21^3 x a fixed price list + to_unit/with_unit/pyth "
                      "grids + seeded random decimals up to 255; wide tier: %d boundary-biased full-width calls; "
                      "distinct = distinct (op, operands)" % len(wev),
                      extra={"wide_events": len(wev)}, exhaustive=False)
