"""C04 A swap moves exactly the traded tokens and is all-or-nothing.
Spec: Market.tla (Swap), MarketProps.tla (C04In, C04Out, C04Atomic), MC_Market*, Trace_Market."""
import collections
import vlib
from props import _m1


def classify(e, mon):
    return {"monitor": mon, "op": e["op"], "class": _m1.swap_class(e), "ok": e["ok"], "panic": e["panic"]}


def run(ctx, pid_mon="C04"):
    ctx.build("h-model", "c04")
    if getattr(ctx, "replay_file", None):
        return _m1.replay_case(ctx, pid_mon, lambda ev, i, mon: classify(ev[i], mon))
    q = ctx.quick
    counts = collections.Counter()
    keys = set()
    total_rows = 0

    def judge(trace, driver):
        ev, fails = _m1.validate(ctx, trace, pid_mon)
        for e in ev:
            if e["op"] == "swap":
                counts[_m1.swap_class(e)] += 1
                if e["ok"] and _m1.zero_cfg(e["c"]):
                    counts["zero_cfg_ok"] += 1
                    if e["pr"]["long"]["min"] != e["pr"]["long"]["max"] or e["pr"]["short"]["min"] != e["pr"]["short"]["max"]:
                        counts["zero_cfg_spread"] += 1
                if e["pre"]["oi"]["long"] + e["pre"]["oi"]["short"] > 0:
                    counts["with_positions"] += 1
                keys.add(_m1.key(e))
        ctx.cov["samples"] += [e for e in (ev[len(ev) // 3], ev[-1])]
        for i, mon in fails:
            e = ev[i]
            lo = i
            while lo > 0 and not ev[lo].get("reset"):
                lo -= 1
            ctx.report(classify(e, mon), {"driver": driver, "events": ev[lo:i + 1]})

    # 1. spec -> impl: every (state, swap) pair of the bounded models, replayed on the real code
    exhaustive = True
    for cfg in (["MC_Market", "MC_Market_fix"] if q else ["MC_Market_thorough", "MC_Market_fix_thorough"]):
        rows, cfgs = _m1.explore(ctx, cfg, {"swap"}, timeout=900 if q else 2400)
        total_rows += len(rows)
        for k, part in enumerate(_m1.batches(rows)):
            judge(_m1.replay(ctx, part, cfgs, "%s-%d" % (cfg, k)), "h-model c04 replay (%s)" % cfg)
    if not q:
        _m1.simulate(ctx, "MC_Market_sim", 300)
    # 2. impl -> spec on random configurations / states / sequences
    judge(_m1.random_trace(ctx, "random", 1500 if q else 10000), "h-model c04 random")
    if not q:
        ev, fails = _m1.validate(ctx, _m1.random_trace(ctx, "random-d2", 4000, dec=2, seed_off=1), pid_mon, cfg="Trace_Market_d2")
        for i, mon in fails:
            ctx.report(classify(ev[i], mon), {"driver": "h-model c04 random --dec 2", "events": ev[max(0, i - 1):i + 1]})
    _m1.need(counts, ["failed", "capped_positive", "positive", "negative", "no_impact", "zero_cfg_spread", "with_positions"], pid_mon)
    ctx.distinct += len(keys)
    ctx.cov["classes"] = dict(counts)
    ctx.cov["transitions_replayed"] = total_rows
    ctx.cov["trusted_base"] += ["TLC", "harness h-model c04 driver (state injection / projection of TestMarket<u64,1>)"]
    ctx.assumptions += ["small world: the repository's generic code instantiated at u64, DECIMALS = 1 (Unit = 10)",
                        "exploration continues from the pre-state after a failed deposit/withdrawal (on-chain revert)"]
    return ctx.finish("model_checking",
                      "every (reachable state, swap) pair of the bounded models (<= 2 deposits, <= 1 withdrawal, <= 2 swaps from the "
                      "empty market and from fixture states with positions / virtual inventory; amounts {1,3,10,25}; price spreads; "
                      "fee / impact configurations) replayed on the real code by state injection, plus random runs; "
                      "distinct = distinct (pre-state, swap arguments, prices, configuration)",
                      exhaustive=exhaustive and ctx.drift == 0)
