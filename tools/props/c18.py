"""C18 Role membership behaves like a set of grants gated by enabled roles.
Spec: Roles.tla (the two fixed maps + restart slot, written like roles.rs/store.rs), RolesProps.tla (ghost history state
and monitors), MC_Roles (bounded exhaustive model, prints one path per distinct state), Trace_Roles (TLC trace validation
of the real Store, depth-first over the path trie)."""
import os, shutil
import vlib


def classify(e, mon):
    return {"monitor": mon, "op": e["op"], "a": e["a"], "r": e["r"], "ok": e["ok"], "err": e["err"],
            "restarted": e["obs"]["restarted"]}


def prefix_of(ev, idx):
    """events of the operation sequence that ends at event idx (1-based), using the depth field"""
    out, want = [], ev[idx - 1]["depth"]
    for j in range(idx - 1, -1, -1):
        if ev[j]["depth"] == want:
            out.append(ev[j])
            want -= 1
            if want < 0:
                break
    return list(reversed(out))


def mc_cfg(ctx, base, depth):
    """MC_Roles cfgs differ only in capacities / depth: write the tier's depth into a scratch copy next to the specs"""
    src = open(ctx.spec(base + ".cfg")).read()
    name = "%s_run_%s" % (base, ctx.tier)
    with open(ctx.spec(name + ".cfg"), "w") as f:
        f.write(src.replace("Depth = 4", "Depth = %d" % depth))
    return name


def run(ctx):
    ctx.build("h-programs", "c18")
    if ctx.replay_file:
        ctx.note("replay: the recorded case lies inside the finite domain of this check, which is re-executed as a whole")
    depth = 4 if ctx.quick else 6
    acts = {"enable", "disable", "grant", "revoke", "restart", "update"}
    total_paths = 0
    for base, fill in (("MC_Roles", (0, 0)), ("MC_Roles_cap", (30, 62))):
        cfg = mc_cfg(ctx, base, depth if (ctx.quick or base == "MC_Roles") else depth - 1)
        try:
            r = ctx.model_check("MC_Roles", cfg=cfg, workers=8, timeout=1700)
        finally:
            os.remove(ctx.spec(cfg + ".cfg"))
        paths = r.tagged("P")
        total_paths += len(paths)
        seen_ops = {o["op"] for p in paths for o in p}
        if acts - seen_ops:
            raise vlib.ToolError("vacuity: operations never taken in %s: %s" % (base, sorted(acts - seen_ops)))
        pf = ctx.path(base + ".paths.ndjson")
        vlib.write_ndjson(pf, paths)
        tr = ctx.path(base + ".replay.ndjson")
        out = ctx.run_bin("c18", ["replay", "--in", pf, "--fill-roles", fill[0], "--fill-members", fill[1], "--out", tr])
        vlib.log("  " + out.strip())
        fails, drifts, _ = ctx.validate_trace("Trace_Roles", tr, timeout=2400, heap="6g")
        ev = vlib.read_ndjson(tr)
        if len(ev) - 1 < len({vlib.json.dumps(p) for p in paths}):
            raise vlib.ToolError("replay executed %d operations for %d transitions" % (len(ev) - 1, len(paths)))
        ctx.distinct += len(ev) - 1
        ctx.cov["samples"] += [ev[min(len(ev) - 1, 7)]]
        if base == "MC_Roles_cap" and not fails and not any(e["err"] == "ExceedMaxLengthLimit" for e in ev):
            raise vlib.ToolError("vacuity: the capacity limits were never hit in the capacity configuration")
        for f in fails[:100]:      # the first failures are enough to decide and to replay
            ctx.report(classify(ev[f["i"] - 1], f["mon"]),
                       {"driver": "h-programs c18 replay --fill-roles %d --fill-members %d" % fill, "events": prefix_of(ev, f["i"])})
    # random linear histories at the real capacities (32 roles / 64 members), 40 role names x 70 addresses
    tr = ctx.path("random.ndjson")
    runs, ln = (8, 300) if ctx.quick else (60, 600)
    ctx.run_bin("c18", ["random", "--seed", ctx.seed, "--n", runs, "--len", ln, "--out", tr])
    fails, drifts, _ = ctx.validate_trace("Trace_Roles", tr, timeout=2400, heap="6g")
    ev = vlib.read_ndjson(tr)
    caps = {e["err"] for e in ev}
    if not fails and "ExceedMaxLengthLimit" not in caps:
        raise vlib.ToolError("vacuity: random histories never reached the 32-role / 64-member capacity")
    if not any(e["op"] == "restart" for e in ev):
        raise vlib.ToolError("vacuity: no pending cluster restart in the random histories")
    ctx.distinct += len({(e["op"], e["a"], e["r"], e["ok"], e["err"], e["obs"]["nroles"], e["obs"]["nmembers"]) for e in ev})
    ctx.cov["samples"] += [ev[len(ev) // 2]]
    ctx.cov["max_roles_seen"] = max(e["obs"]["nroles"] for e in ev)
    ctx.cov["max_members_seen"] = max(e["obs"]["nmembers"] for e in ev)
    for f in fails[:100]:      # the first failures are enough to decide and to replay
        ctx.report(classify(ev[f["i"] - 1], f["mon"]), {"driver": "h-programs c18 random", "events": prefix_of(ev, f["i"])[-12:]})
    ctx.assumptions += ["the Store is driven in memory (zeroed struct + Store::init); the instruction wrappers are covered by C19",
                        "in the capacity configuration 30 filler roles and 62 filler members pre-occupy the real maps so that the "
                        "model's 2/2 capacities are the real limits",
                        "random histories observe a fixed window of 8 addresses x 8 roles (plus the total counts) of a 70 x 41 universe"]
    ctx.cov["trusted_base"] += ["TLC", "harness h-programs c18 driver", "hook store::verif (update_last_restarted_slot)",
                                "syscall stub for the LastRestartSlot sysvar"]
    return ctx.finish("model_checking",
                      "every operation sequence of the bounded model up to depth %d (3 addresses x 4 role names incl. RESTART_ADMIN; "
                      "capacities 32/64 and 2/2) replayed on the real Store: one executed+judged operation per distinct path prefix "
                      "(%d paths); plus random histories at the real capacities; distinct = distinct prefixes + distinct "
                      "(op, args, result, counts) of the random runs" % (depth, total_paths), exhaustive=True)
