"""C05 A swap never pays out more value than it takes in, beyond capped impact.
Same models, traces and driver as C04; monitors C05Value, C05Exact of MarketProps.tla."""
from props import c04


def run(ctx):
    return c04.run(ctx, pid_mon="C05")
