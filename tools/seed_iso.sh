#!/bin/bash
# usage: tools/seed_iso.sh <seed-id> [tier]
# Run the check(s) of a seeded change in ISOLATION: /repo is not touched. A scratch copy of /repo's
# working tree (including uncommitted hooks) gets seeded/<id>/patch.diff applied; a scratch copy of
# the harness (own target dir) has its path dependencies rewritten to that copy; the check runs with
# VERIF_*_DIR pointing at scratch directories. Everything is removed afterwards (pass KEEP=1 to keep).
set -u
cd "$(dirname "$0")/.."
id="$1"; tier="${2:-quick}"
d="$PWD/seeded/$id"
[ -f "$d/patch.diff" ] || { echo "no $d/patch.diff"; exit 2; }
# one persistent scratch root per ISO_ROOT (the cargo target directory inside it is reused by later
# seeds, so only the first run pays for a full build); remove it with `rm -rf $ISO_ROOT` when done
iso="${ISO_ROOT:-/tmp/iso}/cur"
mkdir -p "$iso"
# scratch copy of /repo's committed HEAD (never its working tree: other work may be in progress there)
rm -rf "$iso/repo.new"; mkdir -p "$iso/repo.new"
git -C /repo archive HEAD | tar -x -C "$iso/repo.new"
mkdir -p "$iso/repo"; rsync -rlpgoD --delete --checksum "$iso/repo.new/" "$iso/repo/"; rm -rf "$iso/repo.new"
( cd "$iso/repo" && patch -p1 -s --no-backup-if-mismatch < "$d/patch.diff" ) || { echo "patch does not apply"; exit 2; }
rsync -rlpgoD --checksum --exclude target /verif/harness/ "$iso/harness/"
find "$iso/harness" -name Cargo.toml -exec sed -i "s#\"/repo/#\"$iso/repo/#g" {} +
rm -rf "$iso/work" "$iso/replays"
export VERIF_HARNESS_DIR="$iso/harness" VERIF_WORK_DIR="$iso/work" VERIF_EVIDENCE_DIR="$iso/evidence" VERIF_REPLAYS_DIR="$iso/replays" VERIF_REPO_DIR="$iso/repo"
mkdir -p "$VERIF_WORK_DIR" "$VERIF_EVIDENCE_DIR"
props=$(python3 -c "import json; m=json.load(open('$d/meta.json')); p=m['property']; print(' '.join(p if isinstance(p,list) else [p]))")
rc_all=0
for p in $props; do
  echo "=== $id (isolated) → ./check $p --tier $tier"
  ./check "$p" --tier "$tier" > "/verif/work/seed-$id-$p.log" 2>&1
  rc=$?
  grep -E "^(VIOLATION|KNOWN-FINDING|OK |TOOL-ERROR|NOTE|ERROR)" "/verif/work/seed-$id-$p.log" | head -8
  echo "exit=$rc"
  # caught = exit 1 AND a VIOLATION line for that property (an exit code alone proves nothing)
  { [ $rc -eq 1 ] && grep -q "^VIOLATION property=$p " "/verif/work/seed-$id-$p.log"; } || rc_all=1
done
rm -rf "$VERIF_WORK_DIR" "$VERIF_REPLAYS_DIR"
[ $rc_all -eq 0 ] && echo "CAUGHT $id" || echo "MISSED $id"
exit $rc_all
