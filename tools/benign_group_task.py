#!/usr/bin/env python3
"""usage: tools/benign_group_task.py <group> <Cxx>...  — task for a sub-agent that writes PROPERTY-PRESERVING changes
(negative controls: the checks must stay quiet on them)."""
import json, sys, os
g = sys.argv[1]; ids = sys.argv[2:]
props = {json.loads(l)['id']: json.loads(l) for l in open('/verif/properties.jsonl')}
wt = "/tmp/seed/%s" % g
txt = f"""You are helping to test a verification suite for false alarms. You get a scratch git worktree of the repository gmsol-labs/gmx-solana (GMX perpetuals/liquidity exchange ported to Solana: Anchor on-chain programs, a pure-Rust market math model, SDK) at {wt} — work ONLY inside that directory (never touch /repo or /verif, do not read anything under /verif). Offline sandbox (`cargo ... --offline`). Run `export CARGO_TARGET_DIR={wt}/target` before any cargo command and scope builds/tests to the crates you touch; building gmsol-store / gmsol-sdk takes many minutes on this shared machine, so build as few times as possible.

Here are {len(ids)} semantic properties that hold for this codebase:
"""
for i in ids:
    p = props[i]
    txt += f"""
  id: {p['id']}
  title: {p['title']}
  statement: {p['statement']}
  holds for: {p['quantifier']['text']}
  code it is anchored in: {', '.join(p['anchors']['files'])}
"""
txt += f"""
YOUR TASK: for EACH property write ONE realistic change to the code that the property is anchored in which CHANGES OBSERVABLE BEHAVIOUR BUT KEEPS THE PROPERTY TRUE — the kind of change a maintainer legitimately makes: rounding an amount further in the protocol's favour, making a check stricter (rejecting more), failing earlier or with a different error, reordering independent steps, adding a harmless extra bookkeeping field/update, caching, a tighter bound, an additional validation, a behaviour-preserving refactor of a tricky function (e.g. rewriting an algorithm differently with identical results). 3–25 changed lines each, independent patches against the clean tree. The property statement above must still hold for ALL inputs after your change — argue that in meta.json. The code must compile and the repository's existing tests of the touched crates must still pass (`cargo test --offline -p <crate>`). Do not touch tests, cfg flags or public signatures; ignore `#[cfg(gmsol_verif)]` blocks (inert instrumentation) but do not delete or break them (code inside them may call the functions you edit: keep their signatures).

Deliver, inside {wt}/_seed/<property id>/ for each property:
  patch.diff   — `git diff` of the source change, applicable with `git apply` at the repo root of a clean tree;
  meta.json    — {{"property": "<id>", "kind": "benign", "summary": "...what the change does and which observable behaviour changes...", "why_property_still_holds": "...argument...", "files": [...], "tests_run": ["commands and results"]}}
Leave the worktree clean of source changes at the end (the _seed directory stays). Your final message: for each property, 2 lines: the change and why the property still holds."""
os.makedirs(wt, exist_ok=True)
open(wt + "/_TASK.txt", "w").write(txt)
print(wt)
