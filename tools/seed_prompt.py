#!/usr/bin/env python3
"""Print the prompt given to an independent sub-agent that seeds a property-breaking change.
usage: tools/seed_prompt.py Cxx [n]   (worktree expected at /tmp/seed/Cxx[-n])"""
import json, sys
pid = sys.argv[1]
suffix = ("-" + sys.argv[2]) if len(sys.argv) > 2 else ""
for l in open("/verif/properties.jsonl"):
    p = json.loads(l)
    if p["id"] == pid:
        break
wt = "/tmp/seed/%s%s" % (pid, suffix)
print(f"""You are testing how robust a codebase's safety net is. You get a scratch git worktree of the repository gmsol-labs/gmx-solana (GMX perpetuals/liquidity exchange ported to Solana: Anchor programs, a pure-Rust market model, SDK) at {wt} — work ONLY inside that directory (never touch /repo or /verif, do not read /verif). The sandbox is offline (use `cargo ... --offline`); the workspace builds.

Here is a semantic property that should hold for this codebase:

  id: {p['id']}
  title: {p['title']}
  statement: {p['statement']}
  holds for: {p['quantifier']['text']}
  code it is anchored in: {', '.join(p['anchors']['files'])}

YOUR TASK: write ONE realistic change to the repository's source (the kind of slip a maintainer could make in a refactor, optimisation or feature addition: 1–15 changed lines, plausible, not sabotage-looking) that BREAKS this property while the code still compiles and the repository's existing test suite still passes (at minimum run the tests of every crate you touched and those depending on it for the touched code, e.g. `cargo test --offline -p <crate>`; warnings are fine). Prefer a change that needs something specific to manifest — a particular input class (type-limit values, zero, exact-fit sizes), a multi-step sequence of operations, a particular ordering, two cooperating sites that each look fine alone — NOT one that ordinary use or the existing tests would expose at once. Do not touch tests, do not add cfg flags, do not change public signatures.

Then write a DEMONSTRATION: a small Rust test or program (put it in a new file, e.g. a new `tests/seed_demo.rs` integration test in the touched crate or a `#[cfg(test)] mod` appended to a NEW file) that FAILS with your change and PASSES without it. Verify both directions yourself (`git stash` / `git stash pop` or apply/revert the patch).

Deliver, inside {wt}/_seed/ :
  patch.diff   — `git diff` of the source change ONLY (not the demonstration), applicable with `git apply` at the repo root;
  demo.diff    — the diff adding the demonstration (separately applicable);
  meta.json    — {{"property": "{p['id']}", "summary": "...what the change does...", "needs": "...what is needed for it to manifest...", "files": [...], "tests_run": ["commands you ran and their result"], "demo_cmd": "command that runs the demonstration"}}
Leave the worktree with both diffs applied. Your final message: 5 lines summarising the change, what it needs to manifest, and the demo command.""")
