#!/usr/bin/env python3
"""Print the prompt given to an independent sub-agent that seeds a property-breaking change.
usage: tools/seed_prompt.py Cxx [n]   (worktree expected at /tmp/seed/Cxx[-n])"""
import json, sys
pid = sys.argv[1]
suffix = ("-" + sys.argv[2]) if len(sys.argv) > 2 else ""
for l in open("/verif/properties.jsonl"):
    p = json.loads(l)
    if p["id"] == pid:
        break
wt = "/tmp/seed/%s%s" % (pid, suffix)
print(f"""You are testing how robust a codebase's safety net is. You get a scratch git worktree of the repository gmsol-labs/gmx-solana (GMX perpetuals/liquidity exchange ported to Solana: Anchor on-chain programs (store, treasury, timelock, ...), a pure-Rust market math model, SDK and CLI) at {wt} — work ONLY inside that directory (never touch /repo or /verif, do not read anything under /verif). The sandbox is offline (use `cargo ... --offline`); the workspace builds. IMPORTANT: run `export CARGO_TARGET_DIR={wt}/target` before any cargo command, and scope builds/tests to the crates you touch (`-p <crate>`), the machine is shared and busy.

Here is a semantic property that should hold for this codebase:

  id: {p['id']}
  title: {p['title']}
  statement: {p['statement']}
  holds for: {p['quantifier']['text']}
  code it is anchored in: {', '.join(p['anchors']['files'])}

YOUR TASK: write TWO independent realistic changes (call them a and b; each a separate patch against the clean tree, different in kind) to the repository's source — the kind of slip a maintainer could make in a refactor, optimisation or feature addition: 1–15 changed lines, plausible, not sabotage-looking — that each BREAK this property while the code still compiles and the repository's existing test suite still passes (run at least the tests of every crate you touched, e.g. `cargo test --offline -p <crate>` with the features its dev-dependencies enable; warnings are fine). Prefer changes that need something specific to manifest — a particular input class (type-limit values, zero, exact-fit sizes, one side / one token only), a multi-step sequence of operations, a particular ordering or timing, an unusual configuration, two cooperating sites that each look fine alone — NOT ones that ordinary use or the existing tests would expose at once. Do not touch tests, do not add cfg flags, do not change public signatures.

Then for each write a DEMONSTRATION: a small Rust test in a NEW file (e.g. `<crate>/tests/seed_demo_a.rs`, or a new `#[cfg(test)]` module file if private items are needed) that FAILS with the change and PASSES without it. Verify both directions yourself.

Deliver, inside {wt}/_seed/a/ and {wt}/_seed/b/ :
  patch.diff   — `git diff` of the source change ONLY (not the demonstration), applicable with `git apply` at the repo root of a clean tree;
  demo.diff    — the diff adding the demonstration (separately applicable);
  meta.json    — {{"property": "{p['id']}", "summary": "...what the change does...", "needs": "...what is needed for it to manifest...", "files": [...], "tests_run": ["commands you ran and their result"], "demo_cmd": "command that runs the demonstration"}}
Leave the worktree clean of source changes at the end (the _seed directory stays). Your final message: for each of a and b, 3 lines summarising the change, what it needs to manifest, and the demo command.""")
