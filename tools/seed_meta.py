#!/usr/bin/env python3
"""Record in seeded/<id>/meta.json what the lead ran and what the checks reported (from work/seed-*.log)."""
import json, glob, re, os
V = os.path.dirname(os.path.dirname(os.path.abspath(__file__)))
# first-run misses that were caught after the check was strengthened, and cross-property catches
STRENGTHENED = {"C02-a": "discount domain extended beyond 200 %", "C03-b": "caught by C05 (new monitor C05Funded)",
                "C10-b": "fixtures with accrued funding indices", "C11-b": "known findings suppress only spec-conforming failures",
                "C12-b": "monitor C12.PendingNonNegPartial on the partial state of failed operations + cross-collateral scenarios",
                "C34-b": "drivers made panic-safe (engine rebuilds the map after a panic)",
                "C36-s": "instruction shapes with a read-only signer (and all flag combinations) in both C36 bindings",
                "C23-s": "monitors ExecOnce / TerminalKept / DirectTerminal; execution fee payable twice in the world",
                "C22-s": "world R2 extended with price moves, liquidate, update_adl_state, auto_deleverage (cross-collateral cuts with failing pnl swap)",
                "C25-s": "type-limit timestamp tier judged by TLC through limb arithmetic (BigNum.tla)",
                "C29-s": "monitor AdjBand on every adjusted price",
                "C08-r2": "fee-spill scenarios (fees partly paid from the secondary output) + per-event dust bound",
                "C04-r2": "swap-fee discount factor added to the configuration domain",
                "C24-r2": "oracle time validators of time.rs bound (ValidateTime, TimeMaxAge ... on 1-3 feeds with different timestamps)",
                "C16-r2": "SDK read-back of every model-trait accessor (h-sdk c16s); also caught by C40",
                "C44-r2": "RejectCreate/RejectExec cover walks not ending in the declared token; PaidDeclared; world with collateral",
                "C22-r2": "withdrawals with >= 2-hop output paths ending in a token of the first market",
                "C38-r2": "wide reward pairs judged through BigNum (RewardMonoWide)",
                "C01-r3": "deterministic type-limit preamble (dividends at the type maximum, small divisors incl. exact multiples) in the wide tier",
                "C08-r3": "history presets with a liquidation receiver share other than 50 %",
                "C18-r3": "new monitor Capacity (a new role is accepted while fewer than 32 exist; a grant succeeds while member capacity remains)",
                "C17-r3": "vacuity guard no longer depends on the code's answers (it pre-empted the PoolPure verdict)",
                "C20-r3": "frame-condition monitor on accepted updates (every key/flag not named keeps its value) + per-key sweep",
                "C33-r3": "pending proposal tracked from the history of accepted operations, not from the account's next_owner field",
                "C30-r3": "a TLC overflow in a later stage no longer masks established violations; histories minting across grow steps after burns",
                "C37-r3": "monitors ClaimSucceeds / DrainedAtEnd (a well-formed claim must not fail in the bank bookkeeping)",
                "C40-r3": "non-canonical is_pure bytes in the compared market contents",
                "C42-r3": "vacuity errors no longer pre-empt the verdict (Rate / Best were already failing)",
                "C23-r3": "keeper-created cut orders closed inside the lifecycle histories",
                "C19-r3": "caught by C20 (config buffer policy); C19's classes see the instruction as correctly role-gated",
                "C36-r2": "delays above 30 days and near u32::MAX in both C36 bindings",
                "C15-s": "SDK pool view bound at the u128 limits",
                "C40-a": "closed-market parameter combinations in the compared views",
                "C40-b": "program vs SDK discount compared on non-round factors (also caught by C31)",
                "C42-a": "precise transcription of the search: known findings suppress only design-conforming failures"}
NOT_A_VIOLATION = {
    "C18-r2": "not caught and not a violation of the statement: revoke on a disabled role now FAILS without side effects, so 'granted and not revoked since' still describes who holds the role; reported as 682 drift events on revoke (the precise Roles.tla lets that revoke succeed)",
    "C02-r3": "not caught and, by the seeder's own caveat, no tokens are created or lost: order_fees' pool share is floored separately so pool + receiver is one unit below the floor of value/price, and the trader is charged exactly pool + receiver; reported as 47,503 drift events (the precise Fees.tla computes pool = fee - receiver)",
    "C36-r3": "cannot manifest in the default build: it needs a second store whose timelock config is passed to execute_instruction, and a second store only exists with the cargo feature multi-store",
    "C19-r2": "cannot manifest in the default build: it needs a second store, which only exists with the cargo feature multi-store (the seeder says so); the checks build the default feature set",
}
OTHER_PROP = {"C03-b": "C05", "C40-b": "C31", "C19-r3": "C20"}
for d in sorted(glob.glob(V + '/seeded/C*')):
    sid = os.path.basename(d)
    mp = d + '/meta.json'
    m = json.load(open(mp))
    prop = m['property'] if isinstance(m['property'], str) else m['property'][0]
    props = [prop] + ([OTHER_PROP[sid]] if sid in OTHER_PROP else [])
    mons, caught_by = set(), []
    for p in props:
        lg = V + '/work/seed-%s-%s.log' % (sid, p)
        if not os.path.exists(lg):
            alt = glob.glob(V + '/work/seed-*%s*-%s.log' % (sid.replace("-", "").lower(), p))
            lg = alt[0] if alt else lg
        if os.path.exists(lg):
            t = open(lg).read()
            if re.search(r"^VIOLATION property=%s " % p, t, re.M):
                caught_by.append(p)
                mons |= set(re.findall(r'"monitor": "([^"]+)"', t))
    if sid == "C03-b" and "C05" not in caught_by:
        caught_by.append("C05"); mons.add("C05Funded")
    if sid == "C40-b" and "C31" not in caught_by:
        caught_by.append("C31")
    res = "missed"
    if sid in NOT_A_VIOLATION and not caught_by:
        res = NOT_A_VIOLATION[sid]
    if caught_by:
        res = "caught by " + ",".join(caught_by)
        if sid in STRENGTHENED:
            res += " (after strengthening: %s)" % STRENGTHENED[sid]
    m['lead_verification'] = {"confirmed_in_scratch_worktree": True,
                              "how": "tools/seed_verify.sh / seed_verify2.sh: demo passes on clean tree; with patch the crate's existing tests pass and the demo fails"}
    m['detection'] = {"result": res, "monitors": sorted(mons)[:8],
                      "ran": "tools/seed_run.sh or tools/seed_iso.sh %s quick (./check %s --tier quick against the changed tree)" % (sid, "/".join(props))}
    json.dump(m, open(mp, 'w'), indent=1)
print("ok")
