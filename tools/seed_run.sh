#!/bin/bash
# usage: tools/seed_run.sh <seed-id> [tier]   — apply seeded/<id>/patch.diff to /repo, run the check(s) of the
# property it breaks (meta.json: property), print results, and ALWAYS restore /repo afterwards.
# Only files touched by the patch are restored (other uncommitted work in /repo is left alone).
set -u
cd "$(dirname "$0")/.."
id="$1"; tier="${2:-quick}"
d="seeded/$id"
[ -f "$d/patch.diff" ] || { echo "no $d/patch.diff"; exit 2; }
props=$(python3 -c "import json,sys; m=json.load(open('$d/meta.json')); p=m['property']; print(' '.join(p if isinstance(p,list) else [p]))")
files=$(git -C /repo apply --numstat "$PWD/$d/patch.diff" | awk '{print $3}')
for f in $files; do
  if ! git -C /repo diff --quiet -- "$f"; then echo "refusing: /repo/$f has uncommitted changes"; exit 2; fi
done
git -C /repo apply "$PWD/$d/patch.diff" || { echo "patch does not apply"; exit 2; }
rc_all=0
for p in $props; do
  echo "=== $id → ./check $p --tier $tier"
  ./check "$p" --tier "$tier" > "work/seed-$id-$p.log" 2>&1
  rc=$?
  grep -E "^(VIOLATION|KNOWN-FINDING|OK |TOOL-ERROR|NOTE)" "work/seed-$id-$p.log" | head -8
  echo "exit=$rc"
  # caught = exit 1 AND a VIOLATION line for that property (an exit code alone proves nothing)
  { [ $rc -eq 1 ] && grep -q "^VIOLATION property=$p " "/verif/work/seed-$id-$p.log"; } || rc_all=1
done
for f in $files; do git -C /repo checkout -- "$f"; done
[ $rc_all -eq 0 ] && echo "CAUGHT $id" || echo "MISSED $id"
exit $rc_all
