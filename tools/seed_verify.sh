#!/bin/bash
# usage: tools/seed_verify.sh <seed-id> <worktree> <crate> [extra cargo test args]
# Confirms in a scratch worktree: (1) demo passes on the clean tree, (2) with the patch the crate's
# existing tests still pass, (3) with the patch the demo fails. Prints one RESULT line.
id="$1"; wt="$2"; crate="$3"; shift 3
d="/verif/seeded/$id"
cd "$wt" || exit 2
export CARGO_TARGET_DIR="$wt/target"
git checkout -q -- . ; git clean -fdq -e _seed -e target -e _TASK.txt .
demo=$(python3 -c "import json;print(json.load(open('$d/meta.json')).get('demo_cmd',''))")
git apply "$d/demo.diff" || { echo "RESULT $id demo.diff does not apply"; exit 2; }
demo_test=$(git status --short -uall | grep -o "seed_demo[a-z_0-9]*" | head -1)
cargo test --offline -q -p "$crate" --test "$demo_test" "$@" > /tmp/sv-$id-clean.log 2>&1; clean_rc=$?
git apply "$d/patch.diff" || { echo "RESULT $id patch.diff does not apply"; exit 2; }
cargo test --offline -q -p "$crate" --test "$demo_test" "$@" > /tmp/sv-$id-mut.log 2>&1; mut_rc=$?
# existing tests: everything except the demo
cargo test --offline -q -p "$crate" "$@" --lib --bins > /tmp/sv-$id-suite.log 2>&1; suite_rc=$?
others=0
for t in $(ls $(cargo metadata --offline --format-version 1 --no-deps 2>/dev/null | python3 -c "import json,sys;m=json.load(sys.stdin);print([p for p in m['packages'] if p['name']=='$crate'][0]['manifest_path'].rsplit('/',1)[0])")/tests/*.rs 2>/dev/null | xargs -n1 basename | sed 's/\.rs$//' | grep -v seed_demo); do
  cargo test --offline -q -p "$crate" --test "$t" "$@" >> /tmp/sv-$id-suite.log 2>&1 || others=1
done
git checkout -q -- . ; git clean -fdq -e _seed -e target -e _TASK.txt .
echo "RESULT $id demo_clean_rc=$clean_rc demo_mut_rc=$mut_rc suite_rc=$suite_rc other_tests_rc=$others  => $([ $clean_rc -eq 0 ] && [ $mut_rc -ne 0 ] && [ $suite_rc -eq 0 ] && [ $others -eq 0 ] && echo CONFIRMED || echo REJECTED)"
