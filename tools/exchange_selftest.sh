#!/bin/bash
# usage: tools/exchange_selftest.sh <seed-id> [<seed-id> ...]
# What does the composed specification (Exchange.tla / Trace_Exchange) say about a CHANGED model crate?
# For each seeded change under seeded/<id>/ (patch.diff), in ISOLATION (scratch copy of /repo HEAD + patch, scratch
# copy of the harness with its own target dir; /repo and the shared target dir are never touched): build the hist
# driver, record histories, validate with Trace_Exchange, and print which operation kinds drift on which field and
# which monitors fail.  Results: /verif/work/exchange-selftest.json.  Scratch root: $ISO_ROOT (default
# /verif/work/iso-exchange), removed at the end unless KEEP=1.
set -u
cd "$(dirname "$0")/.."
iso="${ISO_ROOT:-/verif/work/iso-exchange}"
mkdir -p "$iso"
rsync -rlpgoD --checksum --exclude target /verif/harness/ "$iso/harness/"
find "$iso/harness" -name Cargo.toml -exec sed -i "s#\"/repo/#\"$iso/repo/#g" {} +
export VERIF_HARNESS_DIR="$iso/harness" VERIF_WORK_DIR="$iso/work" VERIF_EVIDENCE_DIR="$iso/evidence" VERIF_REPLAYS_DIR="$iso/replays" VERIF_REPO_DIR="$iso/repo"
mkdir -p "$VERIF_WORK_DIR" "$VERIF_EVIDENCE_DIR"
for id in "$@"; do
  d="$PWD/seeded/$id"
  if [ "$id" != "clean" ]; then [ -f "$d/patch.diff" ] || { echo "no $d/patch.diff"; continue; }; fi
  rm -rf "$iso/repo.new"; mkdir -p "$iso/repo.new"
  git -C /repo archive HEAD | tar -x -C "$iso/repo.new"
  mkdir -p "$iso/repo"; rsync -rlpgoD --delete --checksum "$iso/repo.new/" "$iso/repo/"; rm -rf "$iso/repo.new"
  if [ "$id" != "clean" ]; then
    ( cd "$iso/repo" && patch -p1 -s --no-backup-if-mismatch < "$d/patch.diff" ) || { echo "$id: patch does not apply"; continue; }
  fi
  python3 - "$id" <<'PY'
import sys, os, json, traceback
sys.path.insert(0, os.path.join(os.getcwd(), "tools"))
import vlib
from props import exchange
sid = sys.argv[1]
out = "/verif/work/exchange-selftest.json"
res = json.load(open(out)) if os.path.exists(out) else {}
ctx = vlib.Ctx("EXCHANGE", "quick", 20260921)
ctx.replay_file = None
try:
    r = exchange.selftest(ctx)
except Exception as e:
    r = {"error": str(e)[-600:]}
res[sid] = r
json.dump(res, open(out, "w"), indent=1, default=str)
print("%-8s events=%s drift=%s %s | monitors: %s" % (sid, r.get("events"), r.get("drift_events"),
      json.dumps(r.get("drift"))[:300], json.dumps(r.get("monitor_failures"))[:300]), flush=True)
if "error" in r:
    print("   ERROR", r["error"][-400:])
PY
done
[ "${KEEP:-0}" = "1" ] || rm -rf "$iso"
