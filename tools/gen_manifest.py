#!/usr/bin/env python3
"""Regenerate MANIFEST.json from tools/registry/Cxx.json (one file per claimed property).
A property without a registry file is listed under not_applicable with the reason in
tools/registry/_not_claimed.json (or a default)."""
import json, os, glob, sys
V = os.path.dirname(os.path.dirname(os.path.abspath(__file__)))
props = [json.loads(l) for l in open(os.path.join(V, "properties.jsonl"))]
reg = {}
for f in sorted(glob.glob(os.path.join(V, "tools/registry/C*.json"))):
    d = json.load(open(f))
    reg[d["property_id"]] = d
nc_path = os.path.join(V, "tools/registry/_not_claimed.json")
nc = json.load(open(nc_path)) if os.path.exists(nc_path) else {}
hooks_path = os.path.join(V, "tools/registry/_hooks.json")
hooks = json.load(open(hooks_path)) if os.path.exists(hooks_path) else {"source_commits": []}
ready_path = os.path.join(V, "tools/registry/_ready.json")
ready = set(json.load(open(ready_path))) if os.path.exists(ready_path) else set()
checks, na = [], []
for p in props:
    pid = p["id"]
    if pid in ready and pid in reg and os.path.exists(os.path.join(V, "tools/props", pid.lower() + ".py")):
        r = reg[pid]
        c = {"property_id": pid,
             "quick_cmd": "./check %s --tier quick" % pid,
             "thorough_cmd": "./check %s --tier thorough" % pid,
             "evidence_file": "/verif/evidence/%s.json" % pid,
             "replay_cmd_template": "./check %s --replay {path}" % pid,
             "engine": r.get("engine", "tlc"),
             "level_claimed": {"category": r["level"], "text": r["text"], "design_ref": r.get("design_ref", "DESIGN.md section 9, " + pid)},
             "level_note": r["note"],
             "technique": r.get("technique", "TLA+ specification checked with TLC; TLC trace validation of recorded executions of the real code")}
        checks.append(c)
    else:
        na.append({"property_id": pid, "reason": nc.get(pid, "check not built yet in this round; planned design in DESIGN.md section 9")})
m = {"version": 1,
     "setup_cmd": "./check --setup",
     "hooks": {"guard": "--cfg gmsol_verif",
               "enable": "harness/.cargo/config.toml sets rustflags --cfg gmsol_verif (with --check-cfg); every check runs cargo build in /verif/harness against /repo's working tree",
               "baseline_off_cmd": "cd /repo && cargo nextest run --workspace --no-fail-fast --offline --test-threads 8",
               "source_commits": hooks.get("source_commits", []),
               "add_only": True},
     "engines": [
         {"name": "tlc", "path": "/verif/specs", "serves_properties": [c["property_id"] for c in checks],
          "kind_free_text": "explicit TLA+ specifications: bounded exhaustive model checking with TLC, TLC trace validation of ndjson traces recorded from the real code, Apalache for full-width integer events"},
         {"name": "harness", "path": "/verif/harness", "serves_properties": [c["property_id"] for c in checks],
          "kind_free_text": "Rust drivers (own cargo workspace, path deps on /repo) that replay TLC-generated behaviours into the real code and record traces"}],
     "checks": checks,
     "notes": "One CLI: ./check Cxx --tier quick|thorough. Exit 0 held / 1 VIOLATION / 2 tool error. Known findings in known_findings.json (5 fixed by fix: commits in /repo, 19 open design-level findings). baseline_off_cmd runs the repository suite without --cfg gmsol_verif: 195 pass; the 8 network tests listed as always_fail in BASELINE.json fail offline. DESIGN.md section 13 describes what was built; seeded/ holds 159 independent seeded changes and 42 property-preserving negative controls.",
     "not_applicable": na}
json.dump(m, open(os.path.join(V, "MANIFEST.json"), "w"), indent=1)
print("claimed", len(checks), "not claimed", len(na))
