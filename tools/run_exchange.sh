#!/bin/bash
# Composed market specification (pseudo-id EXCHANGE, not a registered property):
#   tools/run_exchange.sh [quick|thorough] [seed]
# model-checks MC_Exchange, generates histories of the real code, validates them with Trace_Exchange and
# prints the conformance coverage; summary in /verif/work/EXCHANGE/summary.json.
# exit 0 = every monitor failure is explained (known finding of its property / outside the programs' protocol),
#      1 = unexplained monitor failure, 2 = tool error.  Drift is reported, never an error.
cd "$(dirname "$0")/.." || exit 2
TIER=${1:-quick}; SEED=${2:-${VERIF_SEED:-20260921}}
exec python3 - "$TIER" "$SEED" <<'PY'
import sys, os, traceback
sys.path.insert(0, os.path.join(os.getcwd(), "tools"))
import vlib
from props import exchange
ctx = vlib.Ctx("EXCHANGE", sys.argv[1], int(sys.argv[2]))
ctx.replay_file = None
try:
    rc = exchange.run(ctx)
except vlib.ToolError as e:
    print("TOOL-ERROR EXCHANGE: %s" % e)
    rc = 2
except Exception:
    traceback.print_exc()
    rc = 2
sys.exit(rc)
PY
