#!/bin/bash
# usage: tools/run_all.sh <tier> <ids...>  — run checks sequentially, one summary line each
cd "$(dirname "$0")/.."
tier="$1"; shift
for p in "$@"; do
  t0=$(date +%s)
  ./check $p --tier $tier > work/run-$p-$tier.log 2>&1; rc=$?
  t1=$(date +%s)
  echo "$p rc=$rc wall=$((t1-t0))s $(grep -E '^(VIOLATION|TOOL-ERROR|ERROR)' work/run-$p-$tier.log | head -1 | cut -c1-150) known=$(grep -c '^KNOWN-FINDING' work/run-$p-$tier.log) drift=$(grep -c '^NOTE: drift' work/run-$p-$tier.log)"
done
