#!/usr/bin/env python3
"""Binding self-test for C02 / C03 / C14 (not a registered check): every listed mutation of the real
code must turn `./check Cxx --tier quick` into a VIOLATION (exit 1).

/repo is never touched: crates/model is copied to work/mut/repo, the mutation is applied to the
copy, and a scratch copy of the h-model harness crate (own target dir) is built against it; the
property's ordinary run(ctx) is then executed with vlib's paths redirected to the scratch tree
(evidence, replays and work files of the self-test stay under work/mut).

usage: tools/selftest_mutations.py [C02|C03|C14 ...] [--keep]"""
import sys, os, shutil, importlib, json, io, contextlib, time
sys.path.insert(0, os.path.dirname(os.path.abspath(__file__)))
import vlib

REAL_VERIF = vlib.VERIF
MUT = os.path.join(REAL_VERIF, "work", "mut")
MODEL = "crates/model/src/"

# (property, name, file, old, new)
MUTATIONS = [
    ("C14", "drop-min-floor-cap", MODEL + "market/position_impact.rs",
     "        if distribution_amount > max_distribution_amount {\n            distribution_amount = max_distribution_amount;\n        }\n",
     ""),
    ("C14", "distribution-added-to-the-pool", MODEL + "action/distribute_position_impact.rs",
     "                .apply_delta_to_position_impact_pool(&distribution_amount.to_opposite_signed()?)?;",
     "                .apply_delta_to_position_impact_pool(&distribution_amount.to_signed()?)?;"),
    ("C02", "net-amount-from-wrong-base", MODEL + "params/fee.rs",
     "        Some((amount.checked_sub(&fee_amount)?, fees))", "        Some((amount.checked_sub(&fees.fee_amount_for_pool)?, fees))"),
    ("C02", "discount-added-instead-of-subtracted", MODEL + "params/fee.rs",
     "        fee.checked_sub(&discount)\n", "        fee.checked_add(&discount)\n"),
    ("C02", "liquidation-receiver-share-of-value", MODEL + "params/fee.rs",
     "        let fee_amount_for_receiver = utils::apply_factor(&fee_amount, &self.receiver_factor)",
     "        let fee_amount = fee_amount.checked_add(&fee_value).ok_or(crate::Error::Overflow)?; let fee_amount_for_receiver = utils::apply_factor(&fee_amount, &self.receiver_factor)"),
    ("C03", "positive-factor-not-capped", MODEL + "params/price_impact.rs",
     "        if self.positive_factor > self.negative_factor {", "        if false {"),
    ("C03", "same-side-sign-flipped", MODEL + "pool/delta.rs",
     "        let has_positive_impact = next < initial;\n        let (positive_factor, negative_factor) = params.adjusted_factors();\n\n        let factor = if has_positive_impact {",
     "        let has_positive_impact = next > initial;\n        let (positive_factor, negative_factor) = params.adjusted_factors();\n\n        let factor = if has_positive_impact {"),
    ("C03", "virtual-inventory-takes-the-better", MODEL + "market/swap.rs",
     "        if virtual_inventory_impact.value < impact.value {", "        if virtual_inventory_impact.value > impact.value {"),
]


def prepare_tree():
    shutil.rmtree(os.path.join(MUT, "repo"), ignore_errors=True)
    os.makedirs(os.path.join(MUT, "repo", "crates"), exist_ok=True)
    shutil.copy("/repo/Cargo.toml", os.path.join(MUT, "repo", "Cargo.toml"))
    shutil.copytree("/repo/crates/model", os.path.join(MUT, "repo", "crates", "model"))
    h = os.path.join(MUT, "harness")
    hm = os.path.join(h, "h-model")
    if os.path.exists(hm):
        shutil.rmtree(hm)
    os.makedirs(os.path.join(h, ".cargo"), exist_ok=True)
    src = os.path.join(REAL_VERIF, "harness", "h-model", "src")
    os.makedirs(os.path.join(hm, "src", "bin"))
    for f in ("util.rs", "vmarket.rs"):
        shutil.copy(os.path.join(src, f), os.path.join(hm, "src", f))
    shutil.copytree(os.path.join(src, "shared"), os.path.join(hm, "src", "shared"))
    for b in ("c02.rs", "c03.rs", "c14.rs"):
        shutil.copy(os.path.join(src, "bin", b), os.path.join(hm, "src", "bin", b))
    open(os.path.join(hm, "src", "lib.rs"), "w").write("pub mod util;\npub mod vmarket;\n")
    open(os.path.join(hm, "Cargo.toml"), "w").write(
        '[package]\nname = "h-model"\nversion = "0.1.0"\nedition = "2021"\n\n[dependencies]\n'
        'gmsol-model = { path = "%s/repo/crates/model", features = ["u128"] }\n'
        'serde = { version = "1", features = ["derive"] }\nserde_json = "1"\nnum-traits = "0.2"\n' % MUT)
    open(os.path.join(h, "Cargo.toml"), "w").write(
        '[workspace]\nresolver = "2"\nmembers = ["h-model"]\n\n[profile.dev]\nopt-level = 1\noverflow-checks = true\n'
        'debug-assertions = false\ndebug = 0\n')
    shutil.copy(os.path.join(REAL_VERIF, "harness", "Cargo.lock"), os.path.join(h, "Cargo.lock"))
    shutil.copy(os.path.join(REAL_VERIF, "harness", ".cargo", "config.toml"), os.path.join(h, ".cargo", "config.toml"))


def run_check(pid):
    """the property's ordinary quick run against the scratch tree; returns (exit code, output)"""
    shutil.copy(os.path.join(REAL_VERIF, "known_findings.json"), os.path.join(MUT, "known_findings.json"))
    shutil.rmtree(os.path.join(MUT, "replays"), ignore_errors=True)
    vlib.VERIF, vlib.HARNESS = MUT, os.path.join(MUT, "harness")
    vlib.WORK, vlib.EVID = os.path.join(MUT, "work"), os.path.join(MUT, "evidence")
    mod = importlib.import_module("props." + pid.lower())
    ctx = vlib.Ctx(pid, "quick", 20260921)
    ctx.replay_file = None
    buf = io.StringIO()
    with contextlib.redirect_stdout(buf):
        try:
            rc = mod.run(ctx)
        except vlib.ToolError as e:
            print("TOOL-ERROR", e)
            rc = 2
    return rc, buf.getvalue()


def main():
    want = [a.upper() for a in sys.argv[1:] if not a.startswith("--")]
    results = []
    prepare_tree()
    rc, out = 0, ""
    if "--baseline" in sys.argv:
        for pid in want or ["C02", "C03", "C14"]:
            rc, out = run_check(pid)
            print("baseline %s: exit %d" % (pid, rc))
            print("\n".join(l for l in out.splitlines() if not l.startswith("  ")))
    for pid, name, path, old, new in MUTATIONS:
        if want and pid not in want:
            continue
        p = os.path.join(MUT, "repo", path)
        original = open(p).read()
        if original.count(old) != 1:
            print("MUTATION %s/%s: pattern not found exactly once in %s" % (pid, name, path))
            results.append((pid, name, "pattern-missing"))
            continue
        open(p, "w").write(original.replace(old, new))
        t0 = time.time()
        try:
            rc, out = run_check(pid)
        finally:
            open(p, "w").write(original)
        viol = [l for l in out.splitlines() if l.startswith("VIOLATION")]
        caught = rc == 1 and bool(viol)
        print("MUTATION %s/%s: exit %d, %d VIOLATION line(s), %s (%.0fs)" % (
            pid, name, rc, len(viol), "CAUGHT" if caught else "NOT CAUGHT", time.time() - t0))
        for l in out.splitlines():
            if l.startswith(("VIOLATION", "TOOL-ERROR", "NOTE", "  {")):
                print("    " + l[:300])
        results.append((pid, name, "caught" if caught else "missed(rc=%d)" % rc))
    print(json.dumps(results))
    if "--keep" not in sys.argv:
        for d in ("repo", "work", "evidence", "replays"):
            shutil.rmtree(os.path.join(MUT, d), ignore_errors=True)
    return 0 if all(r[2] == "caught" for r in results) else 1


if __name__ == "__main__":
    sys.exit(main())
