#!/usr/bin/env python3
"""usage: tools/seed_group_task.py <group-name> <Cxx> <Cyy> ...  — writes /tmp/seed/<group>/_TASK.txt (round 2:
lists one-line summaries of earlier seeded changes so that the new ones differ in kind)."""
import json, sys, glob, os
g = sys.argv[1]; ids = sys.argv[2:]
props = {json.loads(l)['id']: json.loads(l) for l in open('/verif/properties.jsonl')}
wt = "/tmp/seed/%s" % g
txt = f"""You are testing how robust a codebase's safety net is. You get a scratch git worktree of the repository gmsol-labs/gmx-solana (GMX perpetuals/liquidity exchange ported to Solana: Anchor on-chain programs (store, treasury, timelock, ...), a pure-Rust market math model, SDK and CLI) at {wt} — work ONLY inside that directory (never touch /repo or /verif, do not read anything under /verif). The sandbox is offline (use `cargo ... --offline`); the workspace builds. IMPORTANT: run `export CARGO_TARGET_DIR={wt}/target` before any cargo command, and scope builds/tests to the crates you touch (`cargo test --offline -p <crate>`); building gmsol-store or gmsol-sdk takes many minutes on this shared machine, so build as few times as possible (write all changes first, reason carefully, then build/test).

Here are {len(ids)} semantic properties that should hold for this codebase:
"""
for i in ids:
    p = props[i]
    txt += f"""
  id: {p['id']}
  title: {p['title']}
  statement: {p['statement']}
  holds for: {p['quantifier']['text']}
  code it is anchored in: {', '.join(p['anchors']['files'])}
"""
    prev = []
    for d in sorted(glob.glob('/verif/seeded/%s-*' % i)):
        try:
            prev.append(json.load(open(d + '/meta.json')).get('summary', '')[:180].replace("\n", " "))
        except Exception:
            pass
    if prev:
        txt += "  (changes of these kinds were already tried by others — make yours DIFFERENT in kind and location:\n" + "".join("     - %s\n" % s for s in prev) + "  )\n"
txt += f"""
YOUR TASK: for EACH property write ONE realistic change to the repository's source (independent patches, each against the clean tree) — the kind of slip a maintainer could make in a refactor, optimisation or feature addition: 1–15 changed lines, plausible, not sabotage-looking — that BREAKS that property while the code still compiles and the repository's existing test suite still passes (run at least the tests of every crate you touched: `cargo test --offline -p <crate>`; warnings are fine). Prefer changes that need something specific to manifest — a particular input class (type-limit values, zero, exact-fit sizes, one side / one token / one key only), a multi-step sequence of operations, a particular ordering or timing, an unusual configuration, a particular role or signer, two cooperating sites that each look fine alone — NOT ones that ordinary use or the existing tests would expose at once. Do not touch tests, do not add cfg flags, do not change public signatures. (Ignore `#[cfg(gmsol_verif)]` blocks in the sources: they are inert instrumentation.)

Then for each write a DEMONSTRATION: a small Rust test in a NEW file (an integration test `<crate>/tests/seed_demo_<id>.rs`, or — when private items or on-chain account structs are needed — a new `#[cfg(test)]` module file `seed_demo_<id>.rs` next to the code plus the one `#[cfg(test)] mod ...;` line registering it) that FAILS with the change and PASSES without it. If a full demonstration is impractical for an instruction-level change, demonstrate at the level of the function/struct the change touches, or explain precisely in meta.json the instruction sequence that exposes it. Verify both directions yourself.

Deliver, inside {wt}/_seed/<property id>/ for each property:
  patch.diff   — `git diff` of the source change ONLY (not the demonstration), applicable with `git apply` at the repo root of a clean tree;
  demo.diff    — the diff adding the demonstration (separately applicable);
  meta.json    — {{"property": "<id>", "summary": "...what the change does...", "needs": "...what is needed for it to manifest...", "files": [...], "tests_run": ["commands you ran and their result"], "demo_cmd": "command that runs the demonstration (including the export of CARGO_TARGET_DIR)"}}
Leave the worktree clean of source changes at the end (the _seed directory stays). Your final message: for each property, 3 lines summarising the change, what it needs to manifest, and the demo command."""
os.makedirs(wt, exist_ok=True)
open(wt + "/_TASK.txt", "w").write(txt)
print(wt)
