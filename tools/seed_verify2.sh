#!/bin/bash
# usage: tools/seed_verify2.sh <seed-id> <worktree> <crate> [extra cargo test args for the suite]
# Like seed_verify.sh but runs the demonstration with the seed's own demo_cmd (in-crate demo modules).
id="$1"; wt="$2"; crate="$3"; shift 3
d="/verif/seeded/$id"
cd "$wt" || exit 2
export CARGO_TARGET_DIR="$wt/target"
git checkout -q -- . ; git clean -fdq -e _seed -e target -e _TASK.txt .
demo=$(python3 -c "import json;print(json.load(open('$d/meta.json')).get('demo_cmd',''))")
git apply "$d/demo.diff" || { echo "RESULT $id demo.diff does not apply"; exit 2; }
bash -c "$demo" > /tmp/sv-$id-clean.log 2>&1; clean_rc=$?
git apply "$d/patch.diff" || { echo "RESULT $id patch.diff does not apply"; git checkout -q -- .; exit 2; }
bash -c "$demo" > /tmp/sv-$id-mut.log 2>&1; mut_rc=$?
cargo test --offline -p "$crate" "$@" > /tmp/sv-$id-suite.log 2>&1
bad=$(grep -E "^test .* FAILED$" /tmp/sv-$id-suite.log | grep -v -i "seed_demo" | wc -l)
npass=$(grep -E "^test result" /tmp/sv-$id-suite.log | head -1)
git checkout -q -- . ; git clean -fdq -e _seed -e target -e _TASK.txt .
echo "RESULT $id demo_clean_rc=$clean_rc demo_mut_rc=$mut_rc existing_tests_failing=$bad [$npass] => $([ $clean_rc -eq 0 ] && [ $mut_rc -ne 0 ] && [ $bad -eq 0 ] && echo CONFIRMED || echo REJECTED)"
