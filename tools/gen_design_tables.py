#!/usr/bin/env python3
"""Rewrite the generated tables of DESIGN.md (between <!-- BEGIN x --> / <!-- END x --> markers):
 asbuilt  — per property: level, spec modules, driver binaries, states / events of the last quick run
 seeded   — per seeded change: property, what it does, caught by which check / monitors"""
import json, glob, re, os
V = os.path.dirname(os.path.dirname(os.path.abspath(__file__)))

def asbuilt():
    rows = ["| id | level | TLA+ modules (MC = bounded model, Trace = trace spec) | driver (crate/bin) | states / events / traces (last quick run) |", "|---|---|---|---|---|"]
    for i in range(1, 46):
        pid = "C%02d" % i
        r = json.load(open(V + '/tools/registry/%s.json' % pid))
        src = open(V + '/tools/props/%s.py' % pid.lower()).read()
        for extra in set(re.findall(r"import (\w+)", src)) | set(re.findall(r"from props import (\w+)", src)):
            f = V + '/tools/props/%s.py' % extra
            if os.path.exists(f):
                src += open(f).read()
        mods = sorted(set(m for m in re.findall(r'"((?:MC|Trace|Wide)_\w+?)(?:_thorough|_q|_quick)?"', src)))
        bins = sorted(set(re.findall(r'build\((?:ctx, )?"(h-[\w-]+)", "(\w+)"\)', src)))
        try:
            c = json.load(open(V + '/evidence/%s.json' % pid))['coverage']
        except Exception:
            c = {}
        rows.append("| %s | %s | %s | %s | %s / %s / %s |" % (pid, r['level'], ", ".join(mods), ", ".join("%s/%s" % b for b in bins),
                    c.get('states', '-'), c.get('evaluations', '-'), c.get('traces_validated_against_impl', '-')))
    return "\n".join(rows)

def seeded():
    rows = ["| seed | property | what the change does (needs) | result | monitors that fired |", "|---|---|---|---|---|"]
    for d in sorted(glob.glob(V + '/seeded/C*')):
        sid = os.path.basename(d)
        m = json.load(open(d + '/meta.json'))
        det = m.get('detection', {})
        prop = m['property'] if isinstance(m['property'], str) else ",".join(m['property'])
        what = (m.get('summary', '')[:170] + " — needs: " + m.get('needs', '')[:120]).replace("|", "/").replace("\n", " ")
        rows.append("| %s | %s | %s | %s | %s |" % (sid, prop, what, det.get('result', '?'), ", ".join(det.get('monitors', []))[:120]))
    return "\n".join(rows)

p = V + '/DESIGN.md'
s = open(p).read()
for name, fn in (("asbuilt", asbuilt), ("seeded", seeded)):
    b, e = "<!-- BEGIN %s -->" % name, "<!-- END %s -->" % name
    if b in s:
        s = s[:s.index(b) + len(b)] + "\n" + fn() + "\n" + s[s.index(e):]
open(p, 'w').write(s)
print("tables regenerated")
