"""Glue shared by every property check: build the harness against /repo's working tree,
run TLC / Apalache under a timeout, parse what they print, apply known findings, write evidence.

Exit codes of a check: 0 = held on everything explored (KNOWN-FINDING lines allowed),
1 = VIOLATION line printed, 2 = tool error / timeout / vacuous run (never a violation)."""
import json, os, re, subprocess, sys, time, shutil, hashlib

VERIF = os.path.dirname(os.path.dirname(os.path.abspath(__file__)))
# The registered commands never set these variables: they exist so that tools/seed_iso.sh can run a
# check against a scratch copy of the harness (path deps rewritten to a patched scratch copy of
# /repo) without disturbing /repo, /verif/evidence or the shared cargo target directory.
HARNESS = os.environ.get("VERIF_HARNESS_DIR") or os.path.join(VERIF, "harness")
SPECS = os.path.join(VERIF, "specs")
WORK = os.environ.get("VERIF_WORK_DIR") or os.path.join(VERIF, "work")
EVID = os.environ.get("VERIF_EVIDENCE_DIR") or os.path.join(VERIF, "evidence")
REPO = os.environ.get("VERIF_REPO_DIR") or "/repo"      # source tree read by static extractions
REPLAYS = os.environ.get("VERIF_REPLAYS_DIR") or os.path.join(VERIF, "replays")
TLA_JAR = "/opt/veriftools/tla/tla2tools.jar"
NCPU = os.cpu_count() or 8


class ToolError(Exception):
    pass


def log(*a):
    print(*a, flush=True)


def sh(cmd, cwd=None, env=None, timeout=None, stdin=None):
    e = dict(os.environ)
    if env:
        e.update(env)
    t0 = time.time()
    try:
        p = subprocess.run(cmd, cwd=cwd, env=e, timeout=timeout, input=stdin,
                           stdout=subprocess.PIPE, stderr=subprocess.STDOUT, text=True,
                           errors="replace")
    except subprocess.TimeoutExpired as ex:
        out = ex.stdout if isinstance(ex.stdout, str) else (ex.stdout or b"").decode(errors="replace")
        raise ToolError(f"timeout after {timeout}s: {' '.join(cmd)[:200]}\n{out[-2000:]}")
    return p.returncode, p.stdout, time.time() - t0


class TlcResult:
    def __init__(self):
        self.generated = 0
        self.distinct = 0
        self.depth = 0
        self.ok = False
        self.violated = None       # name of violated invariant/property, if any
        self.error = None          # tool-level error text
        self.lines = {}            # tag -> list of parsed JSON payloads printed by the spec
        self.coverage = {}         # action name -> (distinct, total)
        self.raw = ""
        self.wall = 0.0

    def tagged(self, tag):
        return self.lines.get(tag, [])


_COV_RE = re.compile(r"^<(\w+) line \d+, col \d+ to line \d+, col \d+ of module (\w+)(?: \([\d ]+\))?>: (\d+):(\d+)")


def parse_tlc(out):
    r = TlcResult()
    r.raw = out
    for line in out.splitlines():
        s = line.strip()
        if s.startswith('"') and s.endswith('"') and "|" in s[:24]:
            try:
                val = json.loads(s)
                tag, payload = val.split("|", 1)
                try:
                    payload = json.loads(payload)
                except Exception:
                    pass
                r.lines.setdefault(tag, []).append(payload)
                continue
            except Exception:
                pass
        m = re.match(r"^(\d+) states generated, (\d+) distinct states found", s)
        if m:
            r.generated, r.distinct = int(m.group(1)), int(m.group(2))
        m = re.match(r"^The depth of the complete state graph search is (\d+)", s)
        if m:
            r.depth = int(m.group(1))
        if s.startswith("Model checking completed. No error has been found"):
            r.ok = True
        m = re.match(r"^Error: Invariant (\S+) is violated", s)
        if m:
            r.violated = m.group(1)
        m = re.match(r"^Error: Action property (\S+) is violated", s)
        if m:
            r.violated = m.group(1)
        if s.startswith("Error: Temporal properties were violated"):
            r.violated = r.violated or "temporal"
        m = _COV_RE.match(s)
        if m:
            name = m.group(1)
            d, t = int(m.group(3)), int(m.group(4))
            od, ot = r.coverage.get(name, (0, 0))
            r.coverage[name] = (od + d, ot + t)
        if s.startswith("Error:") and r.violated is None and r.error is None:
            r.error = s
    return r


def tlc(module_path, cfg_path, workers=8, env=None, extra=None, timeout=900, heap="8g",
        metadir=None, simulate=None, deque=False, coverage=False, cwd=None):
    """Run TLC. module_path/cfg_path absolute. Returns TlcResult (raises ToolError on timeouts)."""
    cwd = cwd or os.path.dirname(module_path)
    metadir = metadir or os.path.join(WORK, "tlc-meta", "%d-%d" % (os.getpid(), int(time.time() * 1000) % 10**9))
    os.makedirs(metadir, exist_ok=True)
    jopts = "-Xss1g"
    if deque:
        jopts += " -Dtlc2.tool.queue.IStateQueue=StateDeque"
    e = {"JAVA_TOOL_OPTIONS": jopts}
    if env:
        e.update(env)
    cp = TLA_JAR + ":/opt/veriftools/tla/CommunityModules-deps.jar"
    cmd = ["java", "-Xmx" + heap, "-XX:+UseParallelGC", "-cp", cp, "tlc2.TLC",
           "-workers", str(workers), "-metadir", metadir, "-cleanup", "-noGenerateSpecTE",
           "-config", cfg_path]
    if coverage:
        cmd += ["-coverage", "1"]
    if simulate:
        cmd += ["-simulate", simulate]
    if extra:
        cmd += extra
    cmd += [module_path]
    rc, out, wall = sh(cmd, cwd=cwd, env=e, timeout=timeout)
    shutil.rmtree(metadir, ignore_errors=True)
    r = parse_tlc(out)
    r.wall = wall
    r.rc = rc
    if rc != 0 and r.violated is None and r.error is None:
        r.error = "tlc exit %d" % rc
    return r


def which_tlc_cp():
    # find the classpath the `tlc` wrapper uses so CommunityModules resolve
    try:
        txt = open(shutil.which("tlc")).read()
        m = re.search(r"-cp\s+(\S+)", txt)
        if m:
            return m.group(1).strip('"')
    except Exception:
        pass
    return TLA_JAR


def sany(module_path):
    rc, out, _ = sh(["tla-sany", os.path.basename(module_path)], cwd=os.path.dirname(module_path), timeout=120)
    return rc == 0 and "Semantic errors" not in out and "Fatal" not in out and "Parse Error" not in out, out


class Finding:
    def __init__(self, d):
        self.d = d


_KNOWN_CACHE = None


def load_known():
    p = os.path.join(VERIF, "known_findings.json")
    if not os.path.exists(p):
        return []
    global _KNOWN_CACHE
    if _KNOWN_CACHE is None:
        for attempt in range(5):
            try:
                _KNOWN_CACHE = json.load(open(p)).get("findings", [])
                break
            except ValueError:
                time.sleep(0.5)
        else:
            raise ToolError("known_findings.json is not valid JSON")
    return _KNOWN_CACHE


def match_known(pid, viol):
    """viol: dict with at least monitor, and arbitrary fields. A known finding matches when it has
    status 'open', the same property, and every key of its 'match' equals the violation's field."""
    for k in load_known():
        if k.get("property") != pid or k.get("status") != "open":
            continue
        m = k.get("match", {})
        ok = True
        # A known finding describes behaviour of the *design* (the precise specification shows the
        # same failure).  A failing event on which the code deviates from the precise specification is
        # therefore a different violation and is never suppressed.
        if viol.get("conforms") is False and not k.get("allow_drift", False):
            ok = False
        for key, want in m.items():
            have = viol.get(key)
            if isinstance(want, list):
                if have not in want:
                    ok = False
            elif have != want:
                ok = False
        if ok:
            return k
    return None


class Ctx:
    def __init__(self, pid, tier, seed):
        self.pid, self.tier, self.seed = pid, tier, seed
        self.t0 = time.time()
        self.wd = os.path.join(WORK, pid)
        shutil.rmtree(self.wd, ignore_errors=True)
        os.makedirs(self.wd, exist_ok=True)
        self.violations = []     # unknown violations
        self.known_hits = {}     # finding id -> count
        self.notes = []
        self.cov = {"samples": [], "trusted_base": []}
        self.assumptions = []
        self.states = 0
        self.transitions = 0
        self.traces = 0
        self.evaluations = 0
        self.distinct = 0
        self.drift = 0
        self.drift_first = None
        self.exhaustive = None
        self.tool_errors = []

    @property
    def quick(self):
        return self.tier == "quick"

    def path(self, name):
        return os.path.join(self.wd, name)

    # ---- building and running the harness against /repo's working tree
    def build(self, crate, bin):
        """cargo build of one driver binary: always compiles /repo's current working tree."""
        rc, out, wall = sh(["cargo", "build", "--offline", "-q", "-p", crate, "--bin", bin], cwd=HARNESS, timeout=3000)
        if rc != 0:
            raise ToolError("cargo build -p %s --bin %s failed:\n%s" % (crate, bin, out[-4000:]))
        log("  build %s/%s: %.1fs" % (crate, bin, wall))

    def run_bin(self, bin, args, timeout=1800, stdin=None):
        crate = bin
        exe = os.path.join(HARNESS, "target", "debug", bin)
        rc, out, wall = sh([exe] + [str(a) for a in args], cwd=self.wd, timeout=timeout, stdin=stdin,
                           env={"RUST_BACKTRACE": "0"})
        if rc != 0:
            raise ToolError("%s %s exited %d:\n%s" % (crate, " ".join(map(str, args)), rc, out[-4000:]))
        return out

    # ---- TLC
    def spec(self, name):
        return os.path.join(SPECS, name)

    def model_check(self, module, cfg=None, workers=8, timeout=900, env=None, expect_actions=None,
                    simulate=None, heap="8g", count=True, coverage=True):
        """Exhaustive (or simulated) TLC run of a bounded model. Any invariant violation here is a
        statement about the *specification*, reported as a tool error (the design must satisfy the
        monitors before they may judge code)."""
        mp = self.spec(module + ".tla")
        cp = self.spec((cfg or module) + ".cfg")
        r = tlc(mp, cp, workers=workers, timeout=timeout, env=env, coverage=coverage, simulate=simulate, heap=heap)
        log("  tlc %s: %d generated, %d distinct, depth %d, %.1fs%s" % (
            cfg or module, r.generated, r.distinct, r.depth, r.wall,
            "" if r.ok else " [NOT OK: %s]" % (r.violated or r.error)))
        if r.violated:
            raise ToolError("specification %s violates its own invariant %s (monitor calibration)\n%s"
                            % (module, r.violated, r.raw[-3000:]))
        if not r.ok and not simulate:
            raise ToolError("TLC failed on %s: %s\n%s" % (module, r.error, r.raw[-3000:]))
        if simulate and r.error and "Overflow" in (r.error or ""):
            raise ToolError("TLC overflow on %s: %s" % (module, r.error))
        if expect_actions:
            for a in expect_actions:
                if r.coverage.get(a, (0, 0))[1] == 0:
                    raise ToolError("vacuity: action %s of %s was never taken" % (a, module))
        if count:
            self.states += r.distinct
            self.transitions += r.generated
        return r

    def validate_trace(self, module, trace_path, cfg=None, timeout=1800, heap="4g", env=None):
        """TLC trace validation: the trace spec walks the recorded ndjson, prints MONFAIL / DRIFT /
        DONE lines. Returns (fails, drifts, stats)."""
        mp = self.spec(module + ".tla")
        cp = self.spec((cfg or module) + ".cfg")
        e = {"TRACE": trace_path}
        if env:
            e.update(env)
        r = tlc(mp, cp, workers=1, timeout=timeout, env=e, heap=heap)
        done = r.tagged("DONE")
        n = sum(1 for _ in open(trace_path))
        if r.violated or not r.ok or not done:
            raise ToolError("trace validation %s did not complete on %s: %s\n%s"
                            % (module, trace_path, r.violated or r.error, r.raw[-3000:]))
        d = done[-1]
        if d.get("events") != n:
            raise ToolError("trace validation %s consumed %s of %d events" % (module, d.get("events"), n))
        fails = r.tagged("MONFAIL")
        drifts = r.tagged("DRIFT")
        # a failing event "conforms" when the code did there exactly what the precise specification
        # predicts: only such failures can be instances of a recorded (design-level) known finding
        drift_idx = {d.get("i") for d in drifts if isinstance(d, dict)}
        for f in fails:
            if isinstance(f, dict):
                f["conforms"] = f.get("i") not in drift_idx
        stats = r.tagged("STAT")
        log("  trace %s on %s: %d events, %d monitor failures, %d drift, %.1fs" % (
            module, os.path.basename(trace_path), n, len(fails), len(drifts), r.wall))
        self.traces += 1
        self.evaluations += n
        if drifts:
            self.drift += len(drifts)
            if self.drift_first is None:
                self.drift_first = drifts[0]
        return fails, drifts, r

    # ---- verdicts
    def report(self, viol, replay_obj):
        """viol: dict(monitor=..., ...classification fields...). Decides known vs new."""
        k = match_known(self.pid, viol)
        if k is not None:
            self.known_hits[k["id"]] = self.known_hits.get(k["id"], 0) + 1
            return False
        n = len(self.violations) + 1
        os.makedirs(os.path.join(REPLAYS, self.pid), exist_ok=True)
        if n <= 20:       # replay files for the first 20 violations; the rest are only counted
            p = os.path.join(REPLAYS, self.pid, "violation-%d.json" % n)
            with open(p, "w") as f:
                json.dump({"property": self.pid, "violation": viol, "replay": replay_obj, "seed": self.seed,
                           "tier": self.tier}, f, indent=1, default=str)
        else:
            p = self.violations[0][1]
        self.violations.append((viol, p))
        return True

    def note(self, s):
        self.notes.append(s)
        log("NOTE: " + s)

    def finish(self, level, rule, extra=None, exhaustive=None):
        for fid, cnt in sorted(self.known_hits.items()):
            k = [x for x in load_known() if x["id"] == fid][0]
            log("KNOWN-FINDING: property=%s %s [%s, %d occurrence(s)]" % (self.pid, k["what"], fid, cnt))
        if self.drift:
            log("NOTE: drift %d event(s) where the code differs from the precise specification "
                "(not a violation); first: %s" % (self.drift, json.dumps(self.drift_first)[:400]))
        cov = dict(self.cov)
        cov["evaluations"] = int(self.evaluations)
        cov["distinct_nontrivial"] = int(self.distinct)
        cov["rule"] = rule
        cov["states"] = int(self.states)
        cov["transitions"] = int(self.transitions)
        cov["traces_validated_against_impl"] = int(self.traces)
        cov["conformance_drift"] = int(self.drift)
        if self.drift_first is not None:
            cov["conformance_drift_first"] = self.drift_first
        cov["known_findings_hit"] = self.known_hits
        if exhaustive is not None:
            cov["exhaustive"] = bool(exhaustive)
        if extra:
            cov.update(extra)
        cov["samples"] = cov["samples"][:8]
        if not cov["samples"]:
            cov["samples"] = ["(none recorded)"]
        if level == "model_checking" and (self.states < 1 or self.transitions < 1):
            level = "exploration"
        ev = {"property_id": self.pid, "tier": self.tier, "seed": int(self.seed), "level": level,
              "coverage": cov, "assumptions": self.assumptions, "wall_s": round(time.time() - self.t0, 2),
              "violations": len(self.violations), "notes": self.notes}
        os.makedirs(EVID, exist_ok=True)
        with open(os.path.join(EVID, self.pid + ".json"), "w") as f:
            json.dump(ev, f, indent=1, default=str)
        for viol, p in self.violations[:5]:
            log("VIOLATION property=%s replay=%s" % (self.pid, p))
            log("  " + json.dumps(viol, default=str)[:600])
        if self.violations:
            return 1
        if self.evaluations < 1 or self.distinct < 2:
            log("ERROR: vacuous run (evaluations=%d distinct=%d)" % (self.evaluations, self.distinct))
            return 2
        log("OK property=%s tier=%s evaluations=%d distinct=%d states=%d wall=%.1fs" % (
            self.pid, self.tier, self.evaluations, self.distinct, self.states, time.time() - self.t0))
        return 0


def read_ndjson(path):
    with open(path) as f:
        return [json.loads(l) for l in f if l.strip()]


def write_ndjson(path, rows):
    with open(path, "w") as f:
        for r in rows:
            f.write(json.dumps(r, separators=(",", ":")) + "\n")


# ---------------------------------------------------------------------------------------------
# Wide tier: Apalache (unbounded integers) on events recorded from the real code at full width.
def _tla_val(v, ty):
    if ty == "Int":
        return str(int(v))
    if ty == "Bool":
        return "TRUE" if v else "FALSE"
    return json.dumps(str(v))


def render_events_module(path, events, schema, modname="WideData"):
    ty = ", ".join("%s: %s" % (k, t) for k, t in schema.items())
    rows = []
    for e in events:
        rows.append("  [" + ", ".join("%s |-> %s" % (k, _tla_val(e[k], t)) for k, t in schema.items()) + "]")
    with open(path, "w") as f:
        f.write("---- MODULE %s ----\nEXTENDS Integers, Sequences\n" % modname)
        f.write("\\* @type: Seq({%s});\nEvents == <<\n" % ty)
        f.write(",\n".join(rows))
        f.write("\n>>\n====\n")


def _itf_set(v):
    if isinstance(v, dict) and "#set" in v:
        out = []
        for x in v["#set"]:
            if isinstance(x, dict) and "#bigint" in x:
                out.append(int(x["#bigint"]))
            else:
                out.append(int(x))
        return sorted(out)
    return []


def _apalache_forall(workdir, props_module, dep_files, events, schema, cinit_body, pred, timeout):
    """One Apalache run: does `\\A i \\in DOMAIN Events : pred` hold?  pred is TLA+ text over `e`."""
    shutil.rmtree(workdir, ignore_errors=True)
    os.makedirs(workdir)
    for m in dep_files:
        shutil.copy(os.path.join(SPECS, m + ".tla"), workdir)
    render_events_module(os.path.join(workdir, "WideData.tla"), events, schema)
    with open(os.path.join(workdir, "W.tla"), "w") as f:
        f.write("---- MODULE W ----\nEXTENDS %s, WideData\nVARIABLE\n  \\* @type: Int;\n  x\n" % props_module)
        f.write("CInit == %s\nInit == x = 0\nNext == UNCHANGED x\n" % cinit_body)
        f.write("Inv == \\A i \\in DOMAIN Events : LET e == Events[i] IN %s\n====\n" % pred)
    cmd = ["apalache-mc", "check", "--cinit=CInit", "--inv=Inv", "--length=0",
           "--out-dir=" + os.path.join(workdir, "out"), "W.tla"]
    rc, out, w = sh(cmd, cwd=workdir, timeout=timeout, env={"JVM_ARGS": "-Xmx4g"})
    if rc == 0 and "The outcome is: NoError" in out:
        shutil.rmtree(workdir, ignore_errors=True)
        return True
    if rc == 12 or "The outcome is: Error" in out:
        return False
    raise ToolError("apalache failed (rc=%d) in %s:\n%s" % (rc, workdir, out[-3000:]))


def apalache_groups(ctx, props_module, dep_files, schema, cinit_body, jobs, parallel=6, timeout=900):
    """Wide tier. jobs: list of (label, events, pred_text). Each job is one Apalache run checking
    pred on every event of the group (unbounded integers); a failing group is bisected to the
    offending events. Returns {label: [0-based indices into that job's events]}."""
    from concurrent.futures import ThreadPoolExecutor
    t0 = time.time()

    def find_bad(label, events, pred, base, depth):
        d = os.path.join(ctx.wd, "apalache", "%s-%d-%d" % (re.sub(r"\W", "_", label), base, len(events)))
        ok = _apalache_forall(d, props_module, dep_files, events, schema, cinit_body, pred, timeout)
        if ok:
            return []
        if len(events) == 1:
            return [base]
        h = len(events) // 2
        bad = find_bad(label, events[:h], pred, base, depth + 1)
        if len(bad) >= 1:
            return bad      # one offending event per group is enough for a verdict
        return bad + find_bad(label, events[h:], pred, base + h, depth + 1)

    res = {}
    with ThreadPoolExecutor(max_workers=parallel) as ex:
        futs = {label: ex.submit(find_bad, label, events, pred, 0, 0) for (label, events, pred) in jobs if events}
        for label, f in futs.items():
            res[label] = f.result()
    n = sum(len(j[1]) for j in jobs)
    log("  apalache %s: %d groups, %d events, %d offending, %.1fs" % (
        props_module, len(jobs), n, sum(len(v) for v in res.values()), time.time() - t0))
    return res


def apalache_events(ctx, root_module, deps, events, schema, cinit, set_vars, timeout=1500, chunk=250):
    """Check `AllClean` of root_module on the events, in chunks. Returns {var: [global indices]}.
    set_vars: names of Set(Int) state variables holding offending (1-based) event indices."""
    res = {v: [] for v in set_vars}
    wall = 0.0
    for c0 in range(0, len(events), chunk):
        part = events[c0:c0 + chunk]
        d = os.path.join(ctx.wd, "apalache-%s-%d" % (cinit, c0))
        shutil.rmtree(d, ignore_errors=True)
        os.makedirs(d)
        for m in [root_module] + deps:
            shutil.copy(os.path.join(SPECS, m + ".tla"), d)
        render_events_module(os.path.join(d, "WideData.tla"), part, schema)
        cmd = ["apalache-mc", "check", "--cinit=" + cinit, "--init=Init", "--next=Next",
               "--inv=AllClean", "--length=0", "--out-dir=" + os.path.join(d, "out"),
               root_module + ".tla"]
        rc, out, w = sh(cmd, cwd=d, timeout=timeout, env={"JVM_ARGS": "-Xmx8g"})
        wall += w
        if rc == 0 and "The outcome is: NoError" in out:
            shutil.rmtree(d, ignore_errors=True)
            continue
        if rc == 12 or "The outcome is: Error" in out:
            itf = None
            for root, _, files in os.walk(os.path.join(d, "out")):
                for fn in files:
                    if fn.endswith(".itf.json") and "violation" in fn:
                        itf = os.path.join(root, fn)
            if not itf:
                raise ToolError("apalache reported a violation but no counterexample was found\n" + out[-2000:])
            st = json.load(open(itf))["states"][0]
            for v in set_vars:
                res[v] += [c0 + k for k in _itf_set(st.get(v))]
            continue
        raise ToolError("apalache failed (rc=%d) on %s:\n%s" % (rc, root_module, out[-3000:]))
    log("  apalache %s/%s: %d events, %s, %.1fs" % (root_module, cinit, len(events),
        {k: len(v) for k, v in res.items()}, wall))
    return res
