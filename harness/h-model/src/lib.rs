//! h-model: shared pieces for drivers of the pure model crate, gmsol-utils and chainlink-datastreams.
//! Every property driver is its own binary under src/bin/ (usage: <bin> <mode> [--key value ...]).
pub mod util;
pub mod vmarket;
