//! h-model: drivers for the pure model crate, gmsol-utils and chainlink-datastreams.
//! usage: h-model <property> <mode> [--seed S] [--n N] [--out FILE] [--in FILE] ...
mod props;
mod util;

fn main() {
    let argv: Vec<String> = std::env::args().collect();
    if argv.len() < 3 {
        eprintln!("usage: h-model <property> <mode> [options]");
        std::process::exit(2);
    }
    util::quiet_panics();
    let args = util::Args(argv[3..].to_vec());
    let code = props::dispatch(&argv[1], &argv[2], &args);
    std::process::exit(code);
}
