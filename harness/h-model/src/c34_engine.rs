// C34 engine, `include!`d by h-model/src/bin/c34.rs and h-programs/src/bin/c34p.rs (both crates have
// the same `util` module).  Drives any instantiation of `fixed_map!` through the trait `FMap`, logs one
// event per operation with the entries() of the real map before and after (keys as ranks in byte
// order), and replays the op sequences printed by MC_FixedMap through a prefix trie.

use serde_json::{json, Value};
use std::collections::HashMap;

pub trait FMap: Copy {
    const NAME: &'static str;
    const CAP: usize;
    fn new() -> Self;
    /// real key bytes of universe element `id`
    fn key_bytes(id: usize) -> Vec<u8>;
    fn insert_opts(&mut self, id: usize, v: u64, new: bool) -> Result<Option<u64>, String>;
    fn insert_plain(&mut self, id: usize, v: u64) -> Option<u64>;
    fn get(&self, id: usize) -> Option<u64>;
    /// read through get_mut, then write `v` through the same reference
    fn get_mut_set(&mut self, id: usize, v: u64) -> Option<u64>;
    fn remove(&mut self, id: usize) -> Option<u64>;
    fn clear(&mut self);
    fn len(&self) -> usize;
    fn is_empty(&self) -> bool;
    fn entry_at(&self, i: usize) -> Option<(Vec<u8>, u64)>;
    fn entries(&self) -> Vec<(Vec<u8>, u64)>;
}

/// impl_fmap!(Wrapper, MapType, "name", CAP, KeyOwned, KeyRef, make_key, key_bytes, ValType, make_val, val_id)
#[macro_export]
macro_rules! impl_fmap {
    ($w:ident, $map:ty, $name:expr, $cap:expr, $ko:ty, $kr:ty, $mk:expr, $kb:expr, $vt:ty, $mv:expr, $vid:expr) => {
        #[derive(Clone, Copy)]
        pub struct $w($map);
        impl FMap for $w {
            const NAME: &'static str = $name;
            const CAP: usize = $cap;
            fn new() -> Self {
                $w(<$map>::default())
            }
            fn key_bytes(id: usize) -> Vec<u8> {
                let k: $ko = ($mk)(id);
                ($kb)(&k)
            }
            fn insert_opts(&mut self, id: usize, v: u64, new: bool) -> Result<Option<u64>, String> {
                let k: $ko = ($mk)(id);
                let kr: &$kr = std::borrow::Borrow::borrow(&k);
                self.0
                    .insert_with_options(kr, ($mv)(id, v), new)
                    .map(|o: Option<$vt>| o.map(|x| ($vid)(&x)))
                    .map_err(|e| format!("{e:?}"))
            }
            fn insert_plain(&mut self, id: usize, v: u64) -> Option<u64> {
                let k: $ko = ($mk)(id);
                let kr: &$kr = std::borrow::Borrow::borrow(&k);
                self.0.insert(kr, ($mv)(id, v)).map(|x| ($vid)(&x))
            }
            fn get(&self, id: usize) -> Option<u64> {
                let k: $ko = ($mk)(id);
                let kr: &$kr = std::borrow::Borrow::borrow(&k);
                self.0.get(kr).map(|x| ($vid)(x))
            }
            fn get_mut_set(&mut self, id: usize, v: u64) -> Option<u64> {
                let k: $ko = ($mk)(id);
                let kr: &$kr = std::borrow::Borrow::borrow(&k);
                self.0.get_mut(kr).map(|x| {
                    let old = ($vid)(x);
                    *x = ($mv)(id, v);
                    old
                })
            }
            fn remove(&mut self, id: usize) -> Option<u64> {
                let k: $ko = ($mk)(id);
                let kr: &$kr = std::borrow::Borrow::borrow(&k);
                self.0.remove(kr).map(|x| ($vid)(&x))
            }
            fn clear(&mut self) {
                self.0.clear()
            }
            fn len(&self) -> usize {
                self.0.len()
            }
            fn is_empty(&self) -> bool {
                self.0.is_empty()
            }
            fn entry_at(&self, i: usize) -> Option<(Vec<u8>, u64)> {
                self.0.get_entry_by_index(i).map(|(k, v)| (k.to_vec(), ($vid)(v)))
            }
            fn entries(&self) -> Vec<(Vec<u8>, u64)> {
                self.0.entries().map(|(k, v)| (k.to_vec(), ($vid)(v))).collect()
            }
        }
    };
}

#[derive(Clone, Debug)]
pub struct Op {
    pub op: String,
    pub k: i64, // model key / universe rank / index (entry_at)
    pub v: u64,
    pub new: bool,
}

pub struct Universe {
    pub n: usize,
    /// rank (position in byte order) -> universe id
    pub id_of_rank: Vec<usize>,
    pub rank_of_bytes: HashMap<Vec<u8>, i64>,
}

pub const EXTRA_KEYS: usize = 6;

pub fn universe<M: FMap>() -> Universe {
    let n = M::CAP + EXTRA_KEYS;
    let mut ids: Vec<(Vec<u8>, usize)> = (0..n).map(|id| (M::key_bytes(id), id)).collect();
    ids.sort();
    for w in ids.windows(2) {
        assert!(w[0].0 != w[1].0, "key universe of {} has duplicate keys", M::NAME);
    }
    let id_of_rank: Vec<usize> = ids.iter().map(|x| x.1).collect();
    let rank_of_bytes = ids.iter().enumerate().map(|(r, x)| (x.0.clone(), r as i64)).collect();
    Universe { n, id_of_rank, rank_of_bytes }
}

fn project<M: FMap>(u: &Universe, m: &M) -> Vec<(i64, u64)> {
    match guarded(|| m.entries()) {
        Ok(es) => es.into_iter().map(|(k, v)| (*u.rank_of_bytes.get(&k).unwrap_or(&-1), v)).collect(),
        Err(()) => vec![(-2, 0)],
    }
}

fn pairs(es: &[(i64, u64)]) -> Value {
    Value::Array(es.iter().map(|(k, v)| json!([k, v])).collect())
}

/// A fresh real map holding `entries` (ranks, value ids), inserted in ascending key order.  Used after a
/// panic of the code under test, which may leave the map half-updated: the run continues from the
/// reference contents before the failed operation.  Every call is guarded; whatever cannot be
/// re-inserted is left out (the next event's `pre` shows the real contents anyway).
pub fn rebuild<M: FMap>(u: &Universe, entries: &[(i64, u64)]) -> M {
    let mut m = guarded(M::new).unwrap_or_else(|_| M::new());
    for &(r, v) in entries {
        if r < 0 || r as usize >= u.n {
            continue;
        }
        let id = u.id_of_rank[r as usize];
        let mut m2 = m;
        if let Ok(Ok(_)) = guarded(|| m2.insert_opts(id, v, true)) {
            m = m2;
        }
    }
    m
}

/// Apply one operation to the real map (keys are ranks) and log the event.  A panic of the code under
/// test is data (`"panic": true`); the map is then rebuilt from the contents before the operation.
pub fn step<M: FMap>(u: &Universe, m: &mut M, o: &Op, sink: &mut Sink) {
    let pre = project(u, m);
    let id = if o.op == "entry_at" || o.k < 0 || o.k as usize >= u.n { 0 } else { u.id_of_rank[o.k as usize] };
    // (ok, some, val, ekey)
    let r: Result<(bool, bool, u64, i64), ()> = guarded(|| match o.op.as_str() {
        "insert" => match m.insert_opts(id, o.v, o.new) {
            Ok(x) => (true, x.is_some(), x.unwrap_or(0), 0),
            Err(_) => (false, false, 0, 0),
        },
        "insert_plain" => {
            let x = m.insert_plain(id, o.v);
            (true, x.is_some(), x.unwrap_or(0), 0)
        }
        "get" => {
            let x = m.get(id);
            (true, x.is_some(), x.unwrap_or(0), 0)
        }
        "get_mut" => {
            let x = m.get_mut_set(id, o.v);
            (true, x.is_some(), x.unwrap_or(0), 0)
        }
        "remove" => {
            let x = m.remove(id);
            (true, x.is_some(), x.unwrap_or(0), 0)
        }
        "clear" => {
            m.clear();
            (true, false, 0, 0)
        }
        "len" => (true, true, m.len() as u64, m.is_empty() as i64),
        "entry_at" => match m.entry_at(o.k as usize) {
            Some((kb, v)) => (true, true, v, *u.rank_of_bytes.get(&kb).unwrap_or(&-1)),
            None => (true, false, 0, 0),
        },
        "load" => (true, false, 0, 0),
        other => panic!("unknown op {other}"),
    });
    let post = project(u, m);
    let len = guarded(|| m.len()).unwrap_or(usize::MAX) as i64;
    let (ok, some, val, ekey) = r.unwrap_or((false, false, 0, 0));
    sink.emit(json!({"tgt": M::NAME, "cap": M::CAP, "op": o.op, "k": o.k, "v": o.v, "new": o.new,
                     "pre": pairs(&pre), "post": pairs(&post), "ok": ok, "some": some, "val": val, "ekey": ekey,
                     "len": len, "panic": r.is_err()}));
    if r.is_err() {
        *m = rebuild::<M>(u, &pre);
    }
}

/// model keys 1..=5 -> ranks spread over the universe; fillers = CAP - 3 other ranks (shuffled)
pub struct Embedding {
    pub model_rank: [i64; 6],
    pub fillers: Vec<i64>,
}

pub fn embedding<M: FMap>(u: &Universe, rng: &mut Rng) -> Embedding {
    let n = u.n as i64;
    let model_rank = [-1, 0, n / 4, n / 2, 3 * n / 4, n - 1];
    let mut rest: Vec<i64> = (0..n).filter(|r| !model_rank[1..].contains(r)).collect();
    for i in (1..rest.len()).rev() {
        let j = rng.below(i as u64 + 1) as usize;
        rest.swap(i, j);
    }
    rest.truncate(M::CAP.saturating_sub(3));
    Embedding { model_rank, fillers: rest }
}

pub struct Trie {
    pub ops: Vec<Op>,                // op on the edge into node i (node 0 = root, unused)
    pub children: Vec<Vec<usize>>,
}

pub fn read_paths(path: &str, every: usize) -> Trie {
    let txt = std::fs::read_to_string(path).expect("read paths");
    let mut t = Trie { ops: vec![Op { op: "root".into(), k: 0, v: 0, new: false }], children: vec![vec![]] };
    let mut index: HashMap<(usize, String), usize> = HashMap::new();
    for (ln, line) in txt.lines().enumerate() {
        if line.trim().is_empty() || ln % every != 0 {
            continue;
        }
        let v: Value = serde_json::from_str(line).expect("path json");
        let mut node = 0usize;
        for o in v["path"].as_array().expect("path") {
            let op = Op {
                op: o["op"].as_str().unwrap().to_string(),
                k: o["k"].as_i64().unwrap(),
                v: o["v"].as_u64().unwrap(),
                new: o["new"].as_bool().unwrap(),
            };
            let key = (node, format!("{}/{}/{}/{}", op.op, op.k, op.v, op.new));
            node = *index.entry(key).or_insert_with(|| {
                t.ops.push(op);
                t.children.push(vec![]);
                let id = t.ops.len() - 1;
                t.children[node].push(id);
                id
            });
        }
    }
    t
}

fn dfs<M: FMap>(u: &Universe, emb: &Embedding, t: &Trie, node: usize, m: M, sink: &mut Sink) {
    for &c in &t.children[node] {
        let mut m2 = m; // the real map is Copy (zero-copy account data): snapshot
        let mo = &t.ops[c];
        let real = Op {
            op: mo.op.clone(),
            k: if mo.op == "entry_at" {
                // model index i (0..=3) -> the same position among the model keys is not meaningful on a
                // pre-filled map; probe real indices around the interesting places instead
                match mo.k { 0 => 0, 1 => (M::CAP as i64) / 2, 2 => M::CAP as i64 - 1, _ => M::CAP as i64 }
            } else if (1..=5).contains(&mo.k) {
                emb.model_rank[mo.k as usize]
            } else {
                0
            },
            v: mo.v,
            new: mo.new,
        };
        step(u, &mut m2, &real, sink);
        dfs(u, emb, t, c, m2, sink);
    }
}

/// Replay the model's paths on M: prefill CAP-3 filler keys (logged), then walk the trie.
pub fn replay<M: FMap>(t: &Trie, seed: u64, sink: &mut Sink) {
    let u = universe::<M>();
    let mut rng = Rng::new(seed ^ M::CAP as u64);
    let emb = embedding::<M>(&u, &mut rng);
    let mut m = M::new();
    for (i, &r) in emb.fillers.iter().enumerate() {
        step(&u, &mut m, &Op { op: "insert".into(), k: r, v: 100 + i as u64 % 50, new: true }, sink);
    }
    dfs(&u, &emb, t, 0, m, sink);
}

/// Seeded random operation sequences over CAP + 6 keys, biased to full maps.
pub fn random_ops<M: FMap>(seed: u64, n: u64, sink: &mut Sink) {
    let u = universe::<M>();
    let mut rng = Rng::new(seed ^ ((M::CAP as u64) << 20) ^ 0x34);
    let mut m = M::new();
    let mut filling = true;
    for _ in 0..n {
        // probing calls are calls of the code under test too: never let them take the driver down
        let len = guarded(|| m.len()).unwrap_or(0).min(M::CAP + 1);
        if len >= M::CAP {
            filling = false;
        }
        if len == 0 {
            filling = true;
        }
        let k = rng.below(u.n as u64) as i64;
        let present: Option<i64> = if len > 0 {
            let at = rng.below(len as u64) as usize;
            guarded(|| m.entry_at(at)).ok().flatten().and_then(|(kb, _)| u.rank_of_bytes.get(&kb).copied())
        } else {
            None
        };
        let v = 1 + rng.below(9);
        let c = rng.below(100);
        let o = if filling && c < 70 {
            Op { op: "insert".into(), k, v, new: rng.chance(1, 2) }
        } else {
            match c % 20 {
                0..=4 => Op { op: "insert".into(), k, v, new: rng.chance(1, 2) },
                5 => Op { op: "insert".into(), k: present.unwrap_or(k), v, new: rng.chance(1, 2) },
                6 => {
                    // the convenience insert() is insert_with_options().expect(): only legal when it cannot fail
                    let absent = guarded(|| m.get(u.id_of_rank[k as usize]).is_none()).unwrap_or(true);
                    if len >= M::CAP && absent {
                        Op { op: "insert".into(), k, v, new: false }
                    } else {
                        Op { op: "insert_plain".into(), k, v, new: false }
                    }
                }
                7..=9 => Op { op: "remove".into(), k: if rng.chance(2, 3) { present.unwrap_or(k) } else { k }, v: 0, new: false },
                10..=11 => Op { op: "get".into(), k: if rng.chance(1, 2) { present.unwrap_or(k) } else { k }, v: 0, new: false },
                12 => Op { op: "get_mut".into(), k: if rng.chance(2, 3) { present.unwrap_or(k) } else { k }, v, new: false },
                13..=14 => Op { op: "entry_at".into(), k: *rng.pick(&[0, len as i64 - 1, len as i64, M::CAP as i64 - 1, M::CAP as i64, M::CAP as i64 + 1]).max(&0), v: 0, new: false },
                15 => Op { op: "len".into(), k: 0, v: 0, new: false },
                16 if rng.chance(1, 6) => Op { op: "clear".into(), k: 0, v: 0, new: false },
                _ => Op { op: "remove".into(), k: present.unwrap_or(k), v: 0, new: false },
            }
        };
        step(&u, &mut m, &o, sink);
    }
}
