use crate::util::Args;
pub mod c01;

pub fn dispatch(prop: &str, mode: &str, args: &Args) -> i32 {
    match prop {
        "c01" => c01::run(mode, args),
        _ => {
            eprintln!("unknown property {prop}");
            2
        }
    }
}
