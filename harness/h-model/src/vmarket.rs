//! Deterministic market and position implementing the gmsol-model traits: a copy of the repo's
//! `crates/model/src/test.rs` (not compiled into non-test builds there) with an explicit clock in
//! seconds, public fields for state injection/projection, optional virtual inventories and a
//! callback log.  The *actions* executed on it are the repository's generic code.
#![allow(clippy::arithmetic_side_effects)]

use std::{
    collections::HashMap,
    fmt,
    ops::{Deref, DerefMut},
};

use gmsol_model::{
    action::decrease_position::DecreasePositionSwapType,
    clock::ClockKind,
    fixed::FixedPointOps,
    market::{
        BaseMarket, BorrowingFeeMarketMut, LiquidityMarket, LiquidityMarketMut, PerpMarket,
        PnlFactorKind, PositionImpactMarket, SwapMarket,
    },
    num::{MulDiv, Num, Unsigned, UnsignedAbs},
    params::{
        fee::{
            BorrowingFeeKinkModelParams, BorrowingFeeKinkModelParamsForOneSide, BorrowingFeeParams,
            FundingFeeParams, LiquidationFeeParams,
        },
        position::PositionImpactDistributionParams,
        FeeParams, PositionParams, PriceImpactParams,
    },
    pool::{Balance, Delta, Pool},
    position::Position,
    BaseMarketMut, BorrowingFeeMarket, PerpMarketMut, PositionImpactMarketMut, PositionMut,
    PositionState, PositionStateMut, SwapMarketMut,
};
use num_traits::{CheckedSub, Signed};

/// Test Pool.
#[derive(Debug, Default, Clone, Copy, PartialEq, Eq)]
pub struct TestPool<T> {
    pub long_amount: T,
    pub short_amount: T,
}

impl<T> Balance for TestPool<T>
where
    T: MulDiv + Num + CheckedSub,
{
    type Num = T;

    type Signed = T::Signed;

    fn long_amount(&self) -> gmsol_model::Result<Self::Num> {
        Ok(self.long_amount.clone())
    }

    fn short_amount(&self) -> gmsol_model::Result<Self::Num> {
        Ok(self.short_amount.clone())
    }
}

impl<T> Pool for TestPool<T>
where
    T: MulDiv + Num + CheckedSub,
{
    fn checked_apply_delta(&self, delta: Delta<&Self::Signed>) -> gmsol_model::Result<Self> {
        let mut ans = self.clone();
        if let Some(amount) = delta.long() {
            ans.apply_delta_to_long_amount(amount)?;
        }
        if let Some(amount) = delta.short() {
            ans.apply_delta_to_short_amount(amount)?;
        }
        Ok(ans)
    }

    fn apply_delta_to_long_amount(&mut self, delta: &Self::Signed) -> Result<(), gmsol_model::Error> {
        if delta.is_positive() {
            self.long_amount = self
                .long_amount
                .checked_add(&delta.unsigned_abs())
                .ok_or(gmsol_model::Error::Overflow)?;
        } else {
            self.long_amount = self
                .long_amount
                .checked_sub(&delta.unsigned_abs())
                .ok_or(gmsol_model::Error::Computation("decreasing long amount"))?;
        }
        Ok(())
    }

    fn apply_delta_to_short_amount(&mut self, delta: &Self::Signed) -> Result<(), gmsol_model::Error> {
        if delta.is_positive() {
            self.short_amount = self
                .short_amount
                .checked_add(&delta.unsigned_abs())
                .ok_or(gmsol_model::Error::Overflow)?;
        } else {
            self.short_amount = self
                .short_amount
                .checked_sub(&delta.unsigned_abs())
                .ok_or(gmsol_model::Error::Computation("decreasing short amount"))?;
        }
        Ok(())
    }
}

/// Max PnL Factors.
#[derive(Debug, Clone)]
pub struct MaxPnlFactors<T> {
    /// For deposit.
    pub deposit: T,
    /// For withdrawal.
    pub withdrawal: T,
    /// For trader.
    pub trader: T,
    /// For ADL.
    pub adl: T,
}

/// Test Market.
#[derive(Debug, Clone)]
pub struct TestMarket<T: Unsigned, const DECIMALS: u8> {
    pub config: TestMarketConfig<T, DECIMALS>,
    pub total_supply: T,
    pub value_to_amount_divisor: T,
    pub funding_amount_per_size_adjustment: T,
    pub primary: TestPool<T>,
    pub swap_impact: TestPool<T>,
    pub fee: TestPool<T>,
    pub open_interest: (TestPool<T>, TestPool<T>),
    pub open_interest_in_tokens: (TestPool<T>, TestPool<T>),
    pub position_impact: TestPool<T>,
    pub borrowing_factor: TestPool<T>,
    pub funding_factor_per_second: T::Signed,
    pub funding_amount_per_size: (TestPool<T>, TestPool<T>),
    pub claimable_funding_amount_per_size: (TestPool<T>, TestPool<T>),
    pub collateral_sum: (TestPool<T>, TestPool<T>),
    pub total_borrowing: TestPool<T>,
    /// current time in seconds (deterministic)
    pub now: u64,
    /// last update per clock kind
    pub clocks: HashMap<ClockKind, u64>,
    /// virtual inventory for swaps (None = market has none)
    pub vi_swaps: Option<TestPool<T>>,
    /// virtual inventory for positions
    pub vi_positions: Option<TestPool<T>>,
    /// log of callbacks (on_insufficient_funding_fee_payment etc.)
    pub callbacks: Vec<String>,
}

impl<T: Unsigned, const DECIMALS: u8> TestMarket<T, DECIMALS> {
    /// Create a new test market.
    pub fn new(
        value_to_amount_divisor: T,
        funding_amount_per_size_adjustment: T,
        config: TestMarketConfig<T, DECIMALS>,
    ) -> Self
    where
        T: Default,
        T::Signed: Default,
    {
        Self {
            config,
            total_supply: Default::default(),
            value_to_amount_divisor,
            funding_amount_per_size_adjustment,
            primary: Default::default(),
            swap_impact: Default::default(),
            fee: Default::default(),
            open_interest: Default::default(),
            open_interest_in_tokens: Default::default(),
            position_impact: Default::default(),
            borrowing_factor: Default::default(),
            funding_factor_per_second: Default::default(),
            funding_amount_per_size: Default::default(),
            claimable_funding_amount_per_size: Default::default(),
            collateral_sum: Default::default(),
            total_borrowing: Default::default(),
            clocks: Default::default(),
            now: 0,
            vi_swaps: None,
            vi_positions: None,
            callbacks: Vec::new(),
        }
    }

    /// Move the clock forward.
    pub fn tick(&mut self, seconds: u64) {
        self.now += seconds;
    }
}

impl TestMarket<u64, 9> {
    /// Create a new [`TestMarket`] with config.
    pub fn with_config(config: TestMarketConfig<u64, 9>) -> Self {
        Self::new(1, 10_000, config)
    }
}

impl TestMarket<u128, 20> {
    /// Create a new [`TestMarket`] with config.
    pub fn with_config(config: TestMarketConfig<u128, 20>) -> Self {
        Self::new(10u128.pow(20 - 9), 10u128.pow(10), config)
    }
}

impl Default for TestMarket<u64, 9> {
    fn default() -> Self {
        Self::with_config(Default::default())
    }
}

impl Default for TestMarket<u128, 20> {
    fn default() -> Self {
        Self::with_config(Default::default())
    }
}

const SECONDS_PER_YEAR: u64 = 365 * 24 * 3600;

/// Test Market Config.
#[derive(Debug, Clone)]
pub struct TestMarketConfig<T, const DECIMALS: u8> {
    /// Swap impact params.
    pub swap_impact_params: PriceImpactParams<T>,
    /// Swap fee params.
    pub swap_fee_params: FeeParams<T>,
    /// Position params.
    pub position_params: PositionParams<T>,
    /// Position impact params.
    pub position_impact_params: PriceImpactParams<T>,
    /// Order fee params.
    pub order_fee_params: FeeParams<T>,
    /// Position impact distribution params.
    pub position_impact_distribution_params: PositionImpactDistributionParams<T>,
    /// Borrowing fee params.
    pub borrowing_fee_params: BorrowingFeeParams<T>,
    /// Borrowing fee kink model params.
    pub borrowing_fee_kink_model_params: BorrowingFeeKinkModelParamsForOneSide<T>,
    /// Funding fee params.
    pub funding_fee_params: FundingFeeParams<T>,
    /// Reserve factor.
    pub reserve_factor: T,
    /// Open interest reserve factor.
    pub open_interest_reserve_factor: T,
    /// Max PnL factors.
    pub max_pnl_factors: MaxPnlFactors<T>,
    /// Min PnL factors after ADL.
    pub min_pnl_factor_after_adl: T,
    /// Max pool amount.
    pub max_pool_amount: T,
    /// Max pool value for deposit.
    pub max_pool_value_for_deposit: T,
    /// Max open interest.
    pub max_open_interest: T,
    /// Min collateral factor for OI.
    pub min_collateral_factor_for_oi: T,
    /// Ignore open interest for usage factor.
    pub ignore_open_interest_for_usage_factor: bool,
    /// Liquidation fee params.
    pub liquidation_fee_params: LiquidationFeeParams<T>,
}

impl Default for TestMarketConfig<u64, 9> {
    fn default() -> Self {
        Self {
            swap_impact_params: PriceImpactParams::builder()
                .exponent(2_000_000_000)
                .positive_factor(4)
                .negative_factor(8)
                .build(),
            swap_fee_params: FeeParams::builder()
                .fee_receiver_factor(370_000_000)
                .positive_impact_fee_factor(500_000)
                .negative_impact_fee_factor(700_000)
                .build(),
            position_params: PositionParams::new(
                1_000_000_000,
                1_000_000_000,
                10_000_000,
                5_000_000,
                5_000_000,
                2_500_000,
            ),
            position_impact_params: PriceImpactParams::builder()
                .exponent(2_000_000_000)
                .positive_factor(1)
                .negative_factor(2)
                .build(),
            order_fee_params: FeeParams::builder()
                .fee_receiver_factor(370_000_000)
                .positive_impact_fee_factor(500_000)
                .negative_impact_fee_factor(700_000)
                .build(),
            position_impact_distribution_params: PositionImpactDistributionParams::builder()
                .distribute_factor(1_000_000_000)
                .min_position_impact_pool_amount(1_000_000_000)
                .build(),
            borrowing_fee_params: BorrowingFeeParams::builder()
                .receiver_factor(370_000_000)
                .factor_for_long(28)
                .factor_for_short(28)
                .exponent_for_long(1_000_000_000)
                .exponent_for_short(1_000_000_000)
                .build(),
            borrowing_fee_kink_model_params: BorrowingFeeKinkModelParamsForOneSide::builder()
                .optimal_usage_factor(750_000_000)
                .base_borrowing_factor(600_000_000 / SECONDS_PER_YEAR)
                .above_optimal_usage_borrowing_factor(1_500_000_000 / SECONDS_PER_YEAR)
                .build(),
            funding_fee_params: FundingFeeParams::builder()
                .exponent(1_000_000_000)
                .funding_factor(20)
                .max_factor_per_second(10)
                .min_factor_per_second(1)
                .increase_factor_per_second(10)
                .decrease_factor_per_second(0)
                .threshold_for_stable_funding(50_000_000)
                .threshold_for_decrease_funding(0)
                .build(),
            reserve_factor: 1_000_000_000,
            max_pnl_factors: MaxPnlFactors {
                deposit: 600_000_000,
                withdrawal: 300_000_000,
                trader: 500_000_000,
                adl: 500_000_000,
            },
            min_pnl_factor_after_adl: 0,
            open_interest_reserve_factor: 1_000_000_000,
            max_pool_amount: 1_000_000_000 * 1_000_000_000,
            max_pool_value_for_deposit: u64::MAX,
            max_open_interest: u64::MAX,
            // min collateral factor of 0.005 when open interest is $83,000,000
            min_collateral_factor_for_oi: 5 * 10u64.pow(6) / 83_000_000,
            ignore_open_interest_for_usage_factor: false,
            liquidation_fee_params: LiquidationFeeParams::builder()
                .factor(2_000_000)
                .receiver_factor(370_000_000)
                .build(),
        }
    }
}

impl Default for TestMarketConfig<u128, 20> {
    fn default() -> Self {
        Self {
            swap_impact_params: PriceImpactParams::builder()
                .exponent(200_000_000_000_000_000_000)
                .positive_factor(400_000_000_000)
                .negative_factor(800_000_000_000)
                .build(),
            swap_fee_params: FeeParams::builder()
                .fee_receiver_factor(37_000_000_000_000_000_000)
                .positive_impact_fee_factor(50_000_000_000_000_000)
                .negative_impact_fee_factor(70_000_000_000_000_000)
                .build(),
            position_params: PositionParams::new(
                100_000_000_000_000_000_000,
                100_000_000_000_000_000_000,
                1_000_000_000_000_000_000,
                500_000_000_000_000_000,
                500_000_000_000_000_000,
                250_000_000_000_000_000,
            ),
            position_impact_params: PriceImpactParams::builder()
                .exponent(200_000_000_000_000_000_000)
                .positive_factor(100_000_000_000)
                .negative_factor(200_000_000_000)
                .build(),
            order_fee_params: FeeParams::builder()
                .fee_receiver_factor(37_000_000_000_000_000_000)
                .positive_impact_fee_factor(50_000_000_000_000_000)
                .negative_impact_fee_factor(70_000_000_000_000_000)
                .build(),
            position_impact_distribution_params: PositionImpactDistributionParams::builder()
                .distribute_factor(100_000_000_000_000_000_000)
                .min_position_impact_pool_amount(1_000_000_000)
                .build(),
            borrowing_fee_params: BorrowingFeeParams::builder()
                .receiver_factor(37_000_000_000_000_000_000)
                .factor_for_long(2_820_000_000_000)
                .factor_for_short(2_820_000_000_000)
                .exponent_for_long(100_000_000_000_000_000_000)
                .exponent_for_short(100_000_000_000_000_000_000)
                .build(),
            borrowing_fee_kink_model_params: BorrowingFeeKinkModelParamsForOneSide::builder()
                .optimal_usage_factor(75_000_000_000_000_000_000)
                .base_borrowing_factor(60_000_000_000_000_000_000 / u128::from(SECONDS_PER_YEAR))
                .above_optimal_usage_borrowing_factor(
                    150_000_000_000_000_000_000 / u128::from(SECONDS_PER_YEAR),
                )
                .build(),
            funding_fee_params: FundingFeeParams::builder()
                .exponent(100_000_000_000_000_000_000)
                .funding_factor(2_000_000_000_000)
                .max_factor_per_second(1_000_000_000_000)
                .min_factor_per_second(30_000_000_000)
                .increase_factor_per_second(790_000_000)
                .decrease_factor_per_second(0)
                .threshold_for_stable_funding(5_000_000_000_000_000_000)
                .threshold_for_decrease_funding(0)
                .build(),
            reserve_factor: 10u128.pow(20),
            open_interest_reserve_factor: 10u128.pow(20),
            max_pnl_factors: MaxPnlFactors {
                deposit: 60_000_000_000_000_000_000,
                withdrawal: 30_000_000_000_000_000_000,
                trader: 50_000_000_000_000_000_000,
                adl: 50_000_000_000_000_000_000,
            },
            min_pnl_factor_after_adl: 0,
            max_pool_amount: 1_000_000_000 * 10u128.pow(20),
            max_pool_value_for_deposit: 1_000_000_000_000_000 * 10u128.pow(20),
            max_open_interest: 1_000_000_000 * 10u128.pow(20),
            // min collateral factor of 0.005 when open interest is $83,000,000
            min_collateral_factor_for_oi: 5 * 10u128.pow(17) / 83_000_000,
            ignore_open_interest_for_usage_factor: false,
            liquidation_fee_params: LiquidationFeeParams::builder()
                .factor(200_000_000_000_000_000)
                .receiver_factor(37_000_000_000_000_000_000)
                .build(),
        }
    }
}

impl<T, const DECIMALS: u8> TestMarket<T, DECIMALS>
where
    T: CheckedSub + fmt::Display + FixedPointOps<DECIMALS>,
    T::Signed: Num + std::fmt::Debug,
{
    fn just_passed_in_seconds(&mut self, clock: ClockKind) -> gmsol_model::Result<u64> {
        let now = self.now;
        let clock = self.clocks.entry(clock).or_insert(now);
        let duration = now.saturating_sub(*clock);
        *clock = now;
        Ok(duration)
    }

    fn passed_in_seconds(&self, clock: ClockKind) -> gmsol_model::Result<u64> {
        let now = self.now;
        let clock = self.clocks.get(&clock).unwrap_or(&now);
        Ok(now.saturating_sub(*clock))
    }
}

impl<T, const DECIMALS: u8> BaseMarket<DECIMALS> for TestMarket<T, DECIMALS>
where
    T: CheckedSub + fmt::Display + FixedPointOps<DECIMALS>,
    T::Signed: Num + std::fmt::Debug,
{
    type Num = T;

    type Signed = T::Signed;

    type Pool = TestPool<T>;

    fn liquidity_pool(&self) -> gmsol_model::Result<&Self::Pool> {
        Ok(&self.primary)
    }

    fn claimable_fee_pool(&self) -> gmsol_model::Result<&Self::Pool> {
        Ok(&self.fee)
    }

    fn swap_impact_pool(&self) -> gmsol_model::Result<&Self::Pool> {
        Ok(&self.swap_impact)
    }

    fn open_interest_pool(&self, is_long: bool) -> gmsol_model::Result<&Self::Pool> {
        if is_long {
            Ok(&self.open_interest.0)
        } else {
            Ok(&self.open_interest.1)
        }
    }

    fn open_interest_in_tokens_pool(&self, is_long: bool) -> gmsol_model::Result<&Self::Pool> {
        if is_long {
            Ok(&self.open_interest_in_tokens.0)
        } else {
            Ok(&self.open_interest_in_tokens.1)
        }
    }

    fn collateral_sum_pool(&self, is_long: bool) -> gmsol_model::Result<&Self::Pool> {
        if is_long {
            Ok(&self.collateral_sum.0)
        } else {
            Ok(&self.collateral_sum.1)
        }
    }

    fn virtual_inventory_for_swaps_pool(
        &self,
    ) -> gmsol_model::Result<Option<impl Deref<Target = Self::Pool>>> {
        Ok(self.vi_swaps.as_ref())
    }

    fn virtual_inventory_for_positions_pool(
        &self,
    ) -> gmsol_model::Result<Option<impl Deref<Target = Self::Pool>>> {
        Ok(self.vi_positions.as_ref())
    }

    fn usd_to_amount_divisor(&self) -> Self::Num {
        self.value_to_amount_divisor.clone()
    }

    fn max_pool_amount(&self, _is_long_token: bool) -> gmsol_model::Result<Self::Num> {
        Ok(self.config.max_pool_amount.clone())
    }

    fn pnl_factor_config(&self, kind: PnlFactorKind, _is_long: bool) -> gmsol_model::Result<Self::Num> {
        let factor = match kind {
            PnlFactorKind::MaxAfterDeposit => self.config.max_pnl_factors.deposit.clone(),
            PnlFactorKind::MaxAfterWithdrawal => self.config.max_pnl_factors.withdrawal.clone(),
            PnlFactorKind::MaxForTrader => self.config.max_pnl_factors.trader.clone(),
            PnlFactorKind::ForAdl => self.config.max_pnl_factors.adl.clone(),
            PnlFactorKind::MinAfterAdl => self.config.min_pnl_factor_after_adl.clone(),
            _ => return Err(gmsol_model::Error::InvalidArgument("unknown pnl factor kind")),
        };
        Ok(factor)
    }

    fn reserve_factor(&self) -> gmsol_model::Result<Self::Num> {
        Ok(self.config.reserve_factor.clone())
    }

    fn open_interest_reserve_factor(&self) -> gmsol_model::Result<Self::Num> {
        Ok(self.config.open_interest_reserve_factor.clone())
    }

    fn max_open_interest(&self, _is_long: bool) -> gmsol_model::Result<Self::Num> {
        Ok(self.config.max_open_interest.clone())
    }

    fn ignore_open_interest_for_usage_factor(&self) -> gmsol_model::Result<bool> {
        Ok(self.config.ignore_open_interest_for_usage_factor)
    }
}

impl<T, const DECIMALS: u8> BaseMarketMut<DECIMALS> for TestMarket<T, DECIMALS>
where
    T: CheckedSub + fmt::Display + FixedPointOps<DECIMALS>,
    T::Signed: Num + std::fmt::Debug,
{
    fn liquidity_pool_mut(&mut self) -> gmsol_model::Result<&mut Self::Pool> {
        Ok(&mut self.primary)
    }

    fn claimable_fee_pool_mut(&mut self) -> gmsol_model::Result<&mut Self::Pool> {
        Ok(&mut self.fee)
    }

    fn virtual_inventory_for_swaps_pool_mut(
        &mut self,
    ) -> gmsol_model::Result<Option<impl DerefMut<Target = Self::Pool>>> {
        Ok(self.vi_swaps.as_mut())
    }
}

impl<T, const DECIMALS: u8> SwapMarket<DECIMALS> for TestMarket<T, DECIMALS>
where
    T: CheckedSub + fmt::Display + FixedPointOps<DECIMALS>,
    T::Signed: Num + std::fmt::Debug,
{
    fn swap_impact_params(&self) -> gmsol_model::Result<PriceImpactParams<Self::Num>> {
        Ok(self.config.swap_impact_params.clone())
    }

    fn swap_fee_params(&self) -> gmsol_model::Result<FeeParams<Self::Num>> {
        Ok(self.config.swap_fee_params.clone())
    }
}

impl<T, const DECIMALS: u8> SwapMarketMut<DECIMALS> for TestMarket<T, DECIMALS>
where
    T: CheckedSub + fmt::Display + FixedPointOps<DECIMALS>,
    T::Signed: Num + std::fmt::Debug,
{
    fn swap_impact_pool_mut(&mut self) -> gmsol_model::Result<&mut Self::Pool> {
        Ok(&mut self.swap_impact)
    }
}

impl<T, const DECIMALS: u8> LiquidityMarket<DECIMALS> for TestMarket<T, DECIMALS>
where
    T: CheckedSub + fmt::Display + FixedPointOps<DECIMALS>,
    T::Signed: Num + std::fmt::Debug,
{
    fn total_supply(&self) -> Self::Num {
        self.total_supply.clone()
    }

    fn max_pool_value_for_deposit(&self, _is_long_token: bool) -> gmsol_model::Result<Self::Num> {
        Ok(self.config.max_pool_value_for_deposit.clone())
    }
}

impl<T, const DECIMALS: u8> LiquidityMarketMut<DECIMALS> for TestMarket<T, DECIMALS>
where
    T: CheckedSub + fmt::Display + FixedPointOps<DECIMALS>,
    T::Signed: Num + std::fmt::Debug,
{
    fn mint(&mut self, amount: &Self::Num) -> Result<(), gmsol_model::Error> {
        self.total_supply = self
            .total_supply
            .checked_add(amount)
            .ok_or(gmsol_model::Error::Overflow)?;
        Ok(())
    }

    fn burn(&mut self, amount: &Self::Num) -> gmsol_model::Result<()> {
        self.total_supply = self
            .total_supply
            .checked_sub(amount)
            .ok_or(gmsol_model::Error::Computation("burning market tokens"))?;
        Ok(())
    }
}

impl<T, const DECIMALS: u8> PositionImpactMarket<DECIMALS> for TestMarket<T, DECIMALS>
where
    T: CheckedSub + fmt::Display + FixedPointOps<DECIMALS>,
    T::Signed: Num + std::fmt::Debug,
{
    fn position_impact_pool(&self) -> gmsol_model::Result<&Self::Pool> {
        Ok(&self.position_impact)
    }

    fn position_impact_params(&self) -> gmsol_model::Result<PriceImpactParams<Self::Num>> {
        Ok(self.config.position_impact_params.clone())
    }

    fn position_impact_distribution_params(
        &self,
    ) -> gmsol_model::Result<PositionImpactDistributionParams<Self::Num>> {
        Ok(self.config.position_impact_distribution_params.clone())
    }

    fn passed_in_seconds_for_position_impact_distribution(&self) -> gmsol_model::Result<u64> {
        self.passed_in_seconds(ClockKind::PriceImpactDistribution)
    }
}

impl<T, const DECIMALS: u8> PositionImpactMarketMut<DECIMALS> for TestMarket<T, DECIMALS>
where
    T: CheckedSub + fmt::Display + FixedPointOps<DECIMALS>,
    T::Signed: Num + std::fmt::Debug,
{
    fn position_impact_pool_mut(&mut self) -> gmsol_model::Result<&mut Self::Pool> {
        Ok(&mut self.position_impact)
    }

    fn just_passed_in_seconds_for_position_impact_distribution(&mut self) -> gmsol_model::Result<u64> {
        self.just_passed_in_seconds(ClockKind::PriceImpactDistribution)
    }
}

impl<T, const DECIMALS: u8> BorrowingFeeMarket<DECIMALS> for TestMarket<T, DECIMALS>
where
    T: CheckedSub + fmt::Display + FixedPointOps<DECIMALS>,
    T::Signed: Num + std::fmt::Debug,
{
    fn borrowing_fee_params(&self) -> gmsol_model::Result<BorrowingFeeParams<Self::Num>> {
        Ok(self.config.borrowing_fee_params.clone())
    }

    fn borrowing_factor_pool(&self) -> gmsol_model::Result<&Self::Pool> {
        Ok(&self.borrowing_factor)
    }

    fn total_borrowing_pool(&self) -> gmsol_model::Result<&Self::Pool> {
        Ok(&self.total_borrowing)
    }

    fn passed_in_seconds_for_borrowing(&self) -> gmsol_model::Result<u64> {
        self.passed_in_seconds(ClockKind::Borrowing)
    }

    fn borrowing_fee_kink_model_params(
        &self,
    ) -> gmsol_model::Result<BorrowingFeeKinkModelParams<Self::Num>> {
        let for_one_side = self.config.borrowing_fee_kink_model_params.clone();
        Ok(BorrowingFeeKinkModelParams::builder()
            .long(for_one_side.clone())
            .short(for_one_side)
            .build())
    }
}

impl<T, const DECIMALS: u8> BorrowingFeeMarketMut<DECIMALS> for TestMarket<T, DECIMALS>
where
    T: CheckedSub + fmt::Display + FixedPointOps<DECIMALS>,
    T::Signed: Num + std::fmt::Debug,
{
    fn borrowing_factor_pool_mut(&mut self) -> gmsol_model::Result<&mut Self::Pool> {
        Ok(&mut self.borrowing_factor)
    }

    fn just_passed_in_seconds_for_borrowing(&mut self) -> gmsol_model::Result<u64> {
        self.just_passed_in_seconds(ClockKind::Borrowing)
    }
}

impl<T, const DECIMALS: u8> PerpMarket<DECIMALS> for TestMarket<T, DECIMALS>
where
    T: CheckedSub + fmt::Display + FixedPointOps<DECIMALS>,
    T::Signed: Num + std::fmt::Debug,
{
    fn funding_factor_per_second(&self) -> &Self::Signed {
        &self.funding_factor_per_second
    }

    fn funding_amount_per_size_adjustment(&self) -> Self::Num {
        self.funding_amount_per_size_adjustment.clone()
    }

    fn funding_fee_params(&self) -> gmsol_model::Result<FundingFeeParams<Self::Num>> {
        Ok(self.config.funding_fee_params.clone())
    }

    fn funding_amount_per_size_pool(&self, is_long: bool) -> gmsol_model::Result<&Self::Pool> {
        if is_long {
            Ok(&self.funding_amount_per_size.0)
        } else {
            Ok(&self.funding_amount_per_size.1)
        }
    }

    fn claimable_funding_amount_per_size_pool(&self, is_long: bool) -> gmsol_model::Result<&Self::Pool> {
        if is_long {
            Ok(&self.claimable_funding_amount_per_size.0)
        } else {
            Ok(&self.claimable_funding_amount_per_size.1)
        }
    }

    fn position_params(&self) -> gmsol_model::Result<PositionParams<Self::Num>> {
        Ok(self.config.position_params.clone())
    }

    fn order_fee_params(&self) -> gmsol_model::Result<FeeParams<Self::Num>> {
        Ok(self.config.order_fee_params.clone())
    }

    fn min_collateral_factor_for_open_interest_multiplier(
        &self,
        _is_long: bool,
    ) -> gmsol_model::Result<Self::Num> {
        Ok(self.config.min_collateral_factor_for_oi.clone())
    }

    fn liquidation_fee_params(&self) -> gmsol_model::Result<LiquidationFeeParams<Self::Num>> {
        Ok(self.config.liquidation_fee_params.clone())
    }
}

impl<T, const DECIMALS: u8> PerpMarketMut<DECIMALS> for TestMarket<T, DECIMALS>
where
    T: CheckedSub + fmt::Display + FixedPointOps<DECIMALS>,
    T::Signed: Num + std::fmt::Debug,
{
    fn funding_factor_per_second_mut(&mut self) -> &mut Self::Signed {
        &mut self.funding_factor_per_second
    }

    fn open_interest_pool_mut(&mut self, is_long: bool) -> gmsol_model::Result<&mut Self::Pool> {
        if is_long {
            Ok(&mut self.open_interest.0)
        } else {
            Ok(&mut self.open_interest.1)
        }
    }

    fn open_interest_in_tokens_pool_mut(
        &mut self,
        is_long: bool,
    ) -> gmsol_model::Result<&mut Self::Pool> {
        if is_long {
            Ok(&mut self.open_interest_in_tokens.0)
        } else {
            Ok(&mut self.open_interest_in_tokens.1)
        }
    }

    fn funding_amount_per_size_pool_mut(
        &mut self,
        is_long: bool,
    ) -> gmsol_model::Result<&mut Self::Pool> {
        if is_long {
            Ok(&mut self.funding_amount_per_size.0)
        } else {
            Ok(&mut self.funding_amount_per_size.1)
        }
    }

    fn claimable_funding_amount_per_size_pool_mut(
        &mut self,
        is_long: bool,
    ) -> gmsol_model::Result<&mut Self::Pool> {
        if is_long {
            Ok(&mut self.claimable_funding_amount_per_size.0)
        } else {
            Ok(&mut self.claimable_funding_amount_per_size.1)
        }
    }

    fn collateral_sum_pool_mut(&mut self, is_long: bool) -> gmsol_model::Result<&mut Self::Pool> {
        if is_long {
            Ok(&mut self.collateral_sum.0)
        } else {
            Ok(&mut self.collateral_sum.1)
        }
    }

    fn total_borrowing_pool_mut(&mut self) -> gmsol_model::Result<&mut Self::Pool> {
        Ok(&mut self.total_borrowing)
    }

    fn virtual_inventory_for_positions_pool_mut(
        &mut self,
    ) -> gmsol_model::Result<Option<impl DerefMut<Target = Self::Pool>>> {
        Ok(self.vi_positions.as_mut())
    }

    fn just_passed_in_seconds_for_funding(&mut self) -> gmsol_model::Result<u64> {
        self.just_passed_in_seconds(ClockKind::Funding)
    }

    /// Logged as `insufficient_funding:<cost>:<paid in collateral>:<paid in secondary>:<collateral is long>`
    /// (the store program emits `InsufficientFundingFeePayment` here).
    fn on_insufficient_funding_fee_payment(
        &mut self,
        cost_amount: &Self::Num,
        paid_in_collateral_amount: &Self::Num,
        paid_in_secondary_output_amount: &Self::Num,
        is_collateral_token_long: bool,
    ) -> gmsol_model::Result<()> {
        self.callbacks.push(format!(
            "insufficient_funding:{cost_amount}:{paid_in_collateral_amount}:{paid_in_secondary_output_amount}:{is_collateral_token_long}"
        ));
        Ok(())
    }
}

/// Test Position
#[derive(Debug, Clone, Copy, Default)]
pub struct TestPosition<T, const DECIMALS: u8> {
    pub is_long: bool,
    pub is_collateral_token_long: bool,
    pub collateral_token_amount: T,
    pub size_in_usd: T,
    pub size_in_tokens: T,
    pub borrowing_factor: T,
    pub funding_fee_amount_per_size: T,
    pub claimable_funding_fee_amount_per_size: (T, T),
}

impl<T: Unsigned, const DECIMALS: u8> TestPosition<T, DECIMALS>
where
    T::Signed: fmt::Debug,
{
    /// Create a [`TestPositionOps`] for ops.
    pub fn ops<'a>(
        &'a mut self,
        market: &'a mut TestMarket<T, DECIMALS>,
    ) -> TestPositionOps<'a, T, DECIMALS> {
        TestPositionOps {
            market,
            position: self,
        }
    }

    /// Create an empty long position.
    pub fn long(long_token_as_collateral: bool) -> Self
    where
        T: Default,
    {
        Self {
            is_long: true,
            is_collateral_token_long: long_token_as_collateral,
            ..Default::default()
        }
    }

    /// Create an empty short position.
    pub fn short(long_token_as_collateral: bool) -> Self
    where
        T: Default,
    {
        Self {
            is_long: false,
            is_collateral_token_long: long_token_as_collateral,
            ..Default::default()
        }
    }
}

/// Test Position.
#[derive(Debug)]
pub struct TestPositionOps<'a, T: Unsigned, const DECIMALS: u8>
where
    T::Signed: fmt::Debug,
{
    pub market: &'a mut TestMarket<T, DECIMALS>,
    pub position: &'a mut TestPosition<T, DECIMALS>,
}

impl<T, const DECIMALS: u8> PositionState<DECIMALS> for TestPositionOps<'_, T, DECIMALS>
where
    T: CheckedSub + fmt::Display + FixedPointOps<DECIMALS>,
    T::Signed: Num + std::fmt::Debug,
{
    type Num = T;

    type Signed = T::Signed;

    fn collateral_amount(&self) -> &Self::Num {
        &self.position.collateral_token_amount
    }

    fn size_in_usd(&self) -> &Self::Num {
        &self.position.size_in_usd
    }

    fn size_in_tokens(&self) -> &Self::Num {
        &self.position.size_in_tokens
    }

    fn borrowing_factor(&self) -> &Self::Num {
        &self.position.borrowing_factor
    }

    fn funding_fee_amount_per_size(&self) -> &Self::Num {
        &self.position.funding_fee_amount_per_size
    }

    fn claimable_funding_fee_amount_per_size(&self, is_long_collateral: bool) -> &Self::Num {
        if is_long_collateral {
            &self.position.claimable_funding_fee_amount_per_size.0
        } else {
            &self.position.claimable_funding_fee_amount_per_size.1
        }
    }
}

impl<T, const DECIMALS: u8> Position<DECIMALS> for TestPositionOps<'_, T, DECIMALS>
where
    T: CheckedSub + fmt::Display + FixedPointOps<DECIMALS>,
    T::Signed: Num + std::fmt::Debug,
{
    type Market = TestMarket<T, DECIMALS>;

    fn market(&self) -> &Self::Market {
        self.market
    }

    fn is_long(&self) -> bool {
        self.position.is_long
    }

    fn is_collateral_token_long(&self) -> bool {
        self.position.is_collateral_token_long
    }

    fn are_pnl_and_collateral_tokens_the_same(&self) -> bool {
        self.position.is_long == self.position.is_collateral_token_long
    }

    fn on_validate(&self) -> gmsol_model::Result<()> {
        Ok(())
    }
}

impl<T, const DECIMALS: u8> PositionMut<DECIMALS> for TestPositionOps<'_, T, DECIMALS>
where
    T: CheckedSub + fmt::Display + FixedPointOps<DECIMALS>,
    T::Signed: Num + std::fmt::Debug,
{
    fn market_mut(&mut self) -> &mut Self::Market {
        self.market
    }

    fn on_increased(&mut self) -> gmsol_model::Result<()> {
        Ok(())
    }

    fn on_decreased(&mut self) -> gmsol_model::Result<()> {
        Ok(())
    }

    fn on_swapped(
        &mut self,
        ty: DecreasePositionSwapType,
        report: &gmsol_model::action::swap::SwapReport<Self::Num, <Self::Num as Unsigned>::Signed>,
    ) -> gmsol_model::Result<()> {
        let _ = report;
        self.market.callbacks.push(format!("swapped:{ty:?}"));
        Ok(())
    }

    fn on_swap_error(
        &mut self,
        ty: DecreasePositionSwapType,
        error: gmsol_model::Error,
    ) -> gmsol_model::Result<()> {
        self.market.callbacks.push(format!("swap_error:{ty:?}:{error}"));
        Ok(())
    }
}

impl<T, const DECIMALS: u8> PositionStateMut<DECIMALS> for TestPositionOps<'_, T, DECIMALS>
where
    T: CheckedSub + fmt::Display + FixedPointOps<DECIMALS>,
    T::Signed: Num + std::fmt::Debug,
{
    fn collateral_amount_mut(&mut self) -> &mut Self::Num {
        &mut self.position.collateral_token_amount
    }

    fn size_in_usd_mut(&mut self) -> &mut Self::Num {
        &mut self.position.size_in_usd
    }

    fn size_in_tokens_mut(&mut self) -> &mut Self::Num {
        &mut self.position.size_in_tokens
    }

    fn borrowing_factor_mut(&mut self) -> &mut Self::Num {
        &mut self.position.borrowing_factor
    }

    fn funding_fee_amount_per_size_mut(&mut self) -> &mut Self::Num {
        &mut self.position.funding_fee_amount_per_size
    }

    fn claimable_funding_fee_amount_per_size_mut(
        &mut self,
        is_long_collateral: bool,
    ) -> &mut Self::Num {
        if is_long_collateral {
            &mut self.position.claimable_funding_fee_amount_per_size.0
        } else {
            &mut self.position.claimable_funding_fee_amount_per_size.1
        }
    }
}
