// C35 name generation shared by h-model/src/bin/c35.rs and h-programs/src/bin/c35p.rs (`include!`d).
// Model names (byte arrays over { 'a', NUL, U+00E9 }) printed by MC_FixedStr for a field of 3 bytes are
// re-based to a real field of n bytes so that (byte length - capacity), NUL positions relative to both
// ends and the 2-byte characters are preserved.

use serde_json::{json, Value};

pub const MODEL_N: usize = 3;

pub fn read_names(path: &str) -> Vec<String> {
    let txt = std::fs::read_to_string(path).expect("read names");
    txt.lines()
        .filter(|l| !l.trim().is_empty())
        .map(|l| {
            let v: Value = serde_json::from_str(l).expect("name json");
            let bytes: Vec<u8> = v["name"].as_array().expect("name").iter().map(|b| b.as_u64().unwrap() as u8).collect();
            String::from_utf8(bytes).expect("model names are valid UTF-8")
        })
        .collect()
}

/// the model name re-based to a field of n bytes: as is, padded in front, padded after its first char
pub fn rebase(name: &str, n: usize) -> Vec<String> {
    if n == MODEL_N {
        return vec![name.to_string()];
    }
    let pad = "a".repeat(n - MODEL_N);
    let mut out = vec![name.to_string(), format!("{pad}{name}")];
    if let Some(c) = name.chars().next() {
        let rest = &name[c.len_utf8()..];
        out.push(format!("{c}{pad}{rest}"));
    }
    out.dedup();
    out
}

pub fn random_name(rng: &mut Rng, n: usize) -> String {
    const CHARS: [char; 8] = ['a', 'Z', '_', '\0', '\u{e9}', '\u{20ac}', '\u{1F600}', ' '];
    let target = match rng.below(6) {
        0 => n,
        1 => n - 1,
        2 => n + 1,
        3 => rng.below(n as u64 / 2) as usize,
        4 => n + rng.below(n as u64) as usize,
        _ => rng.below(n as u64 + 3) as usize,
    };
    let mut s = String::new();
    while s.len() < target {
        let c = if rng.chance(5, 8) { 'a' } else { *rng.pick(&CHARS) };
        if s.len() + c.len_utf8() > target && rng.chance(1, 2) {
            s.push('b');
        } else {
            s.push(c);
        }
    }
    s
}

pub fn bytes_json(b: &[u8]) -> Value {
    Value::Array(b.iter().map(|x| json!(x)).collect())
}

/// one event; `back` = bytes returned by the getter (empty when it failed)
pub fn event(tgt: &str, n: usize, name: &str, accepted: bool, back: Option<&[u8]>, usable: bool, stage: &str, panic: bool) -> Value {
    json!({"tgt": tgt, "n": n, "name": bytes_json(name.as_bytes()), "accepted": accepted,
           "read_ok": back.is_some(), "back": bytes_json(back.unwrap_or(&[])), "usable": usable, "stage": stage, "panic": panic})
}
