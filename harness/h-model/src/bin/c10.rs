//! C10: open a position with the repository's `increase`, then immediately close it completely with
//! `decrease` at the same prices and the same clock value, on the harness-owned deterministic market.
//! Two events per round trip (the open; the close with "rt": true), each with full pre/post state.
//! modes: replay --in cases.ndjson (the domain printed by MC_PositionC10),
//!        small (deterministic sweep; the other traders' open interest is created by real increases),
//!        random --seed --n [--decimals 1|2]
#[path = "position_common/mod.rs"]
mod pc;

use h_model::util::{quiet_panics, Args, Rng, Sink};
use pc::*;
use serde_json::{json, Value};
use std::io::BufRead;

/// the round trip on (k, p = empty position); returns whether both legs succeeded
fn round_trip<const D: u8>(k: &mut Mkt<D>, p: &mut Pos<D>, c: &Value, px: &Value, dcoll: u64, dsize: u64, tag: &str, sink: &mut Sink) -> bool {
    let now = k.now;
    let a1 = args_json(dcoll, dsize, None, 0, false, false);
    let e1 = run_op(k, p, c, "increase", px, &a1, true, tag, false);
    let ok1 = e1["ok"].as_bool().unwrap();
    sink.emit(e1);
    if !ok1 {
        return false;
    }
    assert_eq!(k.now, now, "zero elapsed time");
    let a2 = args_json(0, p.size_in_usd, None, 0, false, false);
    let e2 = run_op(k, p, c, "decrease", px, &a2, false, tag, true);
    let ok2 = e2["ok"].as_bool().unwrap();
    sink.emit(e2);
    ok2
}

fn replay_case<const D: u8>(case: &Value, sink: &mut Sink) {
    let mut k = market_from::<D>(&case["m"]);
    let mut p = pos_from::<D>(&case["p"]);
    round_trip(&mut k, &mut p, &case["m"]["c"], &case["px"], u(case, "dcoll"), u(case, "dsize"), "mc", sink);
}

fn replay(args: &Args) -> i32 {
    let d = args.num("decimals", 1);
    let f = std::fs::File::open(args.str("in", "cases.ndjson")).expect("open --in");
    let mut sink = Sink::create(&args.str("out", "c10-replay.ndjson"));
    for line in std::io::BufReader::new(f).lines() {
        let line = line.unwrap();
        if line.trim().is_empty() {
            continue;
        }
        let case: Value = serde_json::from_str(&line).expect("case json");
        match d {
            1 => replay_case::<1>(&case, &mut sink),
            2 => replay_case::<2>(&case, &mut sink),
            _ => panic!("--decimals must be 1 or 2"),
        }
    }
    println!("{}", sink.finish());
    0
}

fn zero_market(c: &Value, pool_l: u64, pool_s: u64, ip: u64, vi: bool) -> Value {
    let z2 = json!({"L": 0, "S": 0});
    let z4 = json!({"L": z2, "S": z2});
    json!({"c": c, "pool": {"L": pool_l, "S": pool_s}, "fee": z2, "ip": ip, "oi": z4, "oit": z4, "bf": z2,
           "fps": z4, "cfps": z4, "csum": z4, "tb": z2, "vi": {"on": vi, "L": 0, "S": 0}})
}
fn empty_pos(long: bool, clong: bool) -> Value {
    json!({"long": long, "clong": clong, "coll": 0, "size": 0, "tok": 0, "bf": 0, "fps": 0, "cfl": 0, "cfs": 0})
}
fn px_json(i: (u64, u64), l: (u64, u64), s: (u64, u64)) -> Value {
    json!({"i": {"min": i.0, "max": i.1}, "l": {"min": l.0, "max": l.1}, "s": {"min": s.0, "max": s.1}})
}

fn settings(unit: u64, k: usize) -> Value {
    // (pf, nf, exponent units, feePos, feeNeg, feeRecv) in tenths
    let (pf, nf, ex, fp, fneg, fr) = [(1u64, 2u64, 2u64, 0u64, 1u64, 3u64), (2, 2, 1, 0, 0, 3), (3, 1, 2, 1, 1, 3), (0, 0, 2, 1, 2, 3), (1, 1, 2, 0, 0, 10), (1, 3, 1, 0, 0, 3)][k % 6];
    let t = unit / 10;
    json!({"pf": pf * t, "nf": nf * t, "iexp": ex * unit, "feePos": fp * t, "feeNeg": fneg * t, "feeRecv": fr * t,
           "minSize": unit, "minCollVal": unit / 2, "minCollF": t, "minCollFLiq": t,
           "maxPosImp": 2 * t, "maxNegImp": 3 * t, "maxImpLiq": 0, "borRecv": 3 * t, "liqF": t, "liqRecv": 3 * t,
           "maxPnlTrader": 5 * t, "maxPnlAdl": 5 * t, "minPnlAdl": 0, "resF": unit, "oiResF": unit,
           "maxOI": 1_000_000, "mcfOI": 0, "fadj": 1})
}

/// other traders open positions through the real `increase` until the open interest is (l, s)
fn seed_oi<const D: u8>(k: &mut Mkt<D>, px: &Value, l: u64, s: u64) {
    let prices = prices_from(px);
    for (long, size) in [(true, l), (false, s)] {
        if size == 0 {
            continue;
        }
        let mut p = pos_from::<D>(&empty_pos(long, long));
        // generous collateral; impact and fees are switched off while seeding so that any imbalance can be built
        let saved = k.config.clone();
        k.config.position_impact_params = gmsol_model::params::PriceImpactParams::builder().exponent(0).positive_factor(0).negative_factor(0).build();
        k.config.order_fee_params = gmsol_model::params::FeeParams::builder().fee_receiver_factor(0).positive_impact_fee_factor(0).negative_impact_fee_factor(0).build();
        let coll = size * 2 / prices.collateral_token_price(long).min.max(1) + 5;
        let _ = do_increase(k, &mut p, prices, coll, size, None);
        k.config = saved;
    }
}

/// history before the round trip: cumulative funding / claimable-funding per size and borrowing factors
/// (state injection; the values differ between collateral tokens and between sides)
fn accrue<const D: u8>(k: &mut Mkt<D>, rng: &mut Rng, fmax: u64, bmax: u64) {
    for pools in [&mut k.funding_amount_per_size, &mut k.claimable_funding_amount_per_size] {
        for p in [&mut pools.0, &mut pools.1] {
            p.long_amount = rng.below(fmax);
            p.short_amount = rng.below(fmax);
        }
    }
    k.borrowing_factor.long_amount = rng.below(bmax);
    k.borrowing_factor.short_amount = rng.below(bmax);
}

fn small(args: &Args) -> i32 {
    let mut sink = Sink::create(&args.str("out", "c10-small.ndjson"));
    let caps: [(u64, u64); 6] = [(0, 0), (1, 3), (3, 3), (3, 1), (5, 0), (10, 10)];
    let pxs = [px_json((10, 10), (10, 10), (10, 10)), px_json((10, 12), (10, 12), (10, 10)), px_json((20, 20), (20, 20), (5, 6))];
    for st in 0..6 {
        for (cp, cn) in caps {
            let mut c = settings(10, st);
            c["maxPosImp"] = json!(cp);
            c["maxNegImp"] = json!(cn);
            for (oi_l, oi_s, ip) in [(100u64, 100u64, 0u64), (200, 50, 30), (50, 200, 30), (80, 100, 1), (0, 0, 5)] {
                for px in &pxs {
                    let mut k0 = market_from::<1>(&zero_market(&c, 500, 5000, 60, false));
                    seed_oi(&mut k0, px, oi_l, oi_s);
                    k0.position_impact.long_amount = ip;
                    if oi_l != oi_s {
                        // funding / borrowing accrued before the round trip (indices differ by token and side)
                        let mut r = Rng::new(oi_l * 31 + oi_s);
                        accrue(&mut k0, &mut r, 7, 4);
                    }
                    for long in [true, false] {
                        for clong in [true, false] {
                            for (dcoll, dsize) in [(8u64, 50u64), (20, 100), (60, 200), (3, 100)] {
                                let (mut k, mut p) = (k0.clone(), pos_from::<1>(&empty_pos(long, clong)));
                                round_trip(&mut k, &mut p, &c, px, dcoll, dsize, "small", &mut sink);
                            }
                        }
                    }
                }
            }
        }
    }
    println!("{}", sink.finish());
    0
}

fn random_case<const D: u8>(rng: &mut Rng, sink: &mut Sink) {
    let unit = 10u64.pow(D as u32);
    let t = unit / 10;
    let mut c = settings(unit, rng.below(6) as usize);
    let h = unit / 100;
    let pick = |rng: &mut Rng, xs: &[u64]| *rng.pick(xs);
    if unit >= 100 {
        c["pf"] = json!(pick(rng, &[0, 1, 2, 3, 5, 10]) * h);
        c["nf"] = json!(pick(rng, &[0, 1, 2, 4, 5, 10, 20]) * h);
        c["feePos"] = json!(pick(rng, &[0, 0, 1, 2]) * h);
        c["feeNeg"] = json!(pick(rng, &[0, 1, 2, 5]) * h);
        c["maxPosImp"] = json!(pick(rng, &[0, 1, 2, 5, 10, 30, 100]) * h);
        c["maxNegImp"] = json!(pick(rng, &[0, 1, 2, 5, 10, 30, 100]) * h);
        c["minCollF"] = json!(pick(rng, &[2, 5, 10]) * h);
        c["minCollFLiq"] = c["minCollF"].clone();
    } else {
        c["maxPosImp"] = json!(pick(rng, &[0, 1, 2, 3, 5, 10]) * t);
        c["maxNegImp"] = json!(pick(rng, &[0, 1, 2, 3, 5, 10]) * t);
    }
    c["feeRecv"] = json!(pick(rng, &[0, 3, 10]) * t);
    let ip_min = rng.range(unit as i64 / 2, 2 * unit as i64) as u64;
    let spread = if rng.chance(1, 2) { 0 } else { rng.below(ip_min / 8 + 2) };
    let i = (ip_min, ip_min + spread);
    let l = if rng.chance(2, 3) { i } else { (unit, unit + rng.below(3)) };
    let sp = (unit as i64 + rng.range(-(unit as i64) / 2, unit as i64 / 2)).max(1) as u64;
    let px = px_json(i, l, (sp, sp + rng.below(unit / 10 + 1)));
    let mut k = market_from::<D>(&zero_market(&c, 300, 300, 0, rng.chance(1, 4)));
    let scale = 20 * unit;
    let (oi_l, oi_s) = match rng.below(5) {
        0 => (0, 0),
        1 => (rng.below(scale), rng.below(scale)),
        2 => (rng.below(scale), 0),
        3 => (0, rng.below(scale)),
        _ => {
            let x = rng.below(scale);
            (x, x + rng.below(3 * unit))
        }
    };
    seed_oi(&mut k, &px, oi_l, oi_s);
    k.position_impact.long_amount = pick(rng, &[0, 0, 1, 5, 30, 200]);
    if rng.chance(2, 3) {
        accrue(&mut k, rng, u(&c, "fadj") * unit / 2 + 2, unit / 5 + 1);
    }
    let long = rng.chance(1, 2);
    let clong = rng.chance(1, 2);
    let dsize = rng.range(unit as i64, 20 * unit as i64) as u64;
    let cprice = if clong { l.0 } else { sp };
    let lev = rng.range(1, 9) as u64;
    let dcoll = (dsize / lev / cprice.max(1)).max(1) + rng.below(4);
    let mut p = pos_from::<D>(&empty_pos(long, clong));
    if !small_world(&k, &p, &prices_from(&px), dsize, unit) {
        return;
    }
    round_trip(&mut k, &mut p, &c, &px, dcoll, dsize, "random", sink);
}

fn random(args: &Args) -> i32 {
    let d = args.num("decimals", 2);
    let n = args.num("n", 2000);
    let mut rng = Rng::new(args.num("seed", 1));
    let mut sink = Sink::create(&args.str("out", "c10-random.ndjson"));
    for _ in 0..n {
        match d {
            1 => random_case::<1>(&mut rng, &mut sink),
            2 => random_case::<2>(&mut rng, &mut sink),
            _ => panic!("--decimals must be 1 or 2"),
        }
    }
    println!("{}", sink.finish());
    0
}

fn main() {
    quiet_panics();
    let (mode, args) = Args::from_env();
    let rc = match mode.as_str() {
        "small" => small(&args),
        "replay" => replay(&args),
        "random" => random(&args),
        _ => {
            eprintln!("modes: small | replay --in F | random --seed S --n N [--decimals 1|2]");
            2
        }
    };
    std::process::exit(rc);
}
