//! C09: the repository's `PositionMutExt::{increase, decrease}` (incl. liquidation flag) and the
//! pnl-factor functions used by the ADL guard, on the harness-owned deterministic market.
//! One event = one operation with the full pre/post state (specs/PositionProps.tla).
//! modes: replay --in cases.ndjson (the domain printed by MC_PositionC09),
//!        small (deterministic sweep over states reached by real operations),
//!        random --seed --n [--decimals 1|2] (operation sequences with price moves and index bumps)
#[path = "position_common/mod.rs"]
mod pc;

use h_model::util::{quiet_panics, Args, Rng, Sink};
use pc::*;
use serde_json::{json, Value};
use std::io::BufRead;

fn replay_case<const D: u8>(case: &Value, reset: bool, sink: &mut Sink) {
    let mut k = market_from::<D>(&case["m"]);
    let mut p = pos_from::<D>(&case["p"]);
    let op = case["op"].as_str().expect("op");
    sink.emit(run_op(&mut k, &mut p, &case["m"]["c"], op, &case["px"], &case["a"], reset, "mc", false));
}

fn replay(args: &Args) -> i32 {
    let d = args.num("decimals", 1);
    let f = std::fs::File::open(args.str("in", "cases.ndjson")).expect("open --in");
    let mut sink = Sink::create(&args.str("out", "c09-replay.ndjson"));
    let mut first = true;
    for line in std::io::BufReader::new(f).lines() {
        let line = line.unwrap();
        if line.trim().is_empty() {
            continue;
        }
        let case: Value = serde_json::from_str(&line).expect("case json");
        match d {
            1 => replay_case::<1>(&case, first, &mut sink),
            2 => replay_case::<2>(&case, first, &mut sink),
            _ => panic!("--decimals must be 1 or 2"),
        }
        first = false;
    }
    println!("{}", sink.finish());
    0
}

pub fn cfg(unit: u64, rng: &mut Rng) -> Value {
    if unit >= 100 {
        // hundredths
        let h = |rng: &mut Rng, xs: &[u64]| *rng.pick(xs) * unit / 100;
        let min_coll_f = h(rng, &[5, 10, 10, 20]);
        return json!({"pf": h(rng, &[0, 1, 1, 2, 3]), "nf": h(rng, &[0, 1, 2, 2, 4]), "iexp": *rng.pick(&[1u64, 2, 2]) * unit,
           "feePos": h(rng, &[0, 0, 1, 2]), "feeNeg": h(rng, &[0, 1, 2, 5]), "feeRecv": h(rng, &[0, 37, 100]),
           "minSize": h(rng, &[100, 500]), "minCollVal": h(rng, &[0, 50, 100, 300]), "minCollF": min_coll_f,
           "minCollFLiq": *rng.pick(&[min_coll_f, min_coll_f, min_coll_f / 2, 0]),
           "maxPosImp": h(rng, &[0, 1, 2, 5, 10, 50]), "maxNegImp": h(rng, &[0, 1, 5, 5, 10, 50]), "maxImpLiq": h(rng, &[0, 0, 2, 10]),
           "borRecv": h(rng, &[0, 37]), "liqF": h(rng, &[0, 1, 2, 5]), "liqRecv": h(rng, &[0, 37, 100]),
           "maxPnlTrader": h(rng, &[0, 20, 50, 90, 300]), "maxPnlAdl": h(rng, &[10, 30, 50]), "minPnlAdl": h(rng, &[0, 0, 5, 20]),
           "resF": h(rng, &[50, 100, 100, 200]), "oiResF": h(rng, &[50, 100, 100, 200]),
           "maxOI": *rng.pick(&[1_000_000u64, 1_000_000, 300 * unit]),
           "mcfOI": *rng.pick(&[0u64, 0, 1]), "fadj": *rng.pick(&[1u64, 10, 10])});
    }
    let f = |rng: &mut Rng, xs: &[u64]| *rng.pick(xs) * unit / 10;
    let min_coll_f = f(rng, &[1, 1, 2]);
    json!({"pf": f(rng, &[0, 1, 1, 2, 3]), "nf": f(rng, &[0, 1, 2, 2, 3]), "iexp": *rng.pick(&[1u64, 2, 2]) * unit,
           "feePos": f(rng, &[0, 0, 1]), "feeNeg": f(rng, &[0, 1, 1, 2]), "feeRecv": f(rng, &[0, 3, 10]),
           "minSize": f(rng, &[10, 50]), "minCollVal": f(rng, &[0, 5, 10, 30]), "minCollF": min_coll_f,
           "minCollFLiq": *rng.pick(&[min_coll_f, min_coll_f, min_coll_f / 2, 0]),
           "maxPosImp": f(rng, &[0, 1, 2, 3, 5]), "maxNegImp": f(rng, &[0, 1, 3, 3, 5]), "maxImpLiq": f(rng, &[0, 0, 1, 3]),
           "borRecv": f(rng, &[0, 3]), "liqF": f(rng, &[0, 1, 1]), "liqRecv": f(rng, &[0, 3, 10]),
           "maxPnlTrader": f(rng, &[0, 2, 5, 9, 30]), "maxPnlAdl": f(rng, &[1, 3, 5]), "minPnlAdl": f(rng, &[0, 0, 1, 2]),
           "resF": f(rng, &[5, 10, 10, 20]), "oiResF": f(rng, &[5, 10, 10, 20]),
           "maxOI": *rng.pick(&[1_000_000u64, 1_000_000, 300 * unit]), "mcfOI": 0, "fadj": *rng.pick(&[1u64, 10, 10])})
}

fn zero_market(c: &Value, pool_l: u64, pool_s: u64, ip: u64, vi: bool) -> Value {
    let z2 = json!({"L": 0, "S": 0});
    let z4 = json!({"L": z2, "S": z2});
    json!({"c": c, "pool": {"L": pool_l, "S": pool_s}, "fee": z2, "ip": ip, "oi": z4, "oit": z4, "bf": z2,
           "fps": z4, "cfps": z4, "csum": z4, "tb": z2, "vi": {"on": vi, "L": 0, "S": 0}})
}

fn empty_pos(long: bool, clong: bool) -> Value {
    json!({"long": long, "clong": clong, "coll": 0, "size": 0, "tok": 0, "bf": 0, "fps": 0, "cfl": 0, "cfs": 0})
}

fn px_json(i: (u64, u64), l: (u64, u64), s: (u64, u64)) -> Value {
    json!({"i": {"min": i.0, "max": i.1}, "l": {"min": l.0, "max": l.1}, "s": {"min": s.0, "max": s.1}})
}

/// One run: a market with up to four positions (two sides x two collateral tokens), `steps`
/// operations with price moves and occasional growth of the borrowing / funding indices.
fn run_sequence<const D: u8>(rng: &mut Rng, steps: u64, sink: &mut Sink, tag: &str) {
    let unit = 10u64.pow(D as u32);
    let c = cfg(unit, rng);
    let base_price = rng.range(unit as i64 / 2, 2 * unit as i64) as u64;
    let long_is_index = rng.chance(2, 3);
    let pool_tokens = *rng.pick(&[3u64, 10, 40, 150]);
    let m0 = zero_market(&c, pool_tokens, pool_tokens * base_price / unit.max(1) * unit / 2 + *rng.pick(&[5u64, 50, 400]),
                         rng.below(30), rng.chance(1, 3));
    let mut k = market_from::<D>(&m0);
    let mut ps: Vec<Pos<D>> = vec![
        pos_from::<D>(&empty_pos(true, true)),
        pos_from::<D>(&empty_pos(true, false)),
        pos_from::<D>(&empty_pos(false, true)),
        pos_from::<D>(&empty_pos(false, false)),
    ];
    let mut ip = base_price;
    let mut sp = unit; // short token price: around one dollar
    let mut first = true;
    for _ in 0..steps {
        // environment: price move, index growth
        if rng.chance(1, 2) {
            let step = (ip / 4).max(1) as i64;
            ip = (ip as i64 + rng.range(-step, step)).max(unit as i64 / 4).min(3 * unit as i64) as u64;
        }
        if rng.chance(1, 6) {
            sp = (unit as i64 + rng.range(-(unit as i64) / 5, unit as i64 / 5)).max(1) as u64;
        }
        if rng.chance(1, 5) {
            k.borrowing_factor.long_amount += rng.below(unit / 5 + 1);
            k.borrowing_factor.short_amount += rng.below(unit / 5 + 1);
        }
        if rng.chance(1, 6) {
            let adj = u(&c, "fadj");
            for side in [true, false] {
                let (f, cf) = if side { (&mut k.funding_amount_per_size.0, &mut k.claimable_funding_amount_per_size.0) }
                              else { (&mut k.funding_amount_per_size.1, &mut k.claimable_funding_amount_per_size.1) };
                if rng.chance(1, 2) {
                    f.long_amount += rng.below(adj / 2 + 2);
                    f.short_amount += rng.below(adj / 2 + 2);
                } else {
                    cf.long_amount += rng.below(adj / 2 + 2);
                    cf.short_amount += rng.below(adj / 2 + 2);
                }
            }
        }
        let spread = if rng.chance(1, 2) { 0 } else { rng.below(ip / 10 + 2) };
        let i = (ip, ip + spread);
        let l = if long_is_index { i } else { (unit, unit + rng.below(2)) };
        let px = px_json(i, l, (sp, sp + rng.below(2)));
        let prices = prices_from(&px);
        let idx = rng.below(4) as usize;
        let p = &mut ps[idx];
        let size = p.size_in_usd;
        let coll = p.collateral_token_amount;
        let cprice = if p.is_collateral_token_long { l.0 } else { sp };
        let adl_due = {
            use gmsol_model::{BaseMarketExt, PnlFactorKind};
            size != 0 && matches!(k.pnl_factor_exceeded(&prices, PnlFactorKind::ForAdl, p.is_long), Ok(Some(_)))
        };
        let (op, a) = if adl_due && rng.chance(2, 3) {
            ("adl", args_json(0, if rng.chance(1, 3) { size } else { rng.range(1, size as i64) as u64 }, None, 0, true, false))
        } else if size == 0 || rng.chance(1, 4) {
            let dsize = if size != 0 && rng.chance(1, 4) { 0 } else { rng.range(unit as i64, 25 * unit as i64) as u64 };
            // collateral for leverage 1..8, sometimes too little
            let lev = rng.range(1, 8) as u64;
            let dcoll = if rng.chance(1, 8) { 0 } else { (dsize.max(unit) / lev / cprice.max(1)).max(1) + rng.below(3) };
            ("increase", args_json(dcoll, dsize, None, 0, false, false))
        } else {
            match rng.below(10) {
                0..=4 => {
                    let dsize = match rng.below(6) {
                        0 => 0,
                        1 => size,
                        2 => size + rng.below(unit),
                        3 => size.saturating_sub(rng.below(unit / 2 + 1)),
                        _ => rng.range(1, size as i64) as u64,
                    };
                    let wd = match rng.below(4) { 0 => 0, 1 => coll, _ => rng.below(coll + 2) };
                    let acc = if rng.chance(1, 10) { Some(rng.range(ip as i64 / 2, 2 * ip as i64) as u64) } else { None };
                    ("decrease", args_json(0, dsize, acc, wd, rng.chance(1, 4), rng.chance(1, 3)))
                }
                5..=7 => ("liquidate", args_json(0, if rng.chance(1, 8) { size + 1 } else { size }, None, 0, true, false)),
                _ => ("adl", args_json(0, if rng.chance(1, 2) { size } else { rng.range(1, size as i64) as u64 }, None, 0, true, false)),
            }
        };
        if !small_world(&k, p, &prices, u(&a, "dsize"), unit) {
            continue;
        }
        sink.emit(run_op(&mut k, p, &c, op, &px, &a, first, tag, false));
        first = false;
    }
}

fn random(args: &Args) -> i32 {
    let d = args.num("decimals", 2);
    let n = args.num("n", 2000);
    let steps = args.num("steps", 25);
    let mut rng = Rng::new(args.num("seed", 1));
    let mut sink = Sink::create(&args.str("out", "c09-random.ndjson"));
    while (sink.n as u64) < n {
        match d {
            1 => run_sequence::<1>(&mut rng, steps, &mut sink, "random"),
            2 => run_sequence::<2>(&mut rng, steps, &mut sink, "random"),
            _ => panic!("--decimals must be 1 or 2"),
        }
    }
    println!("{}", sink.finish());
    0
}

/// Deterministic sweep at Unit = 10: positions are opened by the real `increase` in three markets,
/// prices then move to five levels and every operation of a fixed list is tried from that state.
fn small(args: &Args) -> i32 {
    let mut sink = Sink::create(&args.str("out", "c09-small.ndjson"));
    let mut rng = Rng::new(7);
    let base = cfg(10, &mut rng);
    let mut first = true;
    for (mi, (pool_l, pool_s, ip, liq_f, min_liq)) in [(500u64, 5000u64, 20u64, 1u64, 1u64), (6, 60, 5, 0, 0), (60, 300, 0, 1, 0)].iter().enumerate() {
        let mut c = base.clone();
        for (k2, v) in [("pf", 1u64), ("nf", 2), ("iexp", 20), ("feePos", 0), ("feeNeg", 1), ("feeRecv", 3), ("minSize", 10),
                        ("minCollVal", 5), ("minCollF", 1), ("minCollFLiq", *min_liq), ("maxPosImp", 2), ("maxNegImp", 3),
                        ("maxImpLiq", 1), ("borRecv", 3), ("liqF", *liq_f), ("liqRecv", 3), ("maxPnlTrader", 5),
                        ("maxPnlAdl", 5), ("minPnlAdl", 1), ("resF", 10), ("oiResF", 10), ("maxOI", 1_000_000), ("mcfOI", 0), ("fadj", 10)] {
            c[k2] = json!(v);
        }
        for long in [true, false] {
            for clong in [true, false] {
                for (dcoll, dsize) in [(2u64, 100u64), (6, 100), (30, 100), (12, 60)] {
                    let open_px = px_json((10, 10), (10, 10), (10, 10));
                    let mut k0 = market_from::<1>(&zero_market(&c, *pool_l, *pool_s, *ip, mi == 2));
                    let mut p0 = pos_from::<1>(&empty_pos(long, clong));
                    let a0 = args_json(dcoll, dsize, None, 0, false, false);
                    let e0 = run_op(&mut k0, &mut p0, &c, "increase", &open_px, &a0, first, "small-open", false);
                    first = false;
                    let opened = e0["ok"].as_bool().unwrap();
                    sink.emit(e0);
                    if !opened {
                        continue;
                    }
                    // pending fees in the third market
                    if mi == 2 {
                        k0.borrowing_factor.long_amount += 2;
                        k0.borrowing_factor.short_amount += 1;
                        k0.funding_amount_per_size.0.long_amount += 3;
                        k0.funding_amount_per_size.1.short_amount += 3;
                        k0.claimable_funding_amount_per_size.0.short_amount += 2;
                    }
                    for ipx in [(6u64, 6u64), (8, 9), (10, 10), (12, 12), (15, 16)] {
                        let px = px_json(ipx, ipx, (10, 10));
                        let size = p0.size_in_usd;
                        let coll = p0.collateral_token_amount;
                        let ops: Vec<(&str, Value)> = vec![
                            ("increase", args_json(3, 0, None, 0, false, false)),
                            ("increase", args_json(0, 40, None, 0, false, false)),
                            ("increase", args_json(4, 80, None, 0, false, false)),
                            ("decrease", args_json(0, 0, None, 1, false, false)),
                            ("decrease", args_json(0, 0, None, coll, false, false)),
                            ("decrease", args_json(0, size / 3, None, 0, false, false)),
                            ("decrease", args_json(0, size / 2, None, 2, false, false)),
                            ("decrease", args_json(0, size - 5, None, 0, false, false)),
                            ("decrease", args_json(0, size, None, 0, false, false)),
                            ("decrease", args_json(0, size, None, 0, true, false)),
                            ("decrease", args_json(0, size + 30, None, 0, false, true)),
                            ("liquidate", args_json(0, size, None, 0, true, false)),
                            ("adl", args_json(0, size / 2, None, 0, true, false)),
                            ("adl", args_json(0, size, None, 0, true, false)),
                        ];
                        for (op, a) in ops {
                            let (mut k, mut p) = (k0.clone(), p0);
                            sink.emit(run_op(&mut k, &mut p, &c, op, &px, &a, false, "small", false));
                        }
                    }
                }
            }
        }
    }
    println!("{}", sink.finish());
    0
}

fn main() {
    quiet_panics();
    let (mode, args) = Args::from_env();
    let rc = match mode.as_str() {
        "small" => small(&args),
        "replay" => replay(&args),
        "random" => random(&args),
        _ => {
            eprintln!("modes: small | replay --in F | random --seed S --n N [--decimals 1|2] [--steps K]");
            2
        }
    };
    std::process::exit(rc);
}
