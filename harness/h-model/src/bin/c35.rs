//! C35 (utility crate side): crates/utils/src/fixed_str.rs at field sizes 3 (the model's), 32 and 64,
//! and the token-config name (written with fixed_str_to_bytes::<32>, read with TokenConfig::name()).
//! The store/timelock users (store key, roles, market name, executor role) are in
//! h-programs/src/bin/c35p.rs.
//! modes: replay --in NAMES --out F | random --seed S --n N --out F
use gmsol_utils::fixed_str::{bytes_to_fixed_str, fixed_str_to_bytes};
use gmsol_utils::token_config::TokenConfig;
use h_model::util::{guarded, Args, Rng, Sink};

include!("../c35_names.rs");

fn utils<const N: usize>(tgt: &str, name: &str, sink: &mut Sink) {
    let r = guarded(|| match fixed_str_to_bytes::<N>(name) {
        Err(_) => (false, None),
        Ok(bytes) => (true, bytes_to_fixed_str(&bytes).ok().map(|s| s.as_bytes().to_vec())),
    });
    match r {
        Ok((acc, back)) => sink.emit(event(tgt, N, name, acc, back.as_deref(), acc, "", false)),
        Err(()) => sink.emit(event(tgt, N, name, false, None, false, "", true)),
    }
}

fn token_config(name: &str, sink: &mut Sink) {
    let r = guarded(|| match fixed_str_to_bytes::<32>(name) {
        Err(_) => (false, None),
        Ok(bytes) => {
            let mut c: TokenConfig = bytemuck::Zeroable::zeroed();
            c.name = bytes;
            (true, c.name().ok().map(|s| s.as_bytes().to_vec()))
        }
    });
    match r {
        Ok((acc, back)) => sink.emit(event("token_config", 32, name, acc, back.as_deref(), acc, "", false)),
        Err(()) => sink.emit(event("token_config", 32, name, false, None, false, "", true)),
    }
}

fn all(name32: &[String], name64: &[String], name3: &[String], sink: &mut Sink) {
    for n in name3 {
        utils::<3>("utils3", n, sink);
    }
    for n in name32 {
        utils::<32>("utils32", n, sink);
        token_config(n, sink);
    }
    for n in name64 {
        utils::<64>("utils64", n, sink);
    }
}

fn main() {
    h_model::util::quiet_panics();
    let (mode, args) = Args::from_env();
    let mut sink = Sink::create(&args.str("out", "c35.ndjson"));
    match mode.as_str() {
        "replay" => {
            for name in read_names(&args.str("in", "names.ndjson")) {
                all(&rebase(&name, 32), &rebase(&name, 64), &rebase(&name, 3), &mut sink);
            }
        }
        "random" => {
            let mut rng = Rng::new(args.num("seed", 1) ^ 0xC35);
            for _ in 0..args.num("n", 500) {
                let (a, b, c) = (random_name(&mut rng, 32), random_name(&mut rng, 64), random_name(&mut rng, 3));
                all(&[a], &[b], &[c], &mut sink);
            }
        }
        _ => std::process::exit(2),
    }
    println!("events {}", sink.finish());
}
