//! C27: market openness of a stored feed price (crates/utils/src/price/feed_price.rs, market_status.rs).
//! modes:
//!   small  --level N --out F    exhaustive small domain (ints): statuses x policy sets x price flags
//!                               x small (also negative) timestamps, seconds and nanoseconds modes
//!   random --seed S --n N       random mid-size values whose sums stay below 2^31 (ints)
//!   wide   --seed S --n N       boundary-biased i64 / u32 values (decimal strings, Apalache tier)
use gmsol_utils::price::{
    feed_price::PriceFeedPrice, MarketOpenness, MarketStatus, MarketStatusFlag, MarketStatusFlagContainer, PriceFlag,
};
use h_model::util::{guarded, Args, Rng, Sink};
use serde_json::{json, Value};

const POLICY: [MarketStatusFlag; 6] = [
    MarketStatusFlag::AllowUnknown,
    MarketStatusFlag::AllowPreMarket,
    MarketStatusFlag::HaltRegularHours,
    MarketStatusFlag::AllowPostMarket,
    MarketStatusFlag::AllowOvernight,
    MarketStatusFlag::AllowClosed,
];

/// policy container from the 6 named flags (through the public API), plus optionally the two unused
/// high bits of the container byte
fn policy(bits: u8, hi: u8) -> MarketStatusFlagContainer {
    let mut c = MarketStatusFlagContainer::default();
    for (k, f) in POLICY.iter().enumerate() {
        if bits >> k & 1 == 1 {
            c.set_flag(*f, true);
        }
    }
    if hi != 0 {
        let raw: u8 = bytemuck::cast(c);
        c = bytemuck::cast(raw | (hi << 6));
    }
    c
}

#[derive(Clone, Copy)]
struct Case {
    st: u8,
    flags: u8,
    hi: u8,
    openf: bool,
    tracking: bool,
    secs: bool,
    diff: u32,
    ts: i64,
    now: i64,
    timeout: u32,
}

fn feed_price(c: &Case) -> PriceFeedPrice {
    let mut p = PriceFeedPrice::new(8, c.ts, 1, 1, 1, c.diff);
    p.set_flag(PriceFlag::Open, c.openf);
    p.set_flag(PriceFlag::LastUpdateDiffEnabled, c.tracking);
    p.set_flag(PriceFlag::LastUpdateDiffSecs, c.secs);
    match MarketStatus::try_from(c.st) {
        Ok(s) => p.set_market_status(s),
        // a byte that is not a valid status can only come from raw account data
        Err(_) => bytemuck::bytes_of_mut(&mut p)[2] = c.st,
    }
    p
}

fn check_layout() {
    let mut p = PriceFeedPrice::new(8, 0, 1, 1, 1, 0);
    p.set_market_status(MarketStatus::Closed);
    let b = bytemuck::bytes_of(&p);
    assert!(b[0] == 8 && b[2] == u8::from(MarketStatus::Closed), "PriceFeedPrice layout changed: status byte is not at offset 2");
}

fn num(wide: bool, v: i128) -> Value {
    if wide { json!(v.to_string()) } else { json!(v as i64) }
}

fn is_open(c: &Case, wide: bool) -> Value {
    let r = guarded(|| feed_price(c).is_market_open(c.now, c.timeout, policy(c.flags, c.hi)));
    json!({"op": "is_open", "st": c.st, "flags": c.flags, "hi": c.hi, "openf": c.openf, "tracking": c.tracking,
           "secs": c.secs, "diff": num(wide, c.diff as i128), "ts": num(wide, c.ts as i128), "now": num(wide, c.now as i128),
           "timeout": num(wide, c.timeout as i128), "open": r.unwrap_or(false), "res": "", "panic": r.is_err()})
}

fn openness(st: u8, flags: u8, hi: u8, wide: bool) -> Value {
    let s = MarketStatus::try_from(st).expect("valid status");
    let r = guarded(|| match s.openness(policy(flags, hi)) {
        MarketOpenness::Open => "open",
        MarketOpenness::Closed => "closed",
        MarketOpenness::Skip => "skip",
    });
    json!({"op": "openness", "st": st, "flags": flags, "hi": hi, "openf": false, "tracking": false, "secs": false,
           "diff": num(wide, 0), "ts": num(wide, 0), "now": num(wide, 0), "timeout": num(wide, 0), "open": false,
           "res": r.unwrap_or(""), "panic": r.is_err()})
}

fn small(args: &Args) -> i32 {
    let level = args.num("level", 0) as i64;
    let mut sink = Sink::create(&args.str("out", "c27-small.ndjson"));
    let t = 2 + level; // timestamps in -t..=t
    let diffs_secs: Vec<u32> = (0..=(3 + level as u32)).collect();
    let diffs_nanos: Vec<u32> = vec![0, 1, 999_999_999, 1_000_000_000, 1_000_000_001, 2_000_000_000];
    // A: the time part, exhaustively, under three representative policies
    for (st, flags) in [(0u8, 0u8), (3, 0), (6, 32)] {
        for openf in [false, true] {
            for tracking in [false, true] {
                for secs in [false, true] {
                    let diffs = if secs { &diffs_secs } else { &diffs_nanos };
                    for &diff in diffs {
                        for ts in -t..=t {
                            for now in -t..=t {
                                for timeout in 0..=(3 + level as u32) {
                                    let c = Case { st, flags, hi: 0, openf, tracking, secs, diff, ts, now, timeout };
                                    sink.emit(is_open(&c, false));
                                }
                            }
                        }
                    }
                }
            }
        }
    }
    // B: the policy part, exhaustively (every status byte class x every policy set), few time tuples
    let times: [(u32, i64, i64, u32); 4] = [(0, 0, 0, 0), (1, 5, 6, 2), (1, 5, 6, 1), (0, -3, 4, 7)];
    for st in [0u8, 1, 2, 3, 4, 5, 6, 7, 99, 255] {
        for flags in 0..64u8 {
            for hi in [0u8, 3] {
                for openf in [false, true] {
                    for tracking in [false, true] {
                        for &(diff, ts, now, timeout) in &times {
                            let c = Case { st, flags, hi, openf, tracking, secs: true, diff, ts, now, timeout };
                            sink.emit(is_open(&c, false));
                        }
                    }
                }
                if st <= 6 {
                    sink.emit(openness(st, flags, hi, false));
                }
            }
        }
    }
    println!("events {}", sink.finish());
    0
}

fn random(args: &Args) -> i32 {
    let n = args.num("n", 3000);
    let mut rng = Rng::new(args.num("seed", 1) ^ 0xC27);
    let mut sink = Sink::create(&args.str("out", "c27-random.ndjson"));
    for _ in 0..n {
        let secs = rng.chance(1, 2);
        let ts = rng.range(-500_000_000, 500_000_000);
        // most interesting region: now close to ts + timeout - diff
        let timeout = if rng.chance(1, 2) { rng.below(100) as u32 } else { rng.below(1_000_000_000) as u32 };
        let diff: u32 = if secs {
            if rng.chance(1, 2) { rng.below(50) as u32 } else { rng.below(1_000_000_000) as u32 }
        } else {
            match rng.below(3) { 0 => rng.below(2_147_483_647) as u32, 1 => 1_000_000_000 * rng.below(3) as u32 + rng.below(3) as u32, _ => rng.below(5) as u32 }
        };
        let dsecs = if secs { diff as i64 } else { (diff as i64 + 999_999_999) / 1_000_000_000 };
        let now = if rng.chance(3, 4) {
            (ts + timeout as i64 - dsecs + rng.range(-2, 2)).clamp(-500_000_000, 500_000_000)
        } else {
            rng.range(-500_000_000, 500_000_000)
        };
        let c = Case {
            st: *rng.pick(&[0u8, 1, 2, 3, 3, 3, 4, 5, 6, 200]),
            flags: rng.below(64) as u8,
            hi: 0,
            openf: rng.chance(7, 8),
            tracking: rng.chance(7, 8),
            secs,
            diff,
            ts,
            now,
            timeout,
        };
        sink.emit(is_open(&c, false));
    }
    println!("events {}", sink.finish());
    0
}

fn wide_i64(rng: &mut Rng) -> i64 {
    match rng.below(8) {
        0 => i64::MIN.wrapping_add(rng.below(3) as i64),
        1 => i64::MAX.wrapping_sub(rng.below(3) as i64),
        2 => rng.range(-2, 2),
        3 => (u32::MAX as i64) * if rng.chance(1, 2) { 1 } else { -1 } + rng.range(-1, 1),
        4 => i64::MAX - u32::MAX as i64 + rng.range(-2, 2),
        5 => i64::MIN + u32::MAX as i64 + rng.range(-2, 2),
        _ => rng.next() as i64 >> rng.below(64),
    }
}
fn wide_u32(rng: &mut Rng) -> u32 {
    match rng.below(6) {
        0 => u32::MAX - rng.below(3) as u32,
        1 => rng.below(3) as u32,
        2 => 1_000_000_000u32.wrapping_mul(rng.below(5) as u32).wrapping_add(rng.below(3) as u32).wrapping_sub(1),
        3 => (u32::MAX / 1_000_000_000) + rng.below(3) as u32 - 1,
        _ => rng.next() as u32 >> rng.below(32),
    }
}

fn wide(args: &Args) -> i32 {
    let n = args.num("n", 100);
    let mut rng = Rng::new(args.num("seed", 1) ^ 0xC27_0000);
    let mut sink = Sink::create(&args.str("out", "c27-wide.ndjson"));
    for _ in 0..n {
        let secs = rng.chance(1, 2);
        let ts = wide_i64(&mut rng);
        let timeout = wide_u32(&mut rng);
        let diff = wide_u32(&mut rng);
        let dsecs = if secs { diff as i128 } else { (diff as i128 + 999_999_999) / 1_000_000_000 };
        let now = if rng.chance(1, 2) {
            // around the exact threshold now = ts + timeout - dsecs, when that is an i64
            let thr = ts as i128 + timeout as i128 - dsecs + rng.range(-1, 1) as i128;
            thr.clamp(i64::MIN as i128, i64::MAX as i128) as i64
        } else {
            wide_i64(&mut rng)
        };
        let c = Case {
            st: *rng.pick(&[0u8, 3, 3, 6, 1]),
            flags: *rng.pick(&[0u8, 32, 63, 4]),
            hi: 0,
            openf: rng.chance(15, 16),
            tracking: rng.chance(15, 16),
            secs,
            diff,
            ts,
            now,
            timeout,
        };
        sink.emit(is_open(&c, true));
    }
    println!("events {}", sink.finish());
    0
}

fn main() {
    check_layout();
    h_model::util::quiet_panics();
    let (mode, args) = Args::from_env();
    let code = match mode.as_str() {
        "small" => small(&args),
        "random" => random(&args),
        "wide" => wide(&args),
        _ => 2,
    };
    std::process::exit(code);
}
