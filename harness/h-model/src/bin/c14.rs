//! C14: position impact pool distribution (market/position_impact.rs,
//! action/distribute_position_impact.rs) on the harness market by state injection.
//! modes: small (every tuple of the configured sets + chained triples), random (seeded histories),
//! replay --in (re-execute the inputs of logged events)
#[path = "../shared/smallcfg.rs"]
mod smallcfg;

use gmsol_model::fixed::FixedPointOps;
use gmsol_model::params::position::PositionImpactDistributionParams;
use gmsol_model::{ClockKind, MarketAction, PositionImpactMarketExt, PositionImpactMarketMutExt};
use h_model::util::{guarded, Args, Rng, Sink};
use h_model::vmarket::TestMarket;
use serde_json::json;
use smallcfg::{parse_set, small_config, small_market};

fn market<const D: u8>(amount: u64, min: u64, rate: u64) -> TestMarket<u64, D>
where
    u64: FixedPointOps<D>,
{
    let mut cfg = small_config::<D>();
    cfg.position_impact_distribution_params = PositionImpactDistributionParams::builder()
        .distribute_factor(rate)
        .min_position_impact_pool_amount(min)
        .build();
    let mut m = small_market(cfg);
    m.position_impact.long_amount = amount;
    // the distribution clock starts now (a first use would otherwise initialise it and report 0)
    m.clocks.insert(ClockKind::PriceImpactDistribution, m.now);
    m
}

/// One distribution `dt` seconds after the previous one; logs the event.
fn step<const D: u8>(sink: &mut Sink, m: &mut TestMarket<u64, D>, min: u64, rate: u64, dt: u64, reset: bool)
where
    u64: FixedPointOps<D>,
{
    let amount = m.position_impact.long_amount;
    m.tick(dt);
    let pend = guarded(|| m.pending_position_impact_pool_distribution_amount(dt));
    let res = guarded(|| {
        m.distribute_position_impact().and_then(|a| a.execute()).map(|r| {
            (*r.distribution_amount(), *r.next_position_impact_pool_amount(), r.duration_in_seconds())
        })
    });
    let after = m.position_impact.long_amount;
    let mut panic = false;
    let (pok, pd, pnext) = match pend {
        Ok(Ok((d, n))) => (true, d, n),
        Ok(Err(_)) => (false, 0, 0),
        Err(()) => {
            panic = true;
            (false, 0, 0)
        }
    };
    let (ok, d, next, dur) = match res {
        Ok(Ok((d, n, t))) => (true, d, n, t),
        Ok(Err(_)) => (false, 0, 0, 0),
        Err(()) => {
            panic = true;
            (false, 0, 0, 0)
        }
    };
    sink.emit(json!({
        "op": "distribute", "reset": reset, "amount": amount, "min": min, "rate": rate, "dt": dt,
        "pok": pok, "pd": pd, "pnext": pnext, "ok": ok, "d": d, "next": next, "dur": dur,
        "after": after, "panic": panic,
    }));
}

fn small(args: &Args) -> i32 {
    let amts = parse_set(&args.str("amts", "0..40"));
    let mins = parse_set(&args.str("mins", "0..41"));
    let rates = parse_set(&args.str("rates", "0,1,4,9,10,15,23,30"));
    let dts = parse_set(&args.str("dts", "0,1,2,3,7,10"));
    let seq_dts = parse_set(&args.str("seqdts", "0,2,7"));
    let mut sink = Sink::create(&args.str("out", "c14-small.ndjson"));
    // every (state, action) pair of the bounded model, by state injection
    for &a in &amts {
        for &mn in &mins {
            for &r in &rates {
                for &dt in &dts {
                    let mut m = market::<1>(a as u64, mn as u64, r as u64);
                    step(&mut sink, &mut m, mn as u64, r as u64, dt as u64, true);
                }
            }
        }
    }
    // histories of three distributions on one market (clock and pool carried over)
    for &a in amts.iter().filter(|a| **a % 8 == 0) {
        for &mn in mins.iter().filter(|m| **m % 10 == 0 || **m == 3) {
            for &r in &rates {
                for &d1 in &seq_dts {
                    for &d2 in &seq_dts {
                        for &d3 in &seq_dts {
                            let mut m = market::<1>(a as u64, mn as u64, r as u64);
                            step(&mut sink, &mut m, mn as u64, r as u64, d1 as u64, true);
                            step(&mut sink, &mut m, mn as u64, r as u64, d2 as u64, false);
                            step(&mut sink, &mut m, mn as u64, r as u64, d3 as u64, false);
                        }
                    }
                }
            }
        }
    }
    println!("events {}", sink.finish());
    0
}

/// Re-execute the inputs of previously logged events (a replay file) on the real code.
fn replay(args: &Args) -> i32 {
    let text = std::fs::read_to_string(args.str("in", "replay.ndjson")).expect("read replay input");
    let mut sink = Sink::create(&args.str("out", "c14-replay.ndjson"));
    let mut cur: Option<TestMarket<u64, 1>> = None;
    for line in text.lines().filter(|l| !l.trim().is_empty()) {
        let e: serde_json::Value = serde_json::from_str(line).expect("json");
        let g = |k: &str| e[k].as_u64().unwrap_or(0);
        if e["reset"].as_bool().unwrap_or(true) || cur.is_none() {
            cur = Some(market::<1>(g("amount"), g("min"), g("rate")));
        }
        step(&mut sink, cur.as_mut().unwrap(), g("min"), g("rate"), g("dt"), e["reset"].as_bool().unwrap_or(true));
    }
    println!("events {}", sink.finish());
    0
}

fn random_d<const D: u8>(args: &Args) -> i32
where
    u64: FixedPointOps<D>,
{
    let n = args.num("n", 3000);
    let mut rng = Rng::new(args.num("seed", 1));
    let unit = <u64 as FixedPointOps<D>>::UNIT;
    let max_amt = args.num("max", 60) * (unit / 10);
    let mut sink = Sink::create(&args.str("out", "c14-random.ndjson"));
    let mut emitted = 0;
    while emitted < n {
        let a = rng.below(max_amt + 1);
        // minimum near the amount half of the time (the cap matters there)
        let mn = if rng.chance(1, 2) { (a as i64 + rng.range(-6, 3)).max(0) as u64 } else { rng.below(max_amt + 1) };
        let r = if rng.chance(1, 8) { 0 } else { rng.below(3 * unit + 1) };
        let len = 1 + rng.below(6);
        let mut m = market::<D>(a, mn, r);
        for k in 0..len {
            let dt = if rng.chance(1, 6) { 0 } else { rng.below(11) };
            step(&mut sink, &mut m, mn, r, dt, k == 0);
            emitted += 1;
        }
    }
    println!("events {}", sink.finish());
    0
}

fn main() {
    h_model::util::quiet_panics();
    let (mode, args) = Args::from_env();
    let code = match mode.as_str() {
        "small" => small(&args),
        "replay" => replay(&args),
        "random" => match args.num("decimals", 1) {
            1 => random_d::<1>(&args),
            2 => random_d::<2>(&args),
            _ => 2,
        },
        _ => 2,
    };
    std::process::exit(code);
}
