//! C28: Chainlink report decoding (crates/chainlink-datastreams/src/report.rs, gmsol.rs).
//! modes:
//!   envelope --in CASES --out F     payloads realising each (L, offset word, length word) class printed
//!                                   by MC_ReportEnvelope (scaled: v >= 512 means 2^64 - (1024 - v))
//!   mutate   --seed S --n N --out F byte-level mutations / truncations of the repo's sample full reports,
//!                                   crafted report blobs of every schema version, snappy wrappers
//!   convert  --seed S --n N --out F crafted decoded reports -> PriceFeedPrice::from_chainlink_report
use gmsol_chainlink_datastreams::report::{decode, decode_compressed_full_report, decode_full_report};
use gmsol_chainlink_datastreams::utils::Compressor;
use gmsol_chainlink_datastreams::FromChainlinkReport;
use gmsol_utils::price::{feed_price::PriceFeedPrice, U192};
use h_model::util::{guarded, Args, Rng, Sink};
use serde_json::{json, Value};

// ---- samples from the unit tests of report.rs (v3 and v11 full reports) ----
const SAMPLE_V3: &str = "0006f3dad14cf5df26779bd7b940cd6a9b50ee226256194abbb7643655035d6f0000000000000000000000000000000000000000000000000000000037a8ac19000000000000000000000000000000000000000000000000000000000000000000000000000000000000000000000000000000000000000000000000000000e00000000000000000000000000000000000000000000000000000000000000220000000000000000000000000000000000000000000000000000000000000028001010000000000000000000000000000000000000000000000000000000000000000000000000000000000000000000000000000000000000000000000000120000305a183fedd7f783d99ac138950cff229149703d2a256d61227ad1e5e66ea000000000000000000000000000000000000000000000000000000006726f480000000000000000000000000000000000000000000000000000000006726f4800000000000000000000000000000000000000000000000000000251afa5b7860000000000000000000000000000000000000000000000000002063f8083c67140000000000000000000000000000000000000000000000000000000067284600000000000000000000000000000000000000000000000000140f9559e8f303f4000000000000000000000000000000000000000000000000140ede2b993743740000000000000000000000000000000000000000000000001410c8d592a7f8000000000000000000000000000000000000000000000000000000000000000002abc5fcd50a149ad258673b44c2d1737d175c134a29ab0e1091e1f591af564132737fedd8929a5e6ee155532f116946351e79c1ea3efdb3c88792f48c7cbb02ca00000000000000000000000000000000000000000000000000000000000000027a478e131ba1474e6b53f2c626ec349f27d64606b1e783d7cb637568ad3b0f7c3ed29f3fd7de70dc2b08e010ab93448e7dd423047e0f224d7145e0489faa9f23";
const SAMPLE_V11: &str = "00094baebfda9b87680d8e59aa20a3e565126640ee7caeab3cd965e5568b17ee00000000000000000000000000000000000000000000000000000000028b3ce1000000000000000000000000000000000000000000000000000000040000000100000000000000000000000000000000000000000000000000000000000000e000000000000000000000000000000000000000000000000000000000000002c000000000000000000000000000000000000000000000000000000000000003a0000000000101000000000000000000000000000000000000000000000000000000000000000000000000000000000000000000000000000000000000000001c0000b3e56e8bc2103b83a76d318d029870ddf1498e34799d8a8d8f0f8531043ee0000000000000000000000000000000000000000000000000000000069da21fc0000000000000000000000000000000000000000000000000000000069da21fc000000000000000000000000000000000000000000000000000081c4db3df35e000000000000000000000000000000000000000000000000007e12e62b190a11000000000000000000000000000000000000000000000000000000006a01aefc00000000000000000000000000000000000000000000010175d8d69a8a92800000000000000000000000000000000000000000000000000018a546938b9d300000000000000000000000000000000000000000000000010175c7132152b20000000000000000000000000000000000000000000000000000000000000000000000000000000000000000000000000000000000000000010175ea9a13c273000000000000000000000000000000000000000000000000000000000000000000000000000000000000000000000000000000000000000000000000000000000000000000000000000000000000000000000000000000000000000000000000000500000000000000000000000000000000000000000000000000000000000000066c3a39eee12d41f87aeccace61ff0453ae6111ff7140b5c75d2d1d4254548fc78900dd42a6d372b7a513e5ff06fe9dd991d3cba2c17b2939ca15f0d357de22d0958e9c66ab7ec8cc2ef40d576d88fca7ebf5e3fa93eabfeead7c6fbdc79c0ccd4ce1314d213381ffd674ef45ce236d93856792b3083edab3824200b61c3ff2961157194419bd3d335e05aeba5cf215c149e99b35e3b94c56f0823857c6be88769e6ae9bfd866fdffd00cec07df9bae6898127a05b4814d99d1ec19e6ed3ece1e00000000000000000000000000000000000000000000000000000000000000066447235cd963678f24357b66cabc60c754ac85d8842de68dd944dd5edf10411b3e525596ffca4cd293e70417f368975a86c6b19eb3beeeaae448331031d53ea806f25696623f998c7d76c2f63b2cb381dc942e958aec27490860ace7621db0a64be64a0c0a5dc0fe2b4dcc1f6c7b06e868f2a3a293a92eab2aafcab600620d0e6e3101ecc5a78c3737143af85a8e88e2f981dfa19f12e21cc9571ec5b25cce0b52bffa484bc92862dc203c129efbe9187b627c4148a768e5dbc705116740fd11";

fn unhex(s: &str) -> Vec<u8> {
    let b = s.as_bytes();
    assert!(b.len() % 2 == 0);
    let v = |c: u8| -> u8 {
        match c {
            b'0'..=b'9' => c - b'0',
            b'a'..=b'f' => c - b'a' + 10,
            _ => panic!("hex"),
        }
    };
    b.chunks(2).map(|p| v(p[0]) << 4 | v(p[1])).collect()
}

// ---- envelope ----
struct Words {
    oread: bool,
    ohi: u8,
    olo: u64,
    nread: bool,
    nhi: u8,
    nlo: u64,
}

/// ground truth of the bytes: the 256-bit offset word at 96..128 and the length word at its low value
fn parse_words(p: &[u8]) -> Words {
    let mut w = Words { oread: false, ohi: 0, olo: 0, nread: false, nhi: 0, nlo: 0 };
    if p.len() < 128 {
        return w;
    }
    w.oread = true;
    w.ohi = p[96..120].iter().any(|&b| b != 0) as u8;
    w.olo = u64::from_be_bytes(p[120..128].try_into().unwrap());
    if w.olo < (1 << 31) && (w.olo as usize) + 32 <= p.len() {
        let o = w.olo as usize;
        w.nread = true;
        w.nhi = p[o..o + 24].iter().any(|&b| b != 0) as u8;
        w.nlo = u64::from_be_bytes(p[o + 24..o + 32].try_into().unwrap());
    }
    w
}

fn small(v: u64) -> (bool, u64) {
    if v < (1 << 31) { (true, v) } else { (false, 0) }
}

fn envelope_event(p: &[u8], src: &str, cls: &str) -> (Value, Option<(usize, usize)>) {
    let w = parse_words(p);
    let r = guarded(|| {
        decode_full_report(p).ok().map(|(_, blob)| {
            // the blob is a sub-slice of the payload: its identity is (pointer offset, length)
            let start = (blob.as_ptr() as usize).wrapping_sub(p.as_ptr() as usize);
            (start, blob.len())
        })
    });
    let (osm, olo) = small(w.olo);
    let (nsm, nlo) = small(w.nlo);
    let (ok, start, len) = match &r {
        Ok(Some((s, l))) if *s <= p.len() => (true, *s as i64, *l as i64),
        Ok(Some((_, l))) => (true, -1, *l as i64), // not a sub-slice of the payload at all
        _ => (false, 0, 0),
    };
    let ev = json!({"op": "envelope", "src": src, "cls": cls, "L": p.len(), "oread": w.oread, "ohi": w.ohi, "osm": osm, "olo": olo,
                    "nread": w.nread, "nhi": w.nhi, "nsm": nsm, "nlo": nlo, "ok": ok, "start": start, "len": len,
                    "panic": r.is_err()});
    (ev, r.ok().flatten())
}

fn simple_event(op: &str, src: &str, len: usize, ok: bool, panic: bool) -> Value {
    json!({"op": op, "src": src, "cls": "", "L": len, "oread": false, "ohi": 0, "osm": true, "olo": 0, "nread": false, "nhi": 0,
           "nsm": true, "nlo": 0, "ok": ok, "start": 0, "len": 0, "panic": panic})
}

fn decode_event(blob: &[u8], src: &str) -> Value {
    let r = guarded(|| decode(blob).is_ok());
    simple_event("decode", src, blob.len(), r.unwrap_or(false), r.is_err())
}

fn compressed_event(bytes: &[u8], src: &str) -> Value {
    let r = guarded(|| decode_compressed_full_report(bytes).is_ok());
    simple_event("compressed", src, bytes.len(), r.unwrap_or(false), r.is_err())
}

fn scaled(v: u64) -> u64 {
    if v < 512 { v } else { 0u64.wrapping_sub(1024 - v) }
}

fn put_word(p: &mut [u8], at: usize, hi: u64, lo: u64, variant: u64) {
    if at + 32 > p.len() {
        return;
    }
    for b in &mut p[at..at + 24] {
        *b = 0;
    }
    if hi != 0 {
        match variant % 4 {
            0 => p[at] = 0x80,            // top bit of the 256-bit word
            1 => p[at + 23] = 0x01,       // 2^64
            2 => p[at + 12] = 0x7f,
            _ => p[at..at + 24].iter_mut().for_each(|b| *b = 0xff),
        }
    }
    p[at + 24..at + 32].copy_from_slice(&lo.to_be_bytes());
}

fn envelope(args: &Args) -> i32 {
    let txt = std::fs::read_to_string(args.str("in", "cases.ndjson")).expect("cases");
    let mut sink = Sink::create(&args.str("out", "c28-envelope.ndjson"));
    for (i, line) in txt.lines().enumerate() {
        if line.trim().is_empty() {
            continue;
        }
        let c: Value = serde_json::from_str(line).expect("case");
        let l = c["L"].as_u64().unwrap() as usize;
        let (ohi, olo) = (c["ohi"].as_u64().unwrap(), scaled(c["olo"].as_u64().unwrap()));
        let (nhi, nlo) = (c["nhi"].as_u64().unwrap(), scaled(c["nlo"].as_u64().unwrap()));
        let mut p: Vec<u8> = (0..l).map(|j| (j * 7 + 3) as u8 | 1).collect();
        put_word(&mut p, 96, ohi, olo, i as u64);
        // the length word goes where the decoder will look for it (never over the head)
        if olo >= 128 && olo < (1 << 31) {
            put_word(&mut p, olo as usize, nhi, nlo, i as u64 / 4);
        }
        let (ev, blob) = envelope_event(&p, "class", c["cls"].as_str().unwrap_or(""));
        sink.emit(ev);
        if let Some((s, n)) = blob {
            if s + n <= p.len() {
                sink.emit(decode_event(&p[s..s + n], "class-blob"));
            }
        }
        if i % 16 == 0 {
            if let Ok(z) = Compressor::compress(&p) {
                sink.emit(compressed_event(&z, "class-compressed"));
            }
        }
    }
    println!("events {}", sink.finish());
    0
}

// ---- crafted report blobs ----
#[derive(Clone, Copy)]
struct Num {
    neg: bool,
    mag: U192, // |value|, below 2^191 (2^191 allowed when negative)
}

fn word_i192(n: Num) -> [u8; 32] {
    let mut w = [0u8; 32];
    let l = n.mag.as_limbs();
    w[8..16].copy_from_slice(&l[2].to_be_bytes());
    w[16..24].copy_from_slice(&l[1].to_be_bytes());
    w[24..32].copy_from_slice(&l[0].to_be_bytes());
    if n.neg && !n.mag.is_zero() {
        // two's complement over the 256-bit word
        let mut carry = true;
        for b in w.iter_mut().rev() {
            *b = !*b;
            if carry {
                let (x, c) = b.overflowing_add(1);
                *b = x;
                carry = c;
            }
        }
    }
    w
}
fn word_u64(v: u64) -> [u8; 32] {
    let mut w = [0u8; 32];
    w[24..].copy_from_slice(&v.to_be_bytes());
    w
}

struct Crafted {
    ver: u16,
    obs_ts: u32,
    last_ns: u64,
    price: Num,
    bid: Num,
    ask: Num,
    status: u32,
}

fn blob(c: &Crafted) -> Vec<u8> {
    let mut feed = [0x5au8; 32];
    feed[0..2].copy_from_slice(&c.ver.to_be_bytes());
    let pos = |v: u64| word_i192(Num { neg: false, mag: U192::from(v) });
    let mut w: Vec<[u8; 32]> = vec![feed, word_u64(c.obs_ts as u64), word_u64(c.obs_ts as u64), pos(100), pos(200), word_u64(c.obs_ts as u64 + 100)];
    match c.ver {
        2 | 7 => w.push(word_i192(c.price)),
        3 => w.extend([word_i192(c.price), word_i192(c.bid), word_i192(c.ask)]),
        8 => w.extend([word_u64(c.last_ns), word_i192(c.price), word_u64(c.status as u64)]),
        _ => w.extend([word_i192(c.price), word_u64(c.last_ns), word_i192(c.bid), pos(1), word_i192(c.ask), pos(2), word_i192(c.price), word_u64(c.status as u64)]),
    }
    w.concat()
}

fn u192_digits(mut x: U192) -> Vec<u8> {
    let ten = U192::from(10u64);
    let mut d = Vec::new();
    loop {
        let (q, r) = x.div_rem(ten);
        d.push(r.as_limbs()[0] as u8);
        x = q;
        if x.is_zero() {
            break;
        }
    }
    d.reverse();
    d
}
fn digits_json(d: &[u8]) -> Value {
    Value::Array(d.iter().map(|x| json!(x)).collect())
}

fn pow10(k: u32) -> U192 {
    U192::from(10u64).pow(U192::from(k))
}

fn wide_mag(rng: &mut Rng) -> U192 {
    let max128 = U192::from(u128::MAX);
    let one = U192::from(1u64);
    let top = (U192::from(1u64) << 191) - one; // int192::MAX
    let x = match rng.below(12) {
        0 => U192::ZERO,
        1 => one,
        2 => U192::from(rng.below(100_000)) * pow10(18),
        3 => U192::from(1_445_538_218_802_086_900u64),
        4 => U192::from(u64::MAX) + U192::from(rng.below(3)) - one,
        5 => max128 + U192::from(rng.below(3)) - one,
        6 => {
            let k = rng.below(19) as u32 + 1;
            (max128 * pow10(k)).min(top) + U192::from(rng.below(3)) - one
        }
        7 => {
            let k = rng.below(19) as u32;
            ((max128 + one) * pow10(k)).min(top) - one
        }
        8 => top - U192::from(rng.below(2)),
        9 => pow10(rng.below(58) as u32),
        10 => U192::from_limbs([rng.next(), rng.next(), rng.next() >> 1]) >> (rng.below(191) as usize),
        _ => U192::from(rng.below(1000)),
    };
    x.min(top)
}

fn convert(args: &Args) -> i32 {
    let n = args.num("n", 3000);
    let mut rng = Rng::new(args.num("seed", 1) ^ 0xC28);
    let mut sink = Sink::create(&args.str("out", "c28-convert.ndjson"));
    for t in 0..n {
        let ver = *rng.pick(&[2u16, 3, 3, 3, 7, 8, 11, 11, 11]);
        let a = wide_mag(&mut rng);
        let three = ver == 3 || ver == 11;
        // mostly ordered triples around a, sometimes equal, sometimes misordered, sometimes negative
        let d1 = U192::from(rng.below(3)) * if rng.chance(1, 2) { U192::from(1u64) } else { pow10(rng.below(30) as u32) };
        let d2 = U192::from(rng.below(3)) * if rng.chance(1, 2) { U192::from(1u64) } else { pow10(rng.below(30) as u32) };
        let top = (U192::from(1u64) << 191) - U192::from(1u64);
        let mut vals = [a.saturating_sub(d1), a, a.saturating_add(d2).min(top)]; // bid, price, ask
        if three && rng.chance(1, 6) {
            let (i, j) = (rng.below(3) as usize, rng.below(3) as usize);
            vals.swap(i, j);
        }
        let neg = |rng: &mut Rng| rng.chance(1, 12);
        let (mut bid, mut price, mut ask) = (Num { neg: neg(&mut rng), mag: vals[0] }, Num { neg: neg(&mut rng), mag: vals[1] }, Num { neg: neg(&mut rng), mag: vals[2] });
        if !three {
            bid = price;
            ask = price;
        }
        for x in [&mut bid, &mut price, &mut ask] {
            if x.mag.is_zero() {
                x.neg = false;
            }
        }
        let obs_ts = *rng.pick(&[0u32, 1000, 1_775_903_228, u32::MAX]);
        let obs_ns = obs_ts as u128 * 1_000_000_000;
        let last_ns: u64 = match rng.below(8) {
            0 => 0,
            1 => u64::MAX,
            2 => (obs_ns + 999_999_999).min(u64::MAX as u128) as u64,
            3 => (obs_ns + 1_000_000_000).min(u64::MAX as u128) as u64,
            4 => obs_ns.saturating_sub(rng.below(5_000_000_000) as u128) as u64,
            5 => obs_ns.saturating_sub(u32::MAX as u128 * 1_000_000_000 + rng.below(3) as u128 * 1_000_000_000) as u64,
            _ => obs_ns.min(u64::MAX as u128) as u64,
        };
        let has_last = ver == 8 || ver == 11;
        let tsbad = has_last && (obs_ns > u64::MAX as u128 || last_ns as u128 >= obs_ns + 1_000_000_000);
        let status = if ver == 8 { rng.below(3) as u32 } else { rng.below(6) as u32 };
        let c = Crafted { ver, obs_ts, last_ns, price, bid, ask, status };
        let b = blob(&c);
        let rep = match guarded(|| decode(&b)) {
            Ok(Ok(r)) => r,
            Ok(Err(_)) => {
                if t < 50 {
                    eprintln!("note: crafted blob rejected by decode (ver {ver})");
                }
                continue;
            }
            Err(()) => {
                sink.emit(json!({"op": "convert", "ver": ver, "pneg": price.neg, "bneg": bid.neg, "aneg": ask.neg,
                    "price": digits_json(&u192_digits(price.mag)), "bid": digits_json(&u192_digits(bid.mag)), "ask": digits_json(&u192_digits(ask.mag)),
                    "tsbad": tsbad, "dmatch": false, "ok": false, "dec": 0, "oprice": [0], "omin": [0], "omax": [0], "panic": true}));
                continue;
            }
        };
        // the decoded report must carry the crafted numbers (checked as conformance, not as the property)
        let same = |got: Option<U192>, x: Num| if x.neg { got.is_none() } else { got == Some(x.mag) };
        let dmatch = same(rep.non_negative_price(), price) && same(rep.non_negative_bid(), bid) && same(rep.non_negative_ask(), ask);
        let r = guarded(|| PriceFeedPrice::from_chainlink_report(&rep));
        let (ok, dec, op, omin, omax) = match &r {
            Ok(Ok(p)) => (true, bytemuck::bytes_of(p)[0] as i64, *p.price(), *p.min_price(), *p.max_price()),
            _ => (false, 0, 0, 0, 0),
        };
        let d128 = |x: u128| digits_json(&u192_digits(U192::from(x)));
        sink.emit(json!({"op": "convert", "ver": ver, "pneg": price.neg, "bneg": bid.neg, "aneg": ask.neg,
            "price": digits_json(&u192_digits(price.mag)), "bid": digits_json(&u192_digits(bid.mag)), "ask": digits_json(&u192_digits(ask.mag)),
            "tsbad": tsbad, "dmatch": dmatch, "ok": ok, "dec": dec, "oprice": d128(op), "omin": d128(omin), "omax": d128(omax),
            "panic": r.is_err()}));
    }
    println!("events {}", sink.finish());
    0
}

// ---- byte-level mutations ----
fn mutate(args: &Args) -> i32 {
    let n = args.num("n", 2000);
    let mut rng = Rng::new(args.num("seed", 1) ^ 0xC28_0000);
    let mut sink = Sink::create(&args.str("out", "c28-mutate.ndjson"));
    let samples = [unhex(SAMPLE_V3), unhex(SAMPLE_V11)];
    let run = |p: &[u8], src: &str, sink: &mut Sink| {
        let (ev, blob) = envelope_event(p, src, "");
        sink.emit(ev);
        if let Some((s, l)) = blob {
            if s + l <= p.len() {
                sink.emit(decode_event(&p[s..s + l], src));
            }
        }
    };
    for (si, s) in samples.iter().enumerate() {
        let name = if si == 0 { "sample-v3" } else { "sample-v11" };
        run(s, name, &mut sink);
        sink.emit(compressed_event(&Compressor::compress(s).unwrap(), name));
        // every truncation of the payload, of its blob, and of the compressed form
        for l in 0..s.len() {
            run(&s[..l], "truncate", &mut sink);
        }
        let (_, b) = envelope_event(s, name, "");
        let (bs, bl) = b.expect("sample decodes");
        for l in 0..=bl {
            sink.emit(decode_event(&s[bs..bs + l], "truncate-blob"));
        }
        let z = Compressor::compress(s).unwrap();
        for l in (0..z.len()).step_by(3) {
            sink.emit(compressed_event(&z[..l], "truncate-compressed"));
        }
        // offset / length words set to every interesting value, with and without high limbs
        let l = s.len() as u64;
        let vals: Vec<u64> = [0u64, 1, 31, 32, 96, 127, 128, 129, 0xe0, l - 64, l - 33, l - 32, l - 31, l - 1, l, l + 1, u32::MAX as u64,
                              1 << 32, i64::MAX as u64, (i64::MAX as u64) + 1, u64::MAX - 32, u64::MAX - 31, u64::MAX - 1, u64::MAX].to_vec();
        for &o in &vals {
            for hi in [0u64, 1] {
                let mut p = s.clone();
                put_word(&mut p, 96, hi, o, o);
                run(&p, "set-offset", &mut sink);
                for &nn in &vals {
                    if o >= 128 && o <= l - 32 {
                        let mut q = p.clone();
                        put_word(&mut q, o as usize, (nn ^ o) & 1, nn, nn);
                        run(&q, "set-offset-length", &mut sink);
                    }
                }
            }
        }
        // random byte flips / splices
        for _ in 0..n {
            let mut p = s.clone();
            for _ in 0..(1 + rng.below(4)) {
                let i = match rng.below(3) { 0 => 96 + rng.below(32) as usize, 1 => 0xe0 + rng.below(32) as usize, _ => rng.below(p.len() as u64) as usize };
                p[i] = match rng.below(4) { 0 => 0, 1 => 0xff, 2 => p[i] ^ (1 << rng.below(8)), _ => rng.next() as u8 };
            }
            if rng.chance(1, 4) {
                p.truncate(rng.below(p.len() as u64 + 1) as usize);
            }
            run(&p, "flip", &mut sink);
            if rng.chance(1, 4) {
                let mut z = Compressor::compress(&p).unwrap();
                if rng.chance(1, 2) && !z.is_empty() {
                    let i = rng.below(z.len() as u64) as usize;
                    z[i] ^= 1 << rng.below(8);
                }
                sink.emit(compressed_event(&z, "flip-compressed"));
            }
        }
    }
    // report blobs of every schema version (and unsupported ones), every truncation, garbage status
    for ver in (0u16..=14).chain([255, 256, 0x0b00, u16::MAX]) {
        let one = Num { neg: false, mag: U192::from(1_000_000_000_000_000_000u64) };
        for status in [0u32, 2, 5, 6, u32::MAX] {
            let c = Crafted { ver, obs_ts: 1000, last_ns: 1_000_000_000_000, price: one, bid: one, ask: one, status };
            let b = blob(&c);
            for l in (0..=b.len()).rev() {
                sink.emit(decode_event(&b[..l], "blob-version"));
                if status != 0 {
                    break; // truncations once per version
                }
            }
        }
    }
    // snappy wrappers: raw garbage, empty input, headers claiming large outputs
    sink.emit(compressed_event(&[], "snappy"));
    for claim in [0u32, 1, 127, 128, 1 << 20, 1 << 26] {
        let mut z = Vec::new();
        let mut v = claim;
        loop {
            let b = (v & 0x7f) as u8;
            v >>= 7;
            if v == 0 { z.push(b); break } else { z.push(b | 0x80) }
        }
        sink.emit(compressed_event(&z, "snappy"));
        z.extend((0..40).map(|_| rng.next() as u8));
        sink.emit(compressed_event(&z, "snappy"));
    }
    for _ in 0..n / 4 {
        let z: Vec<u8> = (0..rng.below(200)).map(|_| rng.next() as u8).collect();
        sink.emit(compressed_event(&z, "snappy"));
        sink.emit(decode_event(&z, "garbage-blob"));
        let (ev, _) = envelope_event(&z, "garbage", "");
        sink.emit(ev);
    }
    println!("events {}", sink.finish());
    0
}

fn main() {
    if std::env::var("VERIF_LOUD").is_err() {
        h_model::util::quiet_panics();
    }
    let (mode, args) = Args::from_env();
    let code = match mode.as_str() {
        "envelope" => envelope(&args),
        "mutate" => mutate(&args),
        "convert" => convert(&args),
        _ => 2,
    };
    std::process::exit(code);
}
