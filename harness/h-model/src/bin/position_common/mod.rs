//! Shared by the C09 / C10 / C11 drivers (included with #[path], not a binary): JSON <-> state of
//! the harness-owned deterministic market (`h_model::vmarket`), and execution of the repository's
//! generic `PositionMutExt::{increase, decrease}` / `PositionExt::pnl_value` with restore-on-error
//! (the actions are not atomic in the model crate; the programs restore, so does the driver).
//! The JSON shapes are the records of specs/Position.tla.
#![allow(dead_code)]

use gmsol_model::{
    action::decrease_position::DecreasePositionFlags,
    params::{
        fee::{
            BorrowingFeeKinkModelParamsForOneSide, BorrowingFeeParams, FundingFeeParams,
            LiquidationFeeParams,
        },
        position::PositionImpactDistributionParams,
        FeeParams, PositionParams, PriceImpactParams,
    },
    price::{Price, Prices},
    BaseMarketExt, MarketAction, PnlFactorKind, PositionExt, PositionMutExt,
};
use h_model::util::guarded;
use h_model::vmarket::{MaxPnlFactors, TestMarket, TestMarketConfig, TestPool, TestPosition};
use serde_json::{json, Value};

pub type Mkt<const D: u8> = TestMarket<u64, D>;
pub type Pos<const D: u8> = TestPosition<u64, D>;

pub fn u(v: &Value, k: &str) -> u64 {
    v.get(k).and_then(|x| x.as_u64()).unwrap_or_else(|| panic!("missing/invalid field {k} in {v}"))
}
pub fn i(v: &Value, k: &str) -> i64 {
    v.get(k).and_then(|x| x.as_i64()).unwrap_or_else(|| panic!("missing/invalid field {k} in {v}"))
}
pub fn b(v: &Value, k: &str) -> bool {
    v.get(k).and_then(|x| x.as_bool()).unwrap_or_else(|| panic!("missing/invalid field {k} in {v}"))
}

fn pool2(v: &Value) -> TestPool<u64> {
    TestPool { long_amount: u(v, "L"), short_amount: u(v, "S") }
}
fn pool4(v: &Value) -> (TestPool<u64>, TestPool<u64>) {
    (pool2(&v["L"]), pool2(&v["S"]))
}
fn j2(p: &TestPool<u64>) -> Value {
    json!({"L": p.long_amount, "S": p.short_amount})
}
fn j4(p: &(TestPool<u64>, TestPool<u64>)) -> Value {
    json!({"L": j2(&p.0), "S": j2(&p.1)})
}

/// Market configuration from the record `m.c` of the specification. Everything the position
/// operators do not read (swap, borrowing rate, funding rate, distribution) is neutral.
pub fn cfg_from<const D: u8>(c: &Value) -> TestMarketConfig<u64, D> {
    let min_coll_f = u(c, "minCollF");
    let min_coll_f_liq = u(c, "minCollFLiq");
    let position_params = if min_coll_f == min_coll_f_liq {
        // exercises the documented default (None = use min_collateral_factor)
        PositionParams::new(u(c, "minSize"), u(c, "minCollVal"), min_coll_f, u(c, "maxPosImp"), u(c, "maxNegImp"), u(c, "maxImpLiq"))
    } else {
        PositionParams::builder()
            .min_position_size_usd(u(c, "minSize"))
            .min_collateral_value(u(c, "minCollVal"))
            .min_collateral_factor(min_coll_f)
            .min_collateral_factor_for_liquidation(Some(min_coll_f_liq))
            .max_positive_position_impact_factor(u(c, "maxPosImp"))
            .max_negative_position_impact_factor(u(c, "maxNegImp"))
            .max_position_impact_factor_for_liquidations(u(c, "maxImpLiq"))
            .build()
    };
    TestMarketConfig {
        swap_impact_params: PriceImpactParams::builder().exponent(0).positive_factor(0).negative_factor(0).build(),
        swap_fee_params: FeeParams::builder().fee_receiver_factor(0).positive_impact_fee_factor(0).negative_impact_fee_factor(0).build(),
        position_params,
        position_impact_params: PriceImpactParams::builder()
            .exponent(u(c, "iexp"))
            .positive_factor(u(c, "pf"))
            .negative_factor(u(c, "nf"))
            .build(),
        order_fee_params: FeeParams::builder()
            .fee_receiver_factor(u(c, "feeRecv"))
            .positive_impact_fee_factor(u(c, "feePos"))
            .negative_impact_fee_factor(u(c, "feeNeg"))
            .build(),
        position_impact_distribution_params: PositionImpactDistributionParams::builder()
            .distribute_factor(0)
            .min_position_impact_pool_amount(0)
            .build(),
        borrowing_fee_params: BorrowingFeeParams::builder()
            .receiver_factor(u(c, "borRecv"))
            .factor_for_long(0)
            .factor_for_short(0)
            .exponent_for_long(0)
            .exponent_for_short(0)
            .build(),
        borrowing_fee_kink_model_params: BorrowingFeeKinkModelParamsForOneSide::builder()
            .optimal_usage_factor(0)
            .base_borrowing_factor(0)
            .above_optimal_usage_borrowing_factor(0)
            .build(),
        funding_fee_params: FundingFeeParams::builder()
            .exponent(0)
            .funding_factor(0)
            .max_factor_per_second(0)
            .min_factor_per_second(0)
            .increase_factor_per_second(0)
            .decrease_factor_per_second(0)
            .threshold_for_stable_funding(0)
            .threshold_for_decrease_funding(0)
            .build(),
        reserve_factor: u(c, "resF"),
        open_interest_reserve_factor: u(c, "oiResF"),
        max_pnl_factors: MaxPnlFactors {
            deposit: u64::MAX / 4,
            withdrawal: u64::MAX / 4,
            trader: u(c, "maxPnlTrader"),
            adl: u(c, "maxPnlAdl"),
        },
        min_pnl_factor_after_adl: u(c, "minPnlAdl"),
        max_pool_amount: 1_000_000_000,
        max_pool_value_for_deposit: u64::MAX / 4,
        max_open_interest: u(c, "maxOI"),
        min_collateral_factor_for_oi: u(c, "mcfOI"),
        ignore_open_interest_for_usage_factor: false,
        liquidation_fee_params: LiquidationFeeParams::builder()
            .factor(u(c, "liqF"))
            .receiver_factor(u(c, "liqRecv"))
            .build(),
    }
}

/// State injection: the market record `m` of the specification.
pub fn market_from<const D: u8>(m: &Value) -> Mkt<D> {
    let c = &m["c"];
    let mut k: Mkt<D> = TestMarket::new(1, u(c, "fadj"), cfg_from::<D>(c));
    k.primary = pool2(&m["pool"]);
    k.fee = pool2(&m["fee"]);
    k.position_impact = TestPool { long_amount: u(m, "ip"), short_amount: 0 };
    k.open_interest = pool4(&m["oi"]);
    k.open_interest_in_tokens = pool4(&m["oit"]);
    k.borrowing_factor = pool2(&m["bf"]);
    k.funding_amount_per_size = pool4(&m["fps"]);
    k.claimable_funding_amount_per_size = pool4(&m["cfps"]);
    k.collateral_sum = pool4(&m["csum"]);
    k.total_borrowing = pool2(&m["tb"]);
    if b(&m["vi"], "on") {
        k.vi_positions = Some(TestPool { long_amount: u(&m["vi"], "L"), short_amount: u(&m["vi"], "S") });
    }
    k
}

/// Projection of the market to the record `m` (c = the configuration record it was built from).
pub fn market_json<const D: u8>(k: &Mkt<D>, c: &Value) -> Value {
    let vi = match &k.vi_positions {
        Some(p) => json!({"on": true, "L": p.long_amount, "S": p.short_amount}),
        None => json!({"on": false, "L": 0, "S": 0}),
    };
    json!({
        "c": c.clone(),
        "pool": j2(&k.primary),
        "fee": j2(&k.fee),
        "ip": k.position_impact.long_amount,
        "oi": j4(&k.open_interest),
        "oit": j4(&k.open_interest_in_tokens),
        "bf": j2(&k.borrowing_factor),
        "fps": j4(&k.funding_amount_per_size),
        "cfps": j4(&k.claimable_funding_amount_per_size),
        "csum": j4(&k.collateral_sum),
        "tb": j2(&k.total_borrowing),
        "vi": vi,
    })
}

pub fn pos_from<const D: u8>(p: &Value) -> Pos<D> {
    TestPosition {
        is_long: b(p, "long"),
        is_collateral_token_long: b(p, "clong"),
        collateral_token_amount: u(p, "coll"),
        size_in_usd: u(p, "size"),
        size_in_tokens: u(p, "tok"),
        borrowing_factor: u(p, "bf"),
        funding_fee_amount_per_size: u(p, "fps"),
        claimable_funding_fee_amount_per_size: (u(p, "cfl"), u(p, "cfs")),
    }
}

pub fn pos_json<const D: u8>(p: &Pos<D>) -> Value {
    json!({
        "long": p.is_long, "clong": p.is_collateral_token_long, "coll": p.collateral_token_amount,
        "size": p.size_in_usd, "tok": p.size_in_tokens, "bf": p.borrowing_factor,
        "fps": p.funding_fee_amount_per_size,
        "cfl": p.claimable_funding_fee_amount_per_size.0, "cfs": p.claimable_funding_fee_amount_per_size.1,
    })
}

pub fn price_from(v: &Value) -> Price<u64> {
    Price { min: u(v, "min"), max: u(v, "max") }
}
pub fn prices_from(px: &Value) -> Prices<u64> {
    Prices {
        index_token_price: price_from(&px["i"]),
        long_token_price: price_from(&px["l"]),
        short_token_price: price_from(&px["s"]),
    }
}
pub fn prices_json(px: &Prices<u64>) -> Value {
    let p = |x: &Price<u64>| json!({"min": x.min, "max": x.max});
    json!({"i": p(&px.index_token_price), "l": p(&px.long_token_price), "s": p(&px.short_token_price)})
}

pub fn zero_rep() -> Value {
    json!({"imp": 0, "impAmt": 0, "diff": 0, "xprice": 0, "dtok": 0, "dcoll": 0, "wd": 0, "dsize": 0,
           "pnl": 0, "unc": 0, "step": "", "remove": false, "out": 0, "sec": 0, "clL": 0, "clS": 0,
           "hold": 0, "uo": 0, "us": 0, "feeCost": 0, "fund": 0})
}

pub struct OpOut {
    pub ok: bool,
    pub err: String,
    pub panic: bool,
    pub rep: Value,
}

fn fail(err: String, panic: bool) -> OpOut {
    OpOut { ok: false, err, panic, rep: zero_rep() }
}

/// `position.increase(..).execute()`; on Err / panic market and position are restored.
pub fn do_increase<const D: u8>(
    k: &mut Mkt<D>, p: &mut Pos<D>, px: Prices<u64>, dcoll: u64, dsize: u64, acc: Option<u64>,
) -> OpOut {
    let (k0, p0) = (k.clone(), *p);
    let r = guarded(|| p.ops(k).increase(px, dcoll, dsize, acc).and_then(|a| a.execute()));
    match r {
        Err(()) => {
            *k = k0;
            *p = p0;
            fail("panic".into(), true)
        }
        Ok(Err(e)) => {
            *k = k0;
            *p = p0;
            fail(e.to_string(), false)
        }
        Ok(Ok(rep)) => {
            let ex = rep.execution();
            let (cl_l, cl_s) = rep.claimable_funding_amounts();
            let mut v = zero_rep();
            v["imp"] = json!(*ex.price_impact_value());
            v["impAmt"] = json!(*ex.price_impact_amount());
            v["dtok"] = json!(*ex.size_delta_in_tokens());
            v["xprice"] = json!(*ex.execution_price());
            v["dcoll"] = json!(*rep.collateral_delta_amount());
            v["dsize"] = json!(dsize);
            v["feeCost"] = json!(rep.fees().total_cost_excluding_funding().unwrap_or(u64::MAX));
            v["fund"] = json!(*rep.fees().funding_fees().amount());
            v["clL"] = json!(*cl_l);
            v["clS"] = json!(*cl_s);
            OpOut { ok: true, err: String::new(), panic: false, rep: v }
        }
    }
}

/// `position.decrease(..).execute()` (no swap); on Err / panic market and position are restored.
pub fn do_decrease<const D: u8>(
    k: &mut Mkt<D>, p: &mut Pos<D>, px: Prices<u64>, dsize: u64, acc: Option<u64>, wd: u64,
    flags: DecreasePositionFlags,
) -> OpOut {
    let (k0, p0) = (k.clone(), *p);
    let r = guarded(|| p.ops(k).decrease(px, dsize, acc, wd, flags).and_then(|a| a.execute()));
    match r {
        Err(()) => {
            *k = k0;
            *p = p0;
            fail("panic".into(), true)
        }
        Ok(Err(e)) => {
            *k = k0;
            *p = p0;
            fail(e.to_string(), false)
        }
        Ok(Ok(rep)) => {
            let (cl_l, cl_s) = rep.claimable_funding_amounts();
            let hold = rep.claimable_collateral_for_holding();
            let user = rep.claimable_collateral_for_user();
            let mut v = zero_rep();
            v["imp"] = json!(*rep.price_impact_value());
            v["diff"] = json!(*rep.price_impact_diff());
            v["xprice"] = json!(*rep.execution_price());
            v["dtok"] = json!(*rep.size_delta_in_tokens());
            v["wd"] = json!(*rep.withdrawable_collateral_amount());
            v["dsize"] = json!(*rep.size_delta_usd());
            v["pnl"] = json!(*rep.pnl().pnl());
            v["unc"] = json!(*rep.pnl().uncapped_pnl());
            v["step"] = json!(rep.insolvent_close_step().map(|s| format!("{s:?}")).unwrap_or_default());
            v["remove"] = json!(rep.should_remove());
            v["out"] = json!(*rep.output_amount());
            v["sec"] = json!(*rep.secondary_output_amount());
            v["clL"] = json!(*cl_l);
            v["clS"] = json!(*cl_s);
            v["hold"] = json!(*hold.output_token_amount() + *hold.secondary_output_token_amount());
            v["uo"] = json!(*user.output_token_amount());
            v["us"] = json!(*user.secondary_output_token_amount());
            v["feeCost"] = json!(rep.fees().total_cost_excluding_funding().unwrap_or(u64::MAX));
            v["fund"] = json!(*rep.fees().funding_fees().amount());
            OpOut { ok: true, err: String::new(), panic: false, rep: v }
        }
    }
}

pub struct AdlOut {
    pub out: OpOut,
    pub ex: bool,
    pub f0: i64,
    pub f1: i64,
}

/// Harness-side emulation of the ADL guards of programs/store/src/ops/order.rs
/// (`execute_decrease_position`), calling the *real* `pnl_factor_exceeded`, `decrease`, `pnl_factor`
/// and `pnl_factor_config` of the model crate in the program's order. The guard lines themselves
/// live in the program and are not executed here (see level_note of C09).
pub fn do_adl<const D: u8>(
    k: &mut Mkt<D>, p: &mut Pos<D>, px: Prices<u64>, dsize: u64, acc: Option<u64>, wd: u64,
) -> AdlOut {
    use gmsol_model::BaseMarket;
    let (k0, p0) = (k.clone(), *p);
    let is_long = p.is_long;
    let pre = match guarded(|| k.pnl_factor_exceeded(&px, PnlFactorKind::ForAdl, is_long)) {
        Err(()) => return AdlOut { out: fail("panic".into(), true), ex: false, f0: 0, f1: 0 },
        Ok(Err(e)) => return AdlOut { out: fail(e.to_string(), false), ex: false, f0: 0, f1: 0 },
        Ok(Ok(x)) => x,
    };
    let f0_all = k.pnl_factor(&px, is_long, true).unwrap_or(0);
    let Some(ex) = pre else {
        return AdlOut { out: fail("AdlNotRequired".into(), false), ex: false, f0: f0_all, f1: f0_all };
    };
    let f0 = ex.pnl_factor;
    let flags = DecreasePositionFlags { is_insolvent_close_allowed: true, is_liquidation_order: false, is_cap_size_delta_usd_allowed: false };
    let out = do_decrease(k, p, px, dsize, acc, wd, flags);
    if !out.ok {
        return AdlOut { out, ex: true, f0, f1: f0 };
    }
    let after = guarded(|| {
        let f1 = k.pnl_factor(&px, is_long, true)?;
        let min = k.pnl_factor_config(PnlFactorKind::MinAfterAdl, is_long)?;
        Ok::<_, gmsol_model::Error>((f1, min))
    });
    let (f1, min) = match after {
        Ok(Ok(x)) => x,
        other => {
            *k = k0;
            *p = p0;
            let panic = other.is_err();
            return AdlOut { out: fail("pnl factor after".into(), panic), ex: true, f0, f1: f0 };
        }
    };
    if !(f0 > f1) || !(f1 >= min as i64) {
        *k = k0;
        *p = p0;
        return AdlOut { out: fail("InvalidAdl".into(), false), ex: true, f0, f1 };
    }
    AdlOut { out, ex: true, f0, f1 }
}

/// `pnl_value(prices, size_delta_usd)` as a record [ok, pnl, unc, dtok]; Err(()) = panic
pub fn pnl_json<const D: u8>(k: &mut Mkt<D>, p: &mut Pos<D>, px: &Prices<u64>, d: u64) -> Result<Value, ()> {
    let r = guarded(|| p.ops(k).pnl_value(px, &d))?;
    Ok(match r {
        Ok((pnl, unc, dtok)) => json!({"ok": true, "pnl": pnl, "unc": unc, "dtok": dtok}),
        Err(_) => json!({"ok": false, "pnl": 0, "unc": 0, "dtok": 0}),
    })
}

pub fn liquidation_flags() -> DecreasePositionFlags {
    DecreasePositionFlags { is_insolvent_close_allowed: true, is_liquidation_order: true, is_cap_size_delta_usd_allowed: false }
}

pub fn args_json(dcoll: u64, dsize: u64, acc: Option<u64>, wd: u64, insolvent: bool, cap: bool) -> Value {
    json!({"dcoll": dcoll, "dsize": dsize, "acc": acc.map(|x| x as i64).unwrap_or(-1), "wd": wd,
           "insolvent": insolvent, "cap": cap})
}

/// Execute one operation of the specification's vocabulary on (market, position) and build the event
/// (pre-state, arguments, result, post-state, report). `c` is the configuration record of the market.
#[allow(clippy::too_many_arguments)]
pub fn run_op<const D: u8>(
    k: &mut Mkt<D>, p: &mut Pos<D>, c: &Value, op: &str, px: &Value, a: &Value, reset: bool, tag: &str, rt: bool,
) -> Value {
    let pre = json!({"m": market_json(k, c), "p": pos_json(p)});
    let prices = prices_from(px);
    let acc = if i(a, "acc") < 0 { None } else { Some(i(a, "acc") as u64) };
    let (dcoll, dsize, wd) = (u(a, "dcoll"), u(a, "dsize"), u(a, "wd"));
    let mut adl = json!({"ex": false, "f0": 0, "f1": 0});
    let out = match op {
        "increase" => do_increase(k, p, prices, dcoll, dsize, acc),
        "decrease" => do_decrease(
            k, p, prices, dsize, acc, wd,
            DecreasePositionFlags {
                is_insolvent_close_allowed: b(a, "insolvent"),
                is_liquidation_order: false,
                is_cap_size_delta_usd_allowed: b(a, "cap"),
            },
        ),
        // the program rejects a liquidation order with size_delta_usd < size_in_usd before the model is called
        "liquidate" if dsize < p.size_in_usd => OpOut { ok: false, err: "program guard: partial liquidation".into(), panic: false, rep: zero_rep() },
        "liquidate" => do_decrease(k, p, prices, dsize, acc, wd, liquidation_flags()),
        "adl" => {
            let r = do_adl(k, p, prices, dsize, acc, wd);
            adl = json!({"ex": r.ex, "f0": r.f0, "f1": r.f1});
            r.out
        }
        _ => panic!("unknown op {op}"),
    };
    json!({
        "reset": reset, "op": op, "tag": tag, "px": px, "a": a, "pre": pre, "ok": out.ok, "err": out.err,
        "post": {"m": market_json(k, c), "p": pos_json(p)}, "rep": out.rep, "adl": adl, "rt": rt,
        "panic": out.panic,
    })
}

/// Largest intermediate products the TLA+ operators form on this state (TLC integers are 32-bit):
/// used by the random drivers to stay inside the small world.
pub fn small_world<const D: u8>(k: &Mkt<D>, p: &Pos<D>, px: &Prices<u64>, dsize: u64, unit: u64) -> bool {
    let lim: u128 = 1 << 30;
    let oi_l = (k.open_interest.0.long_amount + k.open_interest.0.short_amount) as u128;
    let oi_s = (k.open_interest.1.long_amount + k.open_interest.1.short_amount) as u128;
    let oit = (k.open_interest_in_tokens.0.long_amount + k.open_interest_in_tokens.0.short_amount)
        .max(k.open_interest_in_tokens.1.long_amount + k.open_interest_in_tokens.1.short_amount) as u128;
    let pmax = px.index_token_price.max.max(px.long_token_price.max).max(px.short_token_price.max) as u128;
    let d = oi_l.max(oi_s) + dsize as u128 + p.size_in_usd as u128;
    let pool_v = (k.primary.long_amount.max(k.primary.short_amount) as u128) * pmax;
    let pos_v = (p.size_in_tokens as u128 + dsize as u128 / px.index_token_price.min.max(1) as u128 + 1) * pmax;
    let tot = pos_v + p.size_in_usd as u128;
    let ppnl = oit * pmax + oi_l.max(oi_s);
    d * d * 4 < lim * unit as u128
        && ppnl * tot < lim
        && pool_v * 4 * unit as u128 <= lim
        && (p.size_in_usd as u128 + dsize as u128) * d < lim
        && tot * (p.size_in_tokens as u128 + 1) < lim
}
