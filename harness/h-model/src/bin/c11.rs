//! C11: `PositionExt::pnl_value` of crates/model on the harness-owned deterministic market.
//! One event = one (position, market, index price pair px1 <= px2, partial size d) with the real
//! results of a full close and of the partial close at both prices.
//! modes: replay --in cases.ndjson (the domain printed by MC_PositionC11), small (built-in sweep),
//!        random --seed --n [--decimals 1|2]
#[path = "position_common/mod.rs"]
mod pc;

use h_model::util::{quiet_panics, Args, Rng, Sink};
use pc::*;
use serde_json::{json, Value};
use std::io::BufRead;

fn run_case<const D: u8>(case: &Value, reset: bool, sink: &mut Sink) {
    let mut k = market_from::<D>(&case["m"]);
    let mut p = pos_from::<D>(&case["p"]);
    let px1 = prices_from(&case["px1"]);
    let px2 = prices_from(&case["px2"]);
    let d = u(case, "d");
    let size = p.size_in_usd;
    let mut panic = false;
    let mut get = |px: &gmsol_model::price::Prices<u64>, dd: u64| match pnl_json(&mut k, &mut p, px, dd) {
        Ok(v) => v,
        Err(()) => {
            panic = true;
            json!({"ok": false, "pnl": 0, "unc": 0, "dtok": 0})
        }
    };
    let f1 = get(&px1, size);
    let f2 = get(&px2, size);
    let q1 = get(&px1, d);
    let q2 = get(&px2, d);
    sink.emit(json!({
        "reset": reset, "p": case["p"], "m": case["m"], "px1": case["px1"], "px2": case["px2"], "d": d,
        "f1": f1, "f2": f2, "q1": q1, "q2": q2, "panic": panic,
    }));
}

fn dispatch(d: u64, case: &Value, reset: bool, sink: &mut Sink) {
    match d {
        1 => run_case::<1>(case, reset, sink),
        2 => run_case::<2>(case, reset, sink),
        _ => panic!("--decimals must be 1 or 2"),
    }
}

pub fn base_cfg(unit: u64) -> Value {
    json!({"pf": unit / 10, "nf": unit / 5, "iexp": 2 * unit, "feePos": 0, "feeNeg": unit / 10, "feeRecv": 3 * unit / 10,
           "minSize": unit, "minCollVal": unit / 2, "minCollF": unit / 10, "minCollFLiq": unit / 10,
           "maxPosImp": unit / 5, "maxNegImp": 3 * unit / 10, "maxImpLiq": 0, "borRecv": 3 * unit / 10,
           "liqF": unit / 10, "liqRecv": 3 * unit / 10, "maxPnlTrader": unit / 2, "maxPnlAdl": unit / 2,
           "minPnlAdl": 0, "resF": unit, "oiResF": unit, "maxOI": 1_000_000, "mcfOI": 0, "fadj": 1})
}

fn z2() -> Value {
    json!({"L": 0, "S": 0})
}
fn z4() -> Value {
    json!({"L": z2(), "S": z2()})
}

/// a market holding the position under test (size, tok) and another position of the same side
fn market_for(c: &Value, long: bool, me: (u64, u64), other: (u64, u64), amt: u64, short_amt: u64) -> Value {
    let side = |a: u64, b: u64| if long { json!({"L": json!({"L": a, "S": b}), "S": z2()}) } else { json!({"L": z2(), "S": json!({"L": b, "S": a})}) };
    // own collateral token = own side's token (as in the model fixtures); the other one uses the opposite token
    let csum = side(10, if other.0 > 0 { 10 } else { 0 });
    json!({"c": c, "pool": {"L": amt, "S": short_amt}, "fee": z2(), "ip": 0,
           "oi": side(me.0, other.0), "oit": side(me.1, other.1), "bf": z2(), "fps": z4(), "cfps": z4(),
           "csum": csum, "tb": z2(), "vi": {"on": false, "L": 0, "S": 0}})
}

fn pos_for(long: bool, me: (u64, u64)) -> Value {
    json!({"long": long, "clong": long, "coll": 10, "size": me.0, "tok": me.1, "bf": 0, "fps": 0, "cfl": 0, "cfs": 0})
}

fn small(args: &Args) -> i32 {
    let mut sink = Sink::create(&args.str("out", "c11-small.ndjson"));
    let levels: [(u64, u64); 6] = [(8, 8), (10, 10), (10, 12), (12, 15), (20, 20), (25, 26)];
    let sizes: [(u64, u64); 4] = [(100, 10), (90, 7), (50, 3), (30, 4)];
    let others: [(u64, u64); 3] = [(0, 0), (100, 5), (150, 20)];
    let mut first = true;
    for long in [true, false] {
        for me in sizes {
            for other in others {
                for amt in [4u64, 60] {
                    for cap in [0u64, 3, 10] {
                        let mut c = base_cfg(10);
                        c["maxPnlTrader"] = json!(cap);
                        let m = market_for(&c, long, me, other, amt, amt * 10);
                        for i in 0..6 {
                            for j in i..6 {
                                if levels[i].0 > levels[j].0 || levels[i].1 > levels[j].1 {
                                    continue;
                                }
                                for d in [1, me.0 / 3, me.0 - 1] {
                                    let px = |l: (u64, u64)| json!({"i": {"min": l.0, "max": l.1}, "l": {"min": l.0, "max": l.1}, "s": {"min": 10, "max": 10}});
                                    let case = json!({"p": pos_for(long, me), "m": m, "px1": px(levels[i]), "px2": px(levels[j]), "d": d});
                                    run_case::<1>(&case, first, &mut sink);
                                    first = false;
                                }
                            }
                        }
                    }
                }
            }
        }
    }
    println!("{}", sink.finish());
    0
}

fn replay(args: &Args) -> i32 {
    let d = args.num("decimals", 1);
    let f = std::fs::File::open(args.str("in", "cases.ndjson")).expect("open --in");
    let mut sink = Sink::create(&args.str("out", "c11-replay.ndjson"));
    let mut first = true;
    for line in std::io::BufReader::new(f).lines() {
        let line = line.unwrap();
        if line.trim().is_empty() {
            continue;
        }
        let case: Value = serde_json::from_str(&line).expect("case json");
        dispatch(d, &case, first, &mut sink);
        first = false;
    }
    println!("{}", sink.finish());
    0
}

fn random(args: &Args) -> i32 {
    let d = args.num("decimals", 2);
    let unit = 10u64.pow(d as u32);
    let n = args.num("n", 1000);
    let mut rng = Rng::new(args.num("seed", 1));
    let mut sink = Sink::create(&args.str("out", "c11-random.ndjson"));
    for k in 0..n {
        let long = rng.chance(1, 2);
        // prices around one "dollar" per token unit
        let entry = rng.range(unit as i64 / 2, 3 * unit as i64) as u64;
        let tok = rng.range(1, 40) as u64;
        let slack = rng.range(0, entry as i64 - 1) as u64;
        let size = (tok * entry).saturating_sub(slack).max(1);
        let other = if rng.chance(1, 3) {
            (0, 0)
        } else {
            let t = rng.range(1, 60) as u64;
            let e = rng.range(unit as i64 / 2, 3 * unit as i64) as u64;
            (t * e, t)
        };
        let amt = *rng.pick(&[1u64, 5, 20, 200]);
        let mut c = base_cfg(unit);
        c["maxPnlTrader"] = json!(*rng.pick(&[0, unit / 10, unit / 2, unit, 3 * unit]));
        let m = market_for(&c, long, (size, tok), other, amt, amt * unit);
        let lo = rng.range(unit as i64 / 3, 3 * unit as i64) as u64;
        let sp1 = if rng.chance(1, 2) { 0 } else { rng.range(0, unit as i64 / 5) as u64 };
        let up_min = rng.range(0, 2 * unit as i64) as u64;
        let sp2 = if rng.chance(1, 2) { sp1 } else { sp1 + rng.range(0, unit as i64 / 5) as u64 };
        let (a, b2) = ((lo, lo + sp1), (lo + up_min, (lo + up_min + sp2).max(lo + sp1)));
        let lmode_index = rng.chance(1, 2);
        let px = |l: (u64, u64)| {
            let lp = if lmode_index { json!({"min": l.0, "max": l.1}) } else { json!({"min": unit, "max": unit}) };
            json!({"i": {"min": l.0, "max": l.1}, "l": lp, "s": {"min": unit, "max": unit}})
        };
        let dd = match rng.below(4) {
            0 => 1,
            1 => size.saturating_sub(1).max(1),
            _ => rng.range(1, size as i64) as u64,
        };
        let case = json!({"p": pos_for(long, (size, tok)), "m": m, "px1": px(a), "px2": px(b2), "d": dd});
        dispatch(d, &case, k == 0, &mut sink);
    }
    println!("{}", sink.finish());
    0
}

fn main() {
    quiet_panics();
    let (mode, args) = Args::from_env();
    let rc = match mode.as_str() {
        "small" => small(&args),
        "replay" => replay(&args),
        "random" => random(&args),
        _ => {
            eprintln!("modes: small | replay --in F | random --seed S --n N [--decimals 1|2]");
            2
        }
    };
    std::process::exit(rc);
}
