//! C01: fixed-point helpers of crates/model (num.rs, utils.rs, fixed.rs).
//! modes: small (exhaustive small tuples, ints), wide (boundary-biased, decimal strings)
use h_model::util::{guarded, Args, Rng, Sink};
use gmsol_model::num::{MulDiv, Unsigned};
use gmsol_model::utils;
use serde_json::json;

#[derive(Clone, Copy, Debug)]
pub enum K {
    U, // unsigned operand
    S, // signed operand
    B, // boolean (0/1)
    E, // exponent factor: k whole units, k in 0..=3
}

pub const OPS: &[(&str, &[K])] = &[
    ("mul_div", &[K::U, K::U, K::U]),
    ("mul_div_ceil", &[K::U, K::U, K::U]),
    ("mul_div_signed", &[K::U, K::S, K::U]),
    ("round_up_div", &[K::U, K::U]),
    ("round_up_mag_div", &[K::U, K::S]),
    ("bound_magnitude", &[K::S, K::U, K::U]),
    ("add_signed", &[K::U, K::S]),
    ("sub_signed", &[K::U, K::S]),
    ("mul_signed", &[K::U, K::S]),
    ("signed_sub", &[K::U, K::U]),
    ("to_signed", &[K::U]),
    ("to_opposite_signed", &[K::U]),
    ("diff", &[K::U, K::U]),
    ("apply_factor", &[K::U, K::U]),
    ("div_to_factor", &[K::U, K::U, K::B]),
    ("div_to_factor_signed", &[K::S, K::U]),
    ("apply_exponent_factor", &[K::U, K::E]),
    ("apply_factors", &[K::U, K::U, K::E]),
    ("pow_fixed", &[K::U, K::E]),
    ("usd_to_mt", &[K::U, K::U, K::U, K::U]),
    ("mt_to_usd", &[K::U, K::U, K::U]),
];

/// (ok, value as decimal string)
type Out = Option<String>;

macro_rules! width_impl {
    ($name:ident, $u:ty, $s:ty, $dec:expr) => {
        /// Evaluate one helper at this width. Arguments arrive as i128/u128 pairs already in range.
        pub fn $name(op: &str, au: &[u128; 4], asg: &[i128; 4]) -> Out {
            const D: u8 = $dec;
            let u = |i: usize| au[i] as $u;
            let s = |i: usize| asg[i] as $s;
            let unit: $u = <$u as gmsol_model::fixed::FixedPointOps<D>>::UNIT;
            let r: Option<String> = match op {
                "mul_div" => u(0).checked_mul_div(&u(1), &u(2)).map(|x| x.to_string()),
                "mul_div_ceil" => u(0).checked_mul_div_ceil(&u(1), &u(2)).map(|x| x.to_string()),
                "mul_div_signed" => u(0)
                    .checked_mul_div_with_signed_numerator(&s(1), &u(2))
                    .map(|x| x.to_string()),
                "round_up_div" => u(0).checked_round_up_div(&u(1)).map(|x| x.to_string()),
                "round_up_mag_div" => u(0).as_divisor_to_round_up_magnitude_div(&s(1)).map(|x| x.to_string()),
                "bound_magnitude" => <$u as Unsigned>::bound_magnitude(&s(0), &u(1), &u(2)).ok().map(|x| x.to_string()),
                "add_signed" => u(0).checked_add_with_signed(&s(1)).map(|x| x.to_string()),
                "sub_signed" => u(0).checked_sub_with_signed(&s(1)).map(|x| x.to_string()),
                "mul_signed" => u(0).checked_mul_with_signed(&s(1)).map(|x| x.to_string()),
                "signed_sub" => u(0).checked_signed_sub(u(1)).ok().map(|x| x.to_string()),
                "to_signed" => u(0).to_signed().ok().map(|x| x.to_string()),
                "to_opposite_signed" => u(0).to_opposite_signed().ok().map(|x| x.to_string()),
                "diff" => Some(Unsigned::diff(u(0), u(1)).to_string()),
                "apply_factor" => utils::apply_factor::<$u, D>(&u(0), &u(1)).map(|x| x.to_string()),
                "div_to_factor" => utils::div_to_factor::<$u, D>(&u(0), &u(1), au[2] != 0).map(|x| x.to_string()),
                "div_to_factor_signed" => utils::div_to_factor_signed::<$u, D>(&s(0), &u(1)).map(|x| x.to_string()),
                "apply_exponent_factor" => {
                    utils::apply_exponent_factor::<$u, D>(u(0), (au[1] as $u) * unit).map(|x| x.to_string())
                }
                "apply_factors" => {
                    utils::apply_factors::<$u, D>(u(0), u(1), (au[2] as $u) * unit).ok().map(|x| x.to_string())
                }
                "pow_fixed" => {
                    use gmsol_model::fixed::Fixed;
                    Fixed::<$u, D>::from_inner(u(0))
                        .checked_pow(&Fixed::from_inner((au[1] as $u) * unit))
                        .map(|x| x.into_inner().to_string())
                }
                "usd_to_mt" => utils::usd_to_market_token_amount(u(0), u(1), u(2), u(3)).map(|x| x.to_string()),
                "mt_to_usd" => utils::market_token_amount_to_usd(&u(0), &u(1), &u(2)).map(|x| x.to_string()),
                _ => panic!("unknown op"),
            };
            r
        }
    };
}

width_impl!(eval64_small, u64, i64, 1);
width_impl!(eval128_small, u128, i128, 1);
width_impl!(eval64_wide, u64, i64, 9);
width_impl!(eval128_wide, u128, i128, 20);

fn emit(sink: &mut Sink, op: &str, w: u32, kinds: &[K], au: &[u128; 4], asg: &[i128; 4], wide: bool,
        f: fn(&str, &[u128; 4], &[i128; 4]) -> Out) {
    let res = guarded(|| f(op, au, asg));
    let names = ["a", "b", "c", "d"];
    let mut ev = serde_json::Map::new();
    ev.insert("op".into(), json!(op));
    ev.insert("w".into(), json!(w));
    for i in 0..4 {
        let v: i128 = if i < kinds.len() {
            match kinds[i] {
                K::S => asg[i],
                _ => au[i] as i128, // wide unsigned handled below
            }
        } else {
            0
        };
        if wide {
            let sv = if i < kinds.len() && !matches!(kinds[i], K::S) { au[i].to_string() } else { v.to_string() };
            ev.insert(names[i].into(), json!(sv));
        } else {
            ev.insert(names[i].into(), json!(v as i64));
        }
    }
    match res {
        Err(()) => {
            ev.insert("panic".into(), json!(true));
            ev.insert("ok".into(), json!(false));
            ev.insert("v".into(), if wide { json!("0") } else { json!(0) });
        }
        Ok(r) => {
            ev.insert("panic".into(), json!(false));
            ev.insert("ok".into(), json!(r.is_some()));
            let s = r.unwrap_or_else(|| "0".into());
            if wide {
                ev.insert("v".into(), json!(s));
            } else {
                ev.insert("v".into(), json!(s.parse::<i64>().expect("small result")));
            }
        }
    }
    sink.emit(serde_json::Value::Object(ev));
}

fn small(args: &Args) -> i32 {
    let r = args.num("range", 12) as i128;
    let r4 = args.num("range4", 6) as i128;
    let mut sink = Sink::create(&args.str("out", "c01-small.ndjson"));
    for (op, kinds) in OPS {
        let rr = if kinds.len() == 4 { r4 } else { r };
        let doms: Vec<Vec<i128>> = kinds
            .iter()
            .map(|k| match k {
                K::U => (0..=rr).collect(),
                K::S => (-rr..=rr).collect(),
                K::B => vec![0, 1],
                K::E => vec![0, 1, 2, 3],
            })
            .collect();
        let mut idx = vec![0usize; kinds.len()];
        'outer: loop {
            let mut au = [0u128; 4];
            let mut asg = [0i128; 4];
            for (i, k) in kinds.iter().enumerate() {
                let v = doms[i][idx[i]];
                match k {
                    K::S => asg[i] = v,
                    _ => au[i] = v as u128,
                }
            }
            emit(&mut sink, op, 64, kinds, &au, &asg, false, eval64_small);
            emit(&mut sink, op, 128, kinds, &au, &asg, false, eval128_small);
            let mut j = 0;
            loop {
                if j == kinds.len() {
                    break 'outer;
                }
                idx[j] += 1;
                if idx[j] < doms[j].len() {
                    break;
                }
                idx[j] = 0;
                j += 1;
            }
        }
    }
    println!("events {}", sink.finish());
    0
}

/// Boundary-biased unsigned operand for a type with `bits` bits.
pub fn wide_u(rng: &mut Rng, bits: u32) -> u128 {
    let max: u128 = if bits == 128 { u128::MAX } else { (1u128 << bits) - 1 };
    let v = match rng.below(12) {
        0 => 0,
        1 => 1,
        2 => rng.below(4) as u128 + 2,
        3 => max - rng.below(3) as u128,
        4 => (max >> 1) + rng.below(3) as u128 - 1, // around the signed limit
        5 => {
            let k = rng.below(bits as u64) as u32;
            (1u128 << k).wrapping_add(rng.below(3) as u128).wrapping_sub(1)
        }
        6 => 10u128.pow(rng.below(if bits == 128 { 39 } else { 20 }) as u32),
        7 => {
            let p = 10u128.pow(rng.below(if bits == 128 { 39 } else { 20 }) as u32);
            p.wrapping_mul(rng.below(9) as u128 + 1).wrapping_add(rng.below(3) as u128).wrapping_sub(1)
        }
        8 => rng.next128() >> rng.below(128),
        9 => (max >> (bits / 2)) + rng.below(3) as u128 - 1, // sqrt(max) neighbourhood
        _ => rng.next128(),
    };
    v & max
}

pub fn wide_s(rng: &mut Rng, bits: u32) -> i128 {
    let m = wide_u(rng, bits);
    let smax: u128 = (1u128 << (bits - 1)) - 1;
    if rng.chance(1, 16) {
        return if bits == 128 { i128::MIN } else { -(1i128 << (bits - 1)) };
    }
    let mag = if m > smax { m & smax } else { m };
    if rng.chance(1, 2) { mag as i128 } else { -(mag as i128) }
}

fn wide(args: &Args) -> i32 {
    let n = args.num("n", 300);
    let bits = args.num("bits", 128) as u32;
    let mut rng = Rng::new(args.num("seed", 1) ^ (bits as u64) << 32);
    let mut sink = Sink::create(&args.str("out", "c01-wide.ndjson"));
    let f: fn(&str, &[u128; 4], &[i128; 4]) -> Out = if bits == 128 { eval128_wide } else { eval64_wide };
    // deterministic type-limit preamble for the two-operand division helpers: dividends at and just
    // below the type maximum (where `a + d` overflows) with small divisors, incl. exact multiples
    let max: u128 = if bits == 128 { u128::MAX } else { u64::MAX as u128 };
    let smax: i128 = if bits == 128 { i128::MAX } else { i64::MAX as i128 };
    for (op, kinds) in OPS.iter().filter(|(o, _)| *o == "round_up_div" || *o == "round_up_mag_div") {
        for k in 0..4u128 {
            for d in 1..=4u128 {
                let mut au = [0u128; 4];
                let mut asg = [0i128; 4];
                if *op == "round_up_div" {
                    au[0] = max - k;
                    au[1] = d;
                    emit(&mut sink, op, bits, kinds, &au, &asg, true, f);
                } else {
                    au[0] = d;
                    asg[1] = smax - k as i128;
                    emit(&mut sink, op, bits, kinds, &au, &asg, true, f);
                    asg[1] = -(smax - k as i128);
                    emit(&mut sink, op, bits, kinds, &au, &asg, true, f);
                }
            }
        }
    }
    for t in 0..n {
        let (op, kinds) = OPS[(t as usize) % OPS.len()];
        let mut au = [0u128; 4];
        let mut asg = [0i128; 4];
        // related operands make exact-fit and off-by-one cases likely
        for (i, k) in kinds.iter().enumerate() {
            match k {
                K::U => {
                    au[i] = if i > 0 && rng.chance(1, 5) { au[i - 1].wrapping_add(rng.below(3) as u128).wrapping_sub(1) & if bits == 128 { u128::MAX } else { u64::MAX as u128 } } else { wide_u(&mut rng, bits) }
                }
                K::S => asg[i] = wide_s(&mut rng, bits),
                K::B => au[i] = rng.below(2) as u128,
                K::E => au[i] = rng.below(4) as u128,
            }
        }
        emit(&mut sink, op, bits, kinds, &au, &asg, true, f);
    }
    println!("events {}", sink.finish());
    0
}

fn main() {
    h_model::util::quiet_panics();
    let (mode, args) = Args::from_env();
    let code = match mode.as_str() {
        "small" => small(&args),
        "wide" => wide(&args),
        _ => 2,
    };
    std::process::exit(code);
}
