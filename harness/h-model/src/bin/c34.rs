//! C34: fixed-capacity maps (crates/utils/src/fixed_map.rs, macro `fixed_map!`).
//! modes:
//!   replay --in PATHS --seed S --out F [--big-every N]   op sequences printed by MC_FixedMap, replayed
//!            through a prefix trie on every instantiation below (pre-filled to capacity - 3)
//!   random --seed S --n N --out F                        seeded random sequences, biased to full maps
//! The macro is instantiated here at the capacities / key shapes the programs use: str keys (hashed),
//! Pubkey keys, 2-byte keys; capacities 1, 2, 3, 8, 16 (treasury MAX_TOKENS), 32 (roles), 64 (members,
//! disabled features), 512 (price map).  The store's own RoleMap / Members / Tokens are driven by
//! h-programs/src/bin/c34p.rs with the same engine.
use anchor_lang::prelude::Pubkey;
use h_model::util::{guarded, Args, Rng, Sink};

include!("../c34_engine.rs");

fn pk_bytes(k: &Pubkey) -> [u8; 32] {
    k.to_bytes()
}
fn k2_bytes(k: &(u8, u8)) -> [u8; 2] {
    [k.0, k.1]
}
fn mk_str(id: usize) -> String {
    format!("key-{id}")
}
fn mk_pk(id: usize) -> Pubkey {
    let mut r = Rng::new(0x5eed ^ id as u64);
    let mut b = [0u8; 32];
    for c in b.chunks_mut(8) {
        c.copy_from_slice(&r.next().to_le_bytes());
    }
    // a few keys differing only in the last byte / first byte
    if id % 7 == 0 {
        b = [0x11; 32];
        b[31] = id as u8;
    }
    if id % 7 == 1 {
        b = [0xEE; 32];
        b[0] = id as u8;
    }
    Pubkey::new_from_array(b)
}
fn mk_k2(id: usize) -> (u8, u8) {
    ((id % 5) as u8 * 50, (id / 5) as u8)
}
fn str_key_bytes(k: &String) -> Vec<u8> {
    gmsol_utils::fixed_map::to_key(k).to_vec()
}

gmsol_utils::fixed_map!(MapS1, u64, 1, 4);
gmsol_utils::fixed_map!(MapS2, u64, 2, 4);
gmsol_utils::fixed_map!(MapS3, u64, 3, 4);
gmsol_utils::fixed_map!(MapP8, Pubkey, pk_bytes, u32, 8, 0);
gmsol_utils::fixed_map!(MapP16, Pubkey, pk_bytes, u64, 16, 4);
gmsol_utils::fixed_map!(MapS32, u128, 32, 12);
gmsol_utils::fixed_map!(MapP64, Pubkey, pk_bytes, u32, 64, 0);
gmsol_utils::fixed_map!(MapK64, 2, (u8, u8), k2_bytes, u8, 64, 0);
gmsol_utils::fixed_map!(MapP512, Pubkey, pk_bytes, u64, 512, 4);

impl_fmap!(TS1, MapS1, "str-u64-1", 1, String, str, mk_str, str_key_bytes, u64, |_id, v: u64| v, |x: &u64| *x);
impl_fmap!(TS2, MapS2, "str-u64-2", 2, String, str, mk_str, str_key_bytes, u64, |_id, v: u64| v, |x: &u64| *x);
impl_fmap!(TS3, MapS3, "str-u64-3", 3, String, str, mk_str, str_key_bytes, u64, |_id, v: u64| v, |x: &u64| *x);
impl_fmap!(TP8, MapP8, "pubkey-u32-8", 8, Pubkey, Pubkey, mk_pk, |k: &Pubkey| k.to_bytes().to_vec(), u32, |_id, v: u64| v as u32, |x: &u32| *x as u64);
impl_fmap!(TP16, MapP16, "pubkey-u64-16", 16, Pubkey, Pubkey, mk_pk, |k: &Pubkey| k.to_bytes().to_vec(), u64, |_id, v: u64| v, |x: &u64| *x);
impl_fmap!(TS32, MapS32, "str-u128-32", 32, String, str, mk_str, str_key_bytes, u128, |_id, v: u64| v as u128, |x: &u128| *x as u64);
impl_fmap!(TP64, MapP64, "pubkey-u32-64", 64, Pubkey, Pubkey, mk_pk, |k: &Pubkey| k.to_bytes().to_vec(), u32, |_id, v: u64| v as u32, |x: &u32| *x as u64);
impl_fmap!(TK64, MapK64, "key2-u8-64", 64, (u8, u8), (u8, u8), mk_k2, |k: &(u8, u8)| vec![k.0, k.1], u8, |_id, v: u64| v as u8, |x: &u8| *x as u64);
impl_fmap!(TP512, MapP512, "pubkey-u64-512", 512, Pubkey, Pubkey, mk_pk, |k: &Pubkey| k.to_bytes().to_vec(), u64, |_id, v: u64| v, |x: &u64| *x);

fn main() {
    h_model::util::quiet_panics();
    let (mode, args) = Args::from_env();
    let seed = args.num("seed", 1);
    let mut sink = Sink::create(&args.str("out", "c34.ndjson"));
    match mode.as_str() {
        "replay" => {
            let t = read_paths(&args.str("in", "paths.ndjson"), 1);
            replay::<TS1>(&t, seed, &mut sink);
            replay::<TS2>(&t, seed, &mut sink);
            replay::<TS3>(&t, seed, &mut sink);
            replay::<TP8>(&t, seed, &mut sink);
            replay::<TP16>(&t, seed, &mut sink);
            replay::<TS32>(&t, seed, &mut sink);
            replay::<TP64>(&t, seed, &mut sink);
            replay::<TK64>(&t, seed, &mut sink);
            let tb = read_paths(&args.str("in", "paths.ndjson"), args.num("big-every", 16) as usize);
            replay::<TP512>(&tb, seed, &mut sink);
        }
        "random" => {
            let n = args.num("n", 2000);
            random_ops::<TS1>(seed, n / 8, &mut sink);
            random_ops::<TS2>(seed, n / 8, &mut sink);
            random_ops::<TS3>(seed, n / 4, &mut sink);
            random_ops::<TP8>(seed, n, &mut sink);
            random_ops::<TP16>(seed, n, &mut sink);
            random_ops::<TS32>(seed, n, &mut sink);
            random_ops::<TP64>(seed, n, &mut sink);
            random_ops::<TK64>(seed, n, &mut sink);
            random_ops::<TP512>(seed, (n / 4).max(1100), &mut sink);
        }
        _ => std::process::exit(2),
    }
    println!("events {}", sink.finish());
}
