#![recursion_limit = "512"]
//! History driver for C07 / C08 / C12 / C13: sequences of market operations on the harness-owned
//! deterministic market (`h_model::vmarket`), executed by the repository's generic model code
//! instantiated in the small world (`u64`, DECIMALS = 1 or 2), one ndjson event per operation with
//! the full projected state.
//!
//! modes:
//!   random --seed S --n EVENTS --runs RUNS [--d 1|2] [--vi K] [--proto 1] --out trace.ndjson [--ops ops.ndjson]
//!   replay --in ops.ndjson --out trace.ndjson          (operation scripts, e.g. printed by TLC)
//!   grid   --out trace.ndjson [--max 40]               (funding-rate probes over the domain of MC_Funding)
//!
//! Atomicity: `gmsol-model`'s deposit / increase / decrease mutate the market before their final
//! validations.  The programs run them on a revertible copy and commit only on success; the driver
//! does the same (clone market + position before the action, restore on `Err` or panic).
use std::io::{BufRead, BufReader};

use gmsol_model::{
    action::decrease_position::{DecreasePositionFlags, DecreasePositionSwapType},
    params::{
        fee::{
            BorrowingFeeKinkModelParamsForOneSide, BorrowingFeeParams, FundingFeeParams,
            LiquidationFeeParams,
        },
        position::PositionImpactDistributionParams,
        FeeParams, PositionParams, PriceImpactParams,
    },
    price::{Price, Prices},
    BorrowingFeeMarketExt, BorrowingFeeMarketMutExt, ClockKind, LiquidityMarketExt, LiquidityMarketMutExt,
    MarketAction, PerpMarketMutExt, PnlFactorKind, PositionExt, PositionImpactMarketMutExt, PositionMutExt,
    SwapMarketMutExt,
};
use h_model::{
    util::{guarded, quiet_panics, Args, Rng, Sink},
    vmarket::{MaxPnlFactors, TestMarket, TestMarketConfig, TestPool, TestPosition},
};
use serde_json::{json, Map, Value};

const NPOS: usize = 8;
/// hypothetical clock advance used for the "pending borrowing fees for every hypothetical Tick" probe
const HYPO_TICK: u64 = 7;
const LIM: i64 = 2_000_000_000;
const MAX_POOL_VALUE_FOR_DEPOSIT: u64 = 10_000_000;

fn slot_long(i: usize) -> bool {
    i % 4 < 2
}
fn slot_cl(i: usize) -> bool {
    i % 2 == 0
}

#[derive(Clone, Copy, Debug)]
struct Px {
    imin: u64,
    imax: u64,
    lmin: u64,
    lmax: u64,
    smin: u64,
    smax: u64,
}
impl Px {
    fn prices(&self) -> Prices<u64> {
        Prices {
            index_token_price: Price { min: self.imin, max: self.imax },
            long_token_price: Price { min: self.lmin, max: self.lmax },
            short_token_price: Price { min: self.smin, max: self.smax },
        }
    }
    fn json(&self) -> Value {
        json!({"imin": self.imin, "imax": self.imax, "lmin": self.lmin, "lmax": self.lmax,
               "smin": self.smin, "smax": self.smax})
    }
}

/// Plain-integer configuration: logged with every event (`c`) and turned into the market config.
#[derive(Clone, Debug)]
struct Cfg {
    // funding
    f_exp: u64,
    f_factor: u64,
    f_max: u64,
    f_min: u64,
    f_inc: u64,
    f_dec: u64,
    f_stable: u64,
    f_decthr: u64,
    // borrowing
    b_recv: u64,
    b_factor_l: u64,
    b_factor_s: u64,
    b_exp_l: u64,
    b_exp_s: u64,
    b_skip: bool,
    k_opt: u64,
    k_base: u64,
    k_above: u64,
    // fees
    o_pos: u64,
    o_neg: u64,
    o_recv: u64,
    s_pos: u64,
    s_neg: u64,
    s_recv: u64,
    l_factor: u64,
    l_recv: u64,
    // impact
    pi_exp: u64,
    pi_pos: u64,
    pi_neg: u64,
    si_exp: u64,
    si_pos: u64,
    si_neg: u64,
    dist_factor: u64,
    dist_min: u64,
    // position params
    min_size: u64,
    min_coll_value: u64,
    min_coll_factor: u64,
    max_pos_impact: u64,
    max_neg_impact: u64,
    max_liq_impact: u64,
    mcf_oi: u64,
    // reserves & caps
    reserve: u64,
    oi_reserve: u64,
    max_oi: u64,
    ignore_oi: bool,
    pnl_deposit: u64,
    pnl_withdrawal: u64,
    pnl_trader: u64,
    max_pool_amount: u64,
    adj: u64,
    divisor: u64,
}

impl Cfg {
    fn presets(d: u8, fp: u64, bp: u64, fe: u64, ip: u64) -> Cfg {
        let u: u64 = 10u64.pow(d as u32);
        let t = u / 10; // one tenth
        let fine = if d >= 2 { u / 100 } else { 1 }; // smallest "reasonable" step
        let mut c = Cfg {
            f_exp: u, f_factor: 0, f_max: 0, f_min: 0, f_inc: 0, f_dec: 0, f_stable: 0, f_decthr: 0,
            b_recv: 4 * t, b_factor_l: 0, b_factor_s: 0, b_exp_l: u, b_exp_s: u, b_skip: true,
            k_opt: 0, k_base: 0, k_above: 0,
            o_pos: 0, o_neg: 0, o_recv: 4 * t, s_pos: 0, s_neg: 0, s_recv: 4 * t, l_factor: 0, l_recv: 5 * t,
            pi_exp: u, pi_pos: 0, pi_neg: 0, si_exp: u, si_pos: 0, si_neg: 0, dist_factor: 0, dist_min: 0,
            min_size: 10, min_coll_value: 10, min_coll_factor: if d >= 2 { 5 * fine } else { t },
            max_pos_impact: t, max_neg_impact: t, max_liq_impact: t, mcf_oi: 0,
            reserve: u, oi_reserve: u, max_oi: 4000, ignore_oi: false,
            pnl_deposit: 9 * t, pnl_withdrawal: 7 * t, pnl_trader: 5 * t,
            max_pool_amount: 100_000, adj: 10, divisor: 1,
        };
        match fp {
            0 => { c.f_factor = 5 * t; c.f_max = 2 * t; c.f_min = t; }                    // non-adaptive (min is not applied)
            1 => { c.f_factor = 10 * t; c.f_max = t; c.f_min = 0; c.f_exp = 2 * u; }      // non-adaptive, low max, exponent 2
            2 => { c.f_factor = 5 * t; c.f_inc = 2 * t; c.f_max = 3 * t; c.f_min = t; }   // adaptive, increase only
            3 => { c.f_factor = 5 * t; c.f_inc = 2 * t; c.f_dec = t.max(1); c.f_max = 4 * t; c.f_min = 0;
                   c.f_stable = 5 * t; c.f_decthr = 3 * t; }                              // adaptive, increase / no change / decrease
            4 => {}                                                                       // no funding at all
            5 => { c.f_factor = 5 * t; c.f_inc = t; c.f_max = t; c.f_min = 2 * t; }       // adaptive with min > max: must fail
            6 => { c.f_factor = 3 * t; c.f_inc = fine; c.f_dec = fine; c.f_max = 2 * t; c.f_min = fine;
                   c.f_stable = 2 * t; c.f_decthr = t; }                                  // adaptive, slow
            _ => { c.f_factor = 20 * t; c.f_max = 5 * t; c.f_min = 2 * t; }               // non-adaptive, strong
        }
        // per-second borrowing factors: coarse at DECIMALS = 1 (0.5 = the smallest value that gives a
        // non-zero rate at 20 % usage), finer at DECIMALS = 2
        let kb = if d >= 2 { u / 10 } else { u / 2 };
        match bp {
            0 => { c.k_opt = 7 * t; c.k_base = kb; c.k_above = 4 * kb; c.b_skip = true; }
            1 => { c.b_factor_l = 2 * kb; c.b_factor_s = 3 * kb; c.b_skip = false; }
            2 => {}
            3 => { c.k_opt = 5 * t; c.k_base = 2 * kb; c.k_above = kb; c.b_skip = false; c.ignore_oi = true; }
            _ => { c.b_factor_l = kb; c.b_factor_s = kb; c.b_exp_l = 2 * u; c.b_exp_s = u; c.b_skip = true; }
        }
        match fe {
            0 => {}
            1 => { c.o_neg = fine.max(1); c.s_neg = fine.max(1); }
            2 => { c.o_pos = fine.max(1); c.o_neg = 2 * fine.max(1); c.l_factor = fine.max(1);
                   c.l_recv = 3 * t; /* liquidation receiver share != 50 % */ }
            3 => { c.o_pos = fine.max(1); c.o_neg = fine.max(1); c.s_pos = fine.max(1); c.s_neg = 2 * fine.max(1);
                   c.l_factor = 2 * fine.max(1); c.l_recv = 7 * t; c.mcf_oi = 0; }
            // high order fees: a close can cost more than the collateral left
            _ => { c.o_pos = if d >= 2 { 5 } else { 2 }; c.o_neg = if d >= 2 { 8 } else { 3 }; }
        }
        match ip {
            0 => {}
            1 => { c.pi_neg = fine.max(1); c.dist_factor = u; c.dist_min = 2; }
            2 => { c.pi_pos = fine.max(1); c.pi_neg = fine.max(1); c.si_neg = fine.max(1); c.dist_factor = 5 * t; }
            _ => { c.si_pos = fine.max(1); c.si_neg = fine.max(1); c.reserve = 8 * t; c.oi_reserve = 7 * t; }
        }
        c
    }

    fn json(&self) -> Value {
        json!({
            "f_exp": self.f_exp, "f_factor": self.f_factor, "f_max": self.f_max, "f_min": self.f_min,
            "f_inc": self.f_inc, "f_dec": self.f_dec, "f_stable": self.f_stable, "f_decthr": self.f_decthr,
            "b_factor": [self.b_factor_l, self.b_factor_s], "b_exp": [self.b_exp_l, self.b_exp_s],
            "b_skip": self.b_skip, "k_opt": self.k_opt, "k_base": self.k_base, "k_above": self.k_above,
            "oi_reserve": self.oi_reserve, "max_oi": self.max_oi, "ignore_oi": self.ignore_oi,
            "min_size": self.min_size, "adj": self.adj, "l_factor": self.l_factor, "l_recv": self.l_recv,
        })
    }

    /// Every configuration value the market reads (logged as `cx`; the composed specification
    /// specs/Exchange.tla takes its whole configuration from this record).
    fn json_full(&self, vi: bool) -> Value {
        json!({
            "f_exp": self.f_exp, "f_factor": self.f_factor, "f_max": self.f_max, "f_min": self.f_min,
            "f_inc": self.f_inc, "f_dec": self.f_dec, "f_stable": self.f_stable, "f_decthr": self.f_decthr,
            "b_recv": self.b_recv, "b_factor": [self.b_factor_l, self.b_factor_s], "b_exp": [self.b_exp_l, self.b_exp_s],
            "b_skip": self.b_skip, "k_opt": self.k_opt, "k_base": self.k_base, "k_above": self.k_above,
            "o_pos": self.o_pos, "o_neg": self.o_neg, "o_recv": self.o_recv,
            "s_pos": self.s_pos, "s_neg": self.s_neg, "s_recv": self.s_recv,
            "l_factor": self.l_factor, "l_recv": self.l_recv,
            "pi_exp": self.pi_exp, "pi_pos": self.pi_pos, "pi_neg": self.pi_neg,
            "si_exp": self.si_exp, "si_pos": self.si_pos, "si_neg": self.si_neg,
            "dist_factor": self.dist_factor, "dist_min": self.dist_min,
            "min_size": self.min_size, "min_coll_value": self.min_coll_value, "min_coll_factor": self.min_coll_factor,
            "max_pos_impact": self.max_pos_impact, "max_neg_impact": self.max_neg_impact,
            "max_liq_impact": self.max_liq_impact, "mcf_oi": self.mcf_oi,
            "reserve": self.reserve, "oi_reserve": self.oi_reserve, "max_oi": self.max_oi, "ignore_oi": self.ignore_oi,
            "pnl_deposit": self.pnl_deposit, "pnl_withdrawal": self.pnl_withdrawal, "pnl_trader": self.pnl_trader,
            "pnl_adl": self.pnl_trader, "min_pnl_adl": 0,
            "max_pool_amount": self.max_pool_amount, "max_pool_value": MAX_POOL_VALUE_FOR_DEPOSIT,
            "adj": self.adj, "divisor": self.divisor, "vi": vi,
        })
    }

    fn market_config<const D: u8>(&self) -> TestMarketConfig<u64, D> {
        let kink = BorrowingFeeKinkModelParamsForOneSide::builder()
            .optimal_usage_factor(self.k_opt)
            .base_borrowing_factor(self.k_base)
            .above_optimal_usage_borrowing_factor(self.k_above)
            .build();
        TestMarketConfig {
            swap_impact_params: PriceImpactParams::builder()
                .exponent(self.si_exp)
                .positive_factor(self.si_pos)
                .negative_factor(self.si_neg)
                .build(),
            swap_fee_params: FeeParams::builder()
                .fee_receiver_factor(self.s_recv)
                .positive_impact_fee_factor(self.s_pos)
                .negative_impact_fee_factor(self.s_neg)
                .build(),
            position_params: PositionParams::new(
                self.min_size,
                self.min_coll_value,
                self.min_coll_factor,
                self.max_pos_impact,
                self.max_neg_impact,
                self.max_liq_impact,
            ),
            position_impact_params: PriceImpactParams::builder()
                .exponent(self.pi_exp)
                .positive_factor(self.pi_pos)
                .negative_factor(self.pi_neg)
                .build(),
            order_fee_params: FeeParams::builder()
                .fee_receiver_factor(self.o_recv)
                .positive_impact_fee_factor(self.o_pos)
                .negative_impact_fee_factor(self.o_neg)
                .build(),
            position_impact_distribution_params: PositionImpactDistributionParams::builder()
                .distribute_factor(self.dist_factor)
                .min_position_impact_pool_amount(self.dist_min)
                .build(),
            borrowing_fee_params: BorrowingFeeParams::builder()
                .receiver_factor(self.b_recv)
                .factor_for_long(self.b_factor_l)
                .factor_for_short(self.b_factor_s)
                .exponent_for_long(self.b_exp_l)
                .exponent_for_short(self.b_exp_s)
                .skip_borrowing_fee_for_smaller_side(self.b_skip)
                .build(),
            borrowing_fee_kink_model_params: kink,
            funding_fee_params: FundingFeeParams::builder()
                .exponent(self.f_exp)
                .funding_factor(self.f_factor)
                .max_factor_per_second(self.f_max)
                .min_factor_per_second(self.f_min)
                .increase_factor_per_second(self.f_inc)
                .decrease_factor_per_second(self.f_dec)
                .threshold_for_stable_funding(self.f_stable)
                .threshold_for_decrease_funding(self.f_decthr)
                .build(),
            reserve_factor: self.reserve,
            open_interest_reserve_factor: self.oi_reserve,
            max_pnl_factors: MaxPnlFactors {
                deposit: self.pnl_deposit,
                withdrawal: self.pnl_withdrawal,
                trader: self.pnl_trader,
                adl: self.pnl_trader,
            },
            min_pnl_factor_after_adl: 0,
            max_pool_amount: self.max_pool_amount,
            max_pool_value_for_deposit: MAX_POOL_VALUE_FOR_DEPOSIT,
            max_open_interest: self.max_oi,
            min_collateral_factor_for_oi: self.mcf_oi,
            ignore_open_interest_for_usage_factor: self.ignore_oi,
            liquidation_fee_params: LiquidationFeeParams::builder()
                .factor(self.l_factor)
                .receiver_factor(self.l_recv)
                .build(),
        }
    }
}

struct World<const D: u8> {
    m: TestMarket<u64, D>,
    ps: [TestPosition<u64, D>; NPOS],
    cfg: Cfg,
    px: Px,
    run: u64,
    step: u64,
    fresh: bool,
    /// the market has virtual inventories (for swaps and for positions)
    vi: bool,
    /// market tokens minted by the last successful deposit (`withdraw` with `"rt": true` returns them)
    last_minted: u64,
}

fn pool2(p: &TestPool<u64>) -> Value {
    json!([p.long_amount, p.short_amount])
}
fn pool22(p: &(TestPool<u64>, TestPool<u64>)) -> Value {
    json!([[p.0.long_amount, p.0.short_amount], [p.1.long_amount, p.1.short_amount]])
}
fn clk<const D: u8>(m: &TestMarket<u64, D>, k: ClockKind) -> i64 {
    m.clocks.get(&k).map(|v| *v as i64).unwrap_or(-1)
}

impl<const D: u8> World<D> {
    fn new(cfg: Cfg, run: u64) -> Self {
        Self::new_vi(cfg, run, false)
    }

    fn new_vi(cfg: Cfg, run: u64, vi: bool) -> Self {
        let mut m = TestMarket::<u64, D>::new(cfg.divisor, cfg.adj, cfg.market_config::<D>());
        if vi {
            m.vi_swaps = Some(TestPool::default());
            m.vi_positions = Some(TestPool::default());
        }
        let mut ps = [TestPosition::<u64, D>::default(); NPOS];
        for (i, p) in ps.iter_mut().enumerate() {
            p.is_long = slot_long(i);
            p.is_collateral_token_long = slot_cl(i);
        }
        World {
            m,
            ps,
            cfg,
            px: Px { imin: 10, imax: 10, lmin: 10, lmax: 10, smin: 1, smax: 1 },
            run,
            step: 0,
            fresh: true,
            vi,
            last_minted: 0,
        }
    }

    fn market_json(&self) -> Value {
        market_json_of(&self.m)
    }

    /// pool values the real code computes on the current state (conformance of the composed
    /// specification's pool value incl. pending borrowing fees / pending impact distribution)
    fn pool_value_probe(&self) -> Value {
        let prices = self.px.prices();
        let one = |kind: PnlFactorKind, maximize: bool| match guarded(|| self.m.pool_value(&prices, kind, maximize)) {
            Ok(Ok(v)) => (true, v),
            _ => (false, 0),
        };
        let (dok, d) = one(PnlFactorKind::MaxAfterDeposit, true);
        let (wok, w) = one(PnlFactorKind::MaxAfterWithdrawal, false);
        json!({"dep_ok": dok, "dep": d, "wd_ok": wok, "wd": w})
    }
}

/// C11 probe: the real `pnl_value` of one open position (the operation's slot if open, else the first
/// open one) at the current prices and at a higher index price, for a full close and a partial close `d`.
fn pnl_probe<const D: u8>(w: &mut World<D>, slot_hint: usize) -> Value {
    let zero = json!({"ok": false, "pnl": 0, "unc": 0, "dtok": 0});
    let slot = if (1..=NPOS).contains(&slot_hint) && w.ps[slot_hint - 1].size_in_usd > 0 {
        Some(slot_hint - 1)
    } else {
        (0..NPOS).find(|i| w.ps[*i].size_in_usd > 0)
    };
    let Some(i) = slot else {
        return json!({"has": false, "slot": 1, "d": 0, "k": 0, "f1": zero, "f2": zero, "q1": zero, "q2": zero});
    };
    let k = 1 + (w.step % 3);
    let size = w.ps[i].size_in_usd;
    let d = size / 3 + 1;
    let px1 = w.px;
    let px2 = Px { imin: px1.imin + k, imax: px1.imax + k, ..px1 };
    let mut one = |px: Px, delta: u64| {
        let mut p = w.ps[i];
        match guarded(|| p.ops(&mut w.m).pnl_value(&px.prices(), &delta)) {
            Ok(Ok((pnl, unc, dtok))) => json!({"ok": true, "pnl": pnl, "unc": unc, "dtok": dtok}),
            _ => json!({"ok": false, "pnl": 0, "unc": 0, "dtok": 0}),
        }
    };
    let (f1, f2, q1, q2) = (one(px1, size), one(px2, size), one(px1, d), one(px2, d));
    json!({"has": true, "slot": i + 1, "d": d, "k": k, "f1": f1, "f2": f2, "q1": q1, "q2": q2})
}

fn vi_json<const D: u8>(m: &TestMarket<u64, D>) -> Value {
    let one = |p: &Option<TestPool<u64>>| match p {
        Some(p) => (true, [p.long_amount, p.short_amount]),
        None => (false, [0, 0]),
    };
    let (s_on, s) = one(&m.vi_swaps);
    let (p_on, p) = one(&m.vi_positions);
    json!({"s_on": s_on, "s": s, "p_on": p_on, "p": p})
}

fn pos_core_json<const D: u8>(p: &TestPosition<u64, D>) -> Value {
    json!({"long": p.is_long, "cl": p.is_collateral_token_long,
           "size": p.size_in_usd, "tok": p.size_in_tokens, "col": p.collateral_token_amount,
           "bf": p.borrowing_factor, "fps": p.funding_fee_amount_per_size,
           "cfps": [p.claimable_funding_fee_amount_per_size.0, p.claimable_funding_fee_amount_per_size.1]})
}

fn market_json_of<const D: u8>(m: &TestMarket<u64, D>) -> Value {
        json!({
            "liq": pool2(&m.primary), "simp": pool2(&m.swap_impact), "fee": pool2(&m.fee),
            "oi": pool22(&m.open_interest), "oit": pool22(&m.open_interest_in_tokens),
            "col": pool22(&m.collateral_sum), "pimp": m.position_impact.long_amount,
            "bf": pool2(&m.borrowing_factor), "tb": pool2(&m.total_borrowing),
            "fps": pool22(&m.funding_amount_per_size), "cfps": pool22(&m.claimable_funding_amount_per_size),
            "supply": m.total_supply, "now": m.now,
            "ck_f": clk(m, ClockKind::Funding), "ck_b": clk(m, ClockKind::Borrowing),
            "ck_d": clk(m, ClockKind::PriceImpactDistribution),
            "ffps": m.funding_factor_per_second,
        })
}

impl<const D: u8> World<D> {
    fn positions_json(&mut self) -> Value {
        let mut out = Vec::new();
        for i in 0..NPOS {
            let p = self.ps[i];
            let mut pc = p;
            let (pf_ok, pf) = match guarded(|| pc.ops(&mut self.m).pending_funding_fees()) {
                Ok(Ok(f)) => (true, [*f.amount(), *f.claimable_long_token_amount(), *f.claimable_short_token_amount()]),
                _ => (false, [0, 0, 0]),
            };
            let (pb_ok, pb) = match guarded(|| pc.ops(&mut self.m).pending_borrowing_fee_value()) {
                Ok(Ok(v)) => (true, v),
                _ => (false, 0),
            };
            out.push(json!({
                "open": p.size_in_usd != 0 || p.size_in_tokens != 0 || p.collateral_token_amount != 0,
                "long": p.is_long, "cl": p.is_collateral_token_long,
                "size": p.size_in_usd, "tok": p.size_in_tokens, "col": p.collateral_token_amount,
                "bf": p.borrowing_factor, "fps": p.funding_fee_amount_per_size,
                "cfps": [p.claimable_funding_fee_amount_per_size.0, p.claimable_funding_fee_amount_per_size.1],
                "pf_ok": pf_ok, "pf": pf, "pb_ok": pb_ok, "pb": pb,
            }));
        }
        Value::Array(out)
    }

    /// `total_pending_borrowing_fees` of the real code, now and after a hypothetical clock advance
    fn borrowing_probe(&self) -> Value {
        let prices = self.px.prices();
        let mut o = Map::new();
        let mut hypo = self.m.clone();
        hypo.tick(HYPO_TICK);
        for (name, mk) in [("", &self.m), ("h", &hypo)] {
            for (side, is_long) in [("l", true), ("s", false)] {
                let (ok, v) = match guarded(|| mk.total_pending_borrowing_fees(&prices, is_long)) {
                    Ok(Ok(v)) => (true, v),
                    _ => (false, 0),
                };
                o.insert(format!("{name}{side}_ok"), json!(ok));
                o.insert(format!("{name}{side}"), json!(v));
            }
        }
        Value::Object(o)
    }
}

fn zero_report() -> Map<String, Value> {
    let v = json!({
        "in": [0, 0], "out": 0, "out2": 0, "out_long": false, "out2_long": false,
        "cf": [0, 0], "hold": [0, 0], "user": [0, 0], "wd": [0, 0], "sw_out": 0, "minted": 0,
        "remove": false, "dusd": 0, "dtok": 0, "fund": 0, "cdelta": 0, "insolv": "", "wdable": 0,
        "pnl": 0, "impact": 0, "fee_ex": 0,
        "full": false,
    });
    v.as_object().unwrap().clone()
}

/// Extended report (`rx`): every report field the precise actions of specs/Exchange.tla predict.
/// swap: impact, impactAmt, fpl, frl (fees on the input token); deposit / withdraw: impact, fees per token;
/// increase / decrease: the report record of specs/Position.tla; distribute: d, next; all: dur.
fn zero_rx() -> Map<String, Value> {
    json!({"impact": 0, "impactAmt": 0, "fpl": 0, "frl": 0, "fps": 0, "frs": 0,
           "imp": 0, "impAmt": 0, "diff": 0, "xprice": 0, "dtok": 0, "dcoll": 0, "wd": 0, "dsize": 0,
           "pnl": 0, "unc": 0, "step": "", "remove": false, "out": 0, "sec": 0, "clL": 0, "clS": 0,
           "hold": 0, "uo": 0, "us": 0, "feeCost": 0, "fund": 0,
           "d": 0, "next": 0, "dur": 0, "sw1": "", "sw2": ""})
        .as_object()
        .unwrap()
        .clone()
}

fn zero_partial() -> Value {
    json!({"has": false, "ok": true, "size": 0, "fps": 0, "cfps": [0, 0], "idx": 0, "cidx": [0, 0]})
}

/// The model crate's actions mutate in place: when an increase / decrease returns `Err`, this looks at
/// the PARTIAL state it leaves behind (before the driver discards it): the position's funding snapshots
/// against the market's indices for its own (side, collateral), and the real `pending_funding_fees`.
fn partial_probe<const D: u8>(p: &mut TestPosition<u64, D>, m: &mut TestMarket<u64, D>) -> Value {
    let ok = matches!(guarded(|| p.ops(m).pending_funding_fees()), Ok(Ok(_)));
    let (fps, cfps) = if p.is_long { (&m.funding_amount_per_size.0, &m.claimable_funding_amount_per_size.0) }
                      else { (&m.funding_amount_per_size.1, &m.claimable_funding_amount_per_size.1) };
    let idx = if p.is_collateral_token_long { fps.long_amount } else { fps.short_amount };
    json!({"has": p.size_in_usd > 0, "ok": ok, "size": p.size_in_usd, "fps": p.funding_fee_amount_per_size,
           "cfps": [p.claimable_funding_fee_amount_per_size.0, p.claimable_funding_fee_amount_per_size.1],
           "idx": idx, "cidx": [cfps.long_amount, cfps.short_amount]})
}

fn zero_funding() -> Value {
    json!({"has": false, "dt": 0, "L": 0, "S": 0, "ok": false, "rate": 0, "lp": false, "next": 0, "stored": 0})
}

fn zero_arg() -> Map<String, Value> {
    json!({"pos": 0, "coll": 0, "size": 0, "wd": 0, "acc": 0, "liq": false, "ins": false, "cap": false,
           "swap": 0, "l": 0, "s": 0, "mt": 0, "long_in": false, "amt": 0, "dt": 0})
        .as_object()
        .unwrap()
        .clone()
}

fn gu(op: &Value, k: &str) -> u64 {
    op.get(k).and_then(|v| v.as_u64()).unwrap_or(0)
}
fn gi(op: &Value, k: &str) -> i64 {
    op.get(k).and_then(|v| v.as_i64()).unwrap_or(0)
}
fn gb(op: &Value, k: &str) -> bool {
    match op.get(k) {
        Some(Value::Bool(b)) => *b,
        Some(v) => v.as_i64().unwrap_or(0) != 0,
        None => false,
    }
}

fn fits(v: &Value) -> bool {
    match v {
        Value::Number(n) => n.as_i64().map(|x| x.abs() < LIM).unwrap_or(false),
        Value::Array(a) => a.iter().all(fits),
        Value::Object(o) => o.values().all(fits),
        _ => true,
    }
}

struct Outcome {
    ok: bool,
    panic: bool,
    err: String,
    r: Map<String, Value>,
    rx: Map<String, Value>,
    f: Value,
    cfg_override: Option<Value>,
    pp: Value,
    /// the partial state a failed (Err) operation leaves behind, before the driver discards it
    part: Option<Value>,
}

/// (dt, L, S, Ok((rate, longs_pay, next))) computed by the real `next_funding_factor_per_second`
/// on the market as it is (before `update_funding` executes)
fn funding_tuple<const D: u8>(m: &mut TestMarket<u64, D>, prices: &Prices<u64>) -> Value {
    let dt = match m.clocks.get(&ClockKind::Funding) {
        Some(c) => m.now.saturating_sub(*c),
        None => 0,
    };
    let l = m.open_interest.0.long_amount + m.open_interest.0.short_amount;
    let s = m.open_interest.1.long_amount + m.open_interest.1.short_amount;
    let stored = m.funding_factor_per_second;
    let res = guarded(|| {
        m.update_funding(prices)
            .and_then(|a| a.next_funding_factor_per_second(dt, &l, &s))
    });
    match res {
        Ok(Ok((rate, lp, next))) => json!({"has": true, "dt": dt, "L": l, "S": s, "ok": true,
            "rate": rate, "lp": lp, "next": next, "stored": stored}),
        _ => json!({"has": true, "dt": dt, "L": l, "S": s, "ok": false,
            "rate": 0, "lp": false, "next": 0, "stored": stored}),
    }
}

impl<const D: u8> World<D> {
    /// Execute one operation record on the real code. Returns the event (or None for `price`).
    fn apply(&mut self, op: &Value) -> Option<Value> {
        let name = op.get("op").and_then(|v| v.as_str()).unwrap_or("").to_string();
        if name == "price" {
            let g = |k: &str, d: u64| op.get(k).and_then(|v| v.as_u64()).unwrap_or(d);
            let imin = g("imin", self.px.imin);
            let lmin = g("lmin", self.px.lmin);
            let smin = g("smin", self.px.smin);
            self.px = Px {
                imin,
                imax: g("imax", imin),
                lmin,
                lmax: g("lmax", lmin),
                smin,
                smax: g("smax", smin),
            };
            return None;
        }
        let prices = self.px.prices();
        let mut arg = zero_arg();
        for (k, v) in op.as_object().unwrap() {
            if arg.contains_key(k) {
                arg.insert(k.clone(), v.clone());
            }
        }
        // normalise flag-like arguments to booleans
        for k in ["liq", "ins", "cap", "long_in"] {
            let b = gb(op, k);
            arg.insert(k.to_string(), json!(b));
        }
        self.m.callbacks.clear();
        let snap_m = self.m.clone();
        let snap_ps = self.ps;
        let mut out = Outcome { ok: false, panic: false, err: String::new(), r: zero_report(), rx: zero_rx(), f: zero_funding(), cfg_override: None, pp: zero_partial(), part: None };
        let mut part_pos: Option<TestPosition<u64, D>> = None;
        let mut minted_now: Option<u64> = None;
        let mut pos_idx = 0usize;

        macro_rules! settle {
            ($res:expr, $okf:expr) => {
                match $res {
                    Ok(Ok(rep)) => {
                        out.ok = true;
                        #[allow(clippy::redundant_closure_call)]
                        ($okf)(&mut out.r, &mut out.rx, rep);
                    }
                    Ok(Err(e)) => {
                        out.err = format!("{e}");
                    }
                    Err(()) => {
                        out.panic = true;
                        out.err = "panic".into();
                    }
                }
            };
        }

        match name.as_str() {
            "init" => {
                out.ok = true;
            }
            "deposit" => {
                let (l, s) = (gu(op, "l"), gu(op, "s"));
                let res = guarded(|| self.m.deposit(l, s, prices).and_then(|a| a.execute()));
                settle!(res, |r: &mut Map<String, Value>, x: &mut Map<String, Value>, rep: gmsol_model::action::deposit::DepositReport<u64, i64>| {
                    r.insert("in".into(), json!([l, s]));
                    r.insert("minted".into(), json!(*rep.minted()));
                    minted_now = Some(*rep.minted());
                    x.insert("impact".into(), json!(*rep.price_impact()));
                    x.insert("fpl".into(), json!(*rep.long_token_fees().fee_amount_for_pool()));
                    x.insert("frl".into(), json!(*rep.long_token_fees().fee_amount_for_receiver()));
                    x.insert("fps".into(), json!(*rep.short_token_fees().fee_amount_for_pool()));
                    x.insert("frs".into(), json!(*rep.short_token_fees().fee_amount_for_receiver()));
                });
            }
            "withdraw" => {
                let mt = if gb(op, "rt") { self.last_minted } else { gu(op, "mt") };
                arg.insert("mt".into(), json!(mt));
                let res = guarded(|| self.m.withdraw(mt, prices).and_then(|a| a.execute()));
                settle!(res, |r: &mut Map<String, Value>, x: &mut Map<String, Value>, rep: gmsol_model::action::withdraw::WithdrawReport<u64>| {
                    r.insert("wd".into(), json!([*rep.long_token_output(), *rep.short_token_output()]));
                    x.insert("fpl".into(), json!(*rep.long_token_fees().fee_amount_for_pool()));
                    x.insert("frl".into(), json!(*rep.long_token_fees().fee_amount_for_receiver()));
                    x.insert("fps".into(), json!(*rep.short_token_fees().fee_amount_for_pool()));
                    x.insert("frs".into(), json!(*rep.short_token_fees().fee_amount_for_receiver()));
                });
            }
            "swap" => {
                let (long_in, amt) = (gb(op, "long_in"), gu(op, "amt"));
                let res = guarded(|| self.m.swap(long_in, amt, prices).and_then(|a| a.execute()));
                settle!(res, |r: &mut Map<String, Value>, x: &mut Map<String, Value>, rep: gmsol_model::action::swap::SwapReport<u64, i64>| {
                    r.insert("in".into(), if long_in { json!([amt, 0]) } else { json!([0, amt]) });
                    r.insert("sw_out".into(), json!(*rep.token_out_amount()));
                    x.insert("impact".into(), json!(*rep.price_impact()));
                    x.insert("impactAmt".into(), json!(*rep.price_impact_amount()));
                    x.insert("fpl".into(), json!(*rep.token_in_fees().fee_amount_for_pool()));
                    x.insert("frl".into(), json!(*rep.token_in_fees().fee_amount_for_receiver()));
                });
            }
            "increase" => {
                pos_idx = gu(op, "pos") as usize;
                let i = pos_idx.clamp(1, NPOS) - 1;
                let (coll, size, acc) = (gu(op, "coll"), gu(op, "size"), gu(op, "acc"));
                let cl = self.ps[i].is_collateral_token_long;
                let res = guarded(|| {
                    let mut p = self.ps[i];
                    let r = p
                        .ops(&mut self.m)
                        .increase(prices, coll, size, if acc == 0 { None } else { Some(acc) })
                        .and_then(|a| a.execute());
                    (p, r)
                });
                let res = match res {
                    Ok((p, Ok(rep))) => {
                        self.ps[i] = p;
                        Ok(Ok(rep))
                    }
                    Ok((mut p, Err(e))) => {
                        out.pp = partial_probe(&mut p, &mut self.m);
                        part_pos = Some(p);
                        Ok(Err(e))
                    }
                    Err(()) => Err(()),
                };
                settle!(res, |r: &mut Map<String, Value>, x: &mut Map<String, Value>, rep: gmsol_model::action::increase_position::IncreasePositionReport<u64, i64>| {
                    let ex = rep.execution();
                    x.insert("imp".into(), json!(*ex.price_impact_value()));
                    x.insert("impAmt".into(), json!(*ex.price_impact_amount()));
                    x.insert("dtok".into(), json!(*ex.size_delta_in_tokens()));
                    x.insert("xprice".into(), json!(*ex.execution_price()));
                    x.insert("dcoll".into(), json!(*rep.collateral_delta_amount()));
                    x.insert("dsize".into(), json!(size));
                    x.insert("feeCost".into(), json!(rep.fees().total_cost_excluding_funding().unwrap_or(u64::MAX)));
                    x.insert("fund".into(), json!(*rep.fees().funding_fees().amount()));
                    x.insert("clL".into(), json!(*rep.claimable_funding_amounts().0));
                    x.insert("clS".into(), json!(*rep.claimable_funding_amounts().1));
                    r.insert("in".into(), if cl { json!([coll, 0]) } else { json!([0, coll]) });
                    let (a, b) = rep.claimable_funding_amounts();
                    r.insert("cf".into(), json!([*a, *b]));
                    r.insert("dusd".into(), json!(*rep.params().size_delta_usd()));
                    r.insert("dtok".into(), json!(*rep.execution().size_delta_in_tokens()));
                    r.insert("fund".into(), json!(*rep.fees().funding_fees().amount()));
                    r.insert("cdelta".into(), json!(*rep.collateral_delta_amount()));
                });
            }
            "decrease" => {
                pos_idx = gu(op, "pos") as usize;
                let i = pos_idx.clamp(1, NPOS) - 1;
                let (size, wd, acc) = (gu(op, "size"), gu(op, "wd"), gu(op, "acc"));
                let flags = DecreasePositionFlags {
                    is_insolvent_close_allowed: gb(op, "ins"),
                    is_liquidation_order: gb(op, "liq"),
                    is_cap_size_delta_usd_allowed: gb(op, "cap"),
                };
                let swap = match gu(op, "swap") {
                    1 => DecreasePositionSwapType::PnlTokenToCollateralToken,
                    2 => DecreasePositionSwapType::CollateralToPnlToken,
                    _ => DecreasePositionSwapType::NoSwap,
                };
                let res = guarded(|| {
                    let mut p = self.ps[i];
                    let r = p
                        .ops(&mut self.m)
                        .decrease(prices, size, if acc == 0 { None } else { Some(acc) }, wd, flags)
                        .map(|a| a.set_swap(swap))
                        .and_then(|a| {
                            let full = a.is_full_close();
                            a.execute().map(|r| (r, full))
                        });
                    (p, r)
                });
                let res = match res {
                    Ok((p, Ok(rep))) => {
                        self.ps[i] = p;
                        Ok(Ok(rep))
                    }
                    Ok((mut p, Err(e))) => {
                        out.pp = partial_probe(&mut p, &mut self.m);
                        part_pos = Some(p);
                        Ok(Err(e))
                    }
                    Err(()) => Err(()),
                };
                settle!(res, |r: &mut Map<String, Value>, x: &mut Map<String, Value>, (rep, full): (Box<gmsol_model::action::decrease_position::DecreasePositionReport<u64, i64>>, bool)| {
                    {
                        let hold = rep.claimable_collateral_for_holding();
                        let user = rep.claimable_collateral_for_user();
                        x.insert("imp".into(), json!(*rep.price_impact_value()));
                        x.insert("diff".into(), json!(*rep.price_impact_diff()));
                        x.insert("xprice".into(), json!(*rep.execution_price()));
                        x.insert("dtok".into(), json!(*rep.size_delta_in_tokens()));
                        x.insert("wd".into(), json!(*rep.withdrawable_collateral_amount()));
                        x.insert("dsize".into(), json!(*rep.size_delta_usd()));
                        x.insert("pnl".into(), json!(*rep.pnl().pnl()));
                        x.insert("unc".into(), json!(*rep.pnl().uncapped_pnl()));
                        x.insert("step".into(), json!(rep.insolvent_close_step().map(|s| format!("{s:?}")).unwrap_or_default()));
                        x.insert("remove".into(), json!(rep.should_remove()));
                        x.insert("out".into(), json!(*rep.output_amount()));
                        x.insert("sec".into(), json!(*rep.secondary_output_amount()));
                        x.insert("clL".into(), json!(*rep.claimable_funding_amounts().0));
                        x.insert("clS".into(), json!(*rep.claimable_funding_amounts().1));
                        x.insert("hold".into(), json!(*hold.output_token_amount() + *hold.secondary_output_token_amount()));
                        x.insert("uo".into(), json!(*user.output_token_amount()));
                        x.insert("us".into(), json!(*user.secondary_output_token_amount()));
                        x.insert("feeCost".into(), json!(rep.fees().total_cost_excluding_funding().unwrap_or(u64::MAX)));
                        x.insert("fund".into(), json!(*rep.fees().funding_fees().amount()));
                    }
                    r.insert("out".into(), json!(*rep.output_amount()));
                    r.insert("out2".into(), json!(*rep.secondary_output_amount()));
                    r.insert("out_long".into(), json!(rep.is_output_token_long()));
                    r.insert("out2_long".into(), json!(rep.is_secondary_output_token_long()));
                    let (a, b) = rep.claimable_funding_amounts();
                    r.insert("cf".into(), json!([*a, *b]));
                    let h = rep.claimable_collateral_for_holding();
                    r.insert("hold".into(), json!([*h.output_token_amount(), *h.secondary_output_token_amount()]));
                    let u = rep.claimable_collateral_for_user();
                    r.insert("user".into(), json!([*u.output_token_amount(), *u.secondary_output_token_amount()]));
                    r.insert("remove".into(), json!(rep.should_remove()));
                    r.insert("dusd".into(), json!(*rep.size_delta_usd()));
                    r.insert("dtok".into(), json!(*rep.size_delta_in_tokens()));
                    r.insert("fund".into(), json!(*rep.fees().funding_fees().amount()));
                    r.insert("wdable".into(), json!(*rep.withdrawable_collateral_amount()));
                    r.insert("pnl".into(), json!(*rep.pnl().pnl()));
                    r.insert("impact".into(), json!(*rep.price_impact_value()));
                    r.insert("fee_ex".into(), json!(rep.fees().total_cost_excluding_funding().unwrap_or(0)));
                    r.insert("insolv".into(), json!(rep.insolvent_close_step().map(|s| format!("{s:?}")).unwrap_or_default()));
                    r.insert("full".into(), json!(full));
                });
            }
            "tick" => {
                self.m.tick(gu(op, "dt"));
                out.ok = true;
            }
            "update_funding" => {
                out.f = funding_tuple(&mut self.m, &prices);
                self.m.callbacks.clear();
                let res = guarded(|| self.m.update_funding(&prices).and_then(|a| a.execute()));
                settle!(res, |_r: &mut Map<String, Value>, x: &mut Map<String, Value>, rep: gmsol_model::action::update_funding_state::UpdateFundingReport<u64, i64>| {
                    x.insert("dur".into(), json!(rep.duration_in_seconds()));
                });
            }
            "update_borrowing" => {
                let res = guarded(|| self.m.update_borrowing(&prices).and_then(|a| a.execute()));
                settle!(res, |_r: &mut Map<String, Value>, x: &mut Map<String, Value>, rep: gmsol_model::action::update_borrowing_state::UpdateBorrowingReport<u64>| {
                    x.insert("dur".into(), json!(rep.duration_in_seconds()));
                });
            }
            "distribute" => {
                let res = guarded(|| self.m.distribute_position_impact().and_then(|a| a.execute()));
                settle!(res, |_r: &mut Map<String, Value>, x: &mut Map<String, Value>, rep: gmsol_model::action::distribute_position_impact::DistributePositionImpactReport<u64>| {
                    x.insert("dur".into(), json!(rep.duration_in_seconds()));
                    x.insert("d".into(), json!(*rep.distribution_amount()));
                    x.insert("next".into(), json!(*rep.next_position_impact_pool_amount()));
                });
            }
            "probe_funding" => {
                // state injection on a scratch copy: open interest, stored rate and funding parameters
                // come from the record; the world itself is untouched.
                let mut cfg = Cfg::presets(D, gu(op, "fp"), 2, 0, 0);
                for (k, slot) in [("f_exp", &mut cfg.f_exp), ("f_factor", &mut cfg.f_factor), ("f_max", &mut cfg.f_max),
                                  ("f_min", &mut cfg.f_min), ("f_inc", &mut cfg.f_inc), ("f_dec", &mut cfg.f_dec),
                                  ("f_stable", &mut cfg.f_stable), ("f_decthr", &mut cfg.f_decthr)] {
                    if let Some(v) = op.get(k).and_then(|v| v.as_u64()) {
                        *slot = v;
                    }
                }
                let mut scratch = TestMarket::<u64, D>::new(cfg.divisor, cfg.adj, cfg.market_config::<D>());
                let (l, s) = (gu(op, "L"), gu(op, "S"));
                scratch.open_interest.0.long_amount = l;
                scratch.open_interest.1.short_amount = s;
                scratch.funding_factor_per_second = gi(op, "stored");
                let dt = gu(op, "dt");
                let stored = scratch.funding_factor_per_second;
                let res = guarded(|| {
                    scratch
                        .update_funding(&prices)
                        .and_then(|a| a.next_funding_factor_per_second(dt, &l, &s))
                });
                out.f = match res {
                    Ok(Ok((rate, lp, next))) => {
                        out.ok = true;
                        json!({"has": true, "dt": dt, "L": l, "S": s, "ok": true, "rate": rate, "lp": lp, "next": next, "stored": stored})
                    }
                    Ok(Err(e)) => {
                        out.err = format!("{e}");
                        json!({"has": true, "dt": dt, "L": l, "S": s, "ok": false, "rate": 0, "lp": false, "next": 0, "stored": stored})
                    }
                    Err(()) => {
                        out.panic = true;
                        json!({"has": true, "dt": dt, "L": l, "S": s, "ok": false, "rate": 0, "lp": false, "next": 0, "stored": stored})
                    }
                };
                arg.insert("dt".into(), json!(dt));
                out.cfg_override = Some(cfg.json());
            }
            other => {
                eprintln!("unknown op {other}");
                std::process::exit(2);
            }
        }
        if let Some(x) = minted_now {
            self.last_minted = x;
        }
        let cbs: Vec<String> = if out.ok { self.m.callbacks.clone() } else { Vec::new() };
        // swaps inside a decrease, as reported through on_swapped / on_swap_error
        for c in &cbs {
            if c.starts_with("swapped:") || c.starts_with("swap_error:") {
                let ok = c.starts_with("swapped:");
                let key = if c.contains("PnlTokenToCollateralToken") { "sw1" } else { "sw2" };
                out.rx.insert(key.into(), json!(if ok { "ok" } else { "err" }));
            }
        }
        if !out.ok && !out.panic && !out.err.is_empty() {
            let slot = pos_idx.clamp(1, NPOS) - 1;
            let p = part_pos.unwrap_or(self.ps[slot]);
            out.part = Some(json!({"has": true, "m": market_json_of(&self.m), "vi": vi_json(&self.m), "p": pos_core_json(&p)}));
        }
        if !out.ok {
            // the programs discard a failed action's partial effects (revertible market / failed transaction)
            self.m = snap_m;
            self.ps = snap_ps;
        }
        self.m.callbacks.clear();
        self.step += 1;
        let c11 = pnl_probe(self, pos_idx);
        let ncb = cbs.iter().filter(|c| c.starts_with("insufficient_funding")).count();
        let ev = json!({
            "reset": self.fresh, "run": self.run, "step": self.step, "unit": 10u64.pow(D as u32),
            "op": name, "arg": Value::Object(arg), "px": self.px.json(),
            "ok": out.ok, "panic": out.panic, "err": out.err,
            "m": self.market_json(), "ps": self.positions_json(),
            "r": Value::Object(out.r), "f": out.f, "ncb": ncb, "cbs": cbs.join(";"),
            "c": out.cfg_override.unwrap_or_else(|| self.cfg.json()),
            "b": self.borrowing_probe(), "pp": out.pp,
            // additive fields for the composed specification (specs/Exchange.tla, Trace_Exchange)
            "cx": self.cfg.json_full(self.vi), "vi": vi_json(&self.m), "rx": Value::Object(out.rx),
            "pv": self.pool_value_probe(), "c11": c11,
            "part": out.part.unwrap_or_else(|| json!({"has": false, "m": self.market_json(), "vi": vi_json(&self.m),
                                                      "p": pos_core_json(&self.ps[pos_idx.clamp(1, NPOS) - 1])})),
        });
        self.fresh = false;
        Some(ev)
    }
}

// ------------------------------------------------------------------------------------------------
// random histories

fn walk(rng: &mut Rng, v: u64, lo: u64, hi: u64) -> u64 {
    let step = *rng.pick(&[1i64, 1, 2]);
    let nv = if rng.chance(1, 2) { v as i64 + step } else { v as i64 - step };
    nv.clamp(lo as i64, hi as i64) as u64
}

fn gen_price<const D: u8>(w: &World<D>, rng: &mut Rng, long_is_index: bool) -> Value {
    let imin = walk(rng, w.px.imin, 5, 16);
    let ispread = if rng.chance(1, 4) { 1 } else { 0 };
    let lmin = if long_is_index { imin } else { walk(rng, w.px.lmin, 6, 14) };
    let lspread = if long_is_index { ispread } else if rng.chance(1, 5) { 1 } else { 0 };
    // the short token is mostly stable; now and then it moves (collateral of short-token positions loses / gains value)
    let smin = if rng.chance(1, 10) { walk(rng, w.px.smin, 1, 3) } else { w.px.smin };
    let sspread = if rng.chance(1, 12) { 1 } else { 0 };
    json!({"op": "price", "imin": imin, "imax": imin + ispread, "lmin": lmin, "lmax": lmin + lspread,
           "smin": smin, "smax": smin + sspread})
}

fn gen_increase<const D: u8>(w: &World<D>, rng: &mut Rng, slot: Option<usize>) -> Value {
    let i = slot.unwrap_or_else(|| rng.below(NPOS as u64) as usize);
    let p = &w.ps[i];
    let pc = if p.is_collateral_token_long { w.px.lmin } else { w.px.smin }.max(1);
    let size = if p.size_in_usd > 0 && rng.chance(1, 5) {
        0
    } else {
        *rng.pick(&[15u64, 30, 60, 100, 150, 200, 300, 450, 700]) + rng.below(10)
    };
    let lev = *rng.pick(&[1u64, 1, 2, 2, 3, 3, 4, 5, 6, 8, 12]);
    let value = if size == 0 { 10 + rng.below(120) } else { size / lev + rng.below(8) };
    let coll = if p.size_in_usd > 0 && size > 0 && rng.chance(1, 4) { 0 } else { value / pc + rng.below(2) };
    let acc = if rng.chance(1, 12) { w.px.imin + rng.below(3) - 1 } else { 0 };
    json!({"op": "increase", "pos": i + 1, "coll": coll, "size": size, "acc": acc})
}

fn gen_decrease<const D: u8>(w: &World<D>, rng: &mut Rng, kind: u64) -> Value {
    // prefer open positions
    let open: Vec<usize> = (0..NPOS).filter(|i| w.ps[*i].size_in_usd > 0).collect();
    let i = if !open.is_empty() && !rng.chance(1, 14) { *rng.pick(&open) } else { rng.below(NPOS as u64) as usize };
    let p = &w.ps[i];
    let (sz, col) = (p.size_in_usd, p.collateral_token_amount);
    match kind {
        // full close
        1 => json!({"op": "decrease", "pos": i + 1, "size": sz, "wd": if rng.chance(1, 4) { col / 2 } else { 0 },
                    "ins": rng.chance(1, 6), "cap": rng.chance(1, 4), "swap": if rng.chance(1, 6) { 1 + rng.below(2) } else { 0 }}),
        // collateral only
        2 => json!({"op": "decrease", "pos": i + 1, "size": 0,
                    "wd": *rng.pick(&[1u64, col / 10 + 1, col / 3 + 1, col, col + 3])}),
        // liquidation
        3 => json!({"op": "decrease", "pos": i + 1, "size": if rng.chance(1, 10) { sz / 2 } else { sz }, "wd": 0,
                    "liq": true, "ins": !rng.chance(1, 8), "cap": false}),
        // partial (including sizes that round the token delta to zero, oversize with and without cap)
        _ => {
            let size = *rng.pick(&[1u64, 2, 3, 5, sz / 10 + 1, sz / 3 + 1, sz / 2, sz.saturating_sub(1), sz.saturating_sub(5),
                                   sz.saturating_sub(12), sz + 10, sz / 4 + 1]);
            let wd = *rng.pick(&[0u64, 0, 0, col / 4, col / 2, col, col + 5, 1]);
            let acc = if rng.chance(1, 12) { w.px.imin + rng.below(3) - 1 } else { 0 };
            json!({"op": "decrease", "pos": i + 1, "size": size, "wd": wd, "acc": acc,
                   "ins": rng.chance(1, 10), "cap": rng.chance(1, 3),
                   "swap": if rng.chance(1, 8) { 1 + rng.below(2) } else { 0 }})
        }
    }
}

/// what the programs run before an action (`update_fees_state`; a swap step updates the borrowing state)
fn pre_execute(v: &mut Vec<Value>, op: &Value) {
    match op.get("op").and_then(|x| x.as_str()).unwrap_or("") {
        "deposit" | "withdraw" | "increase" | "decrease" => {
            v.push(json!({"op": "distribute"}));
            v.push(json!({"op": "update_borrowing"}));
            v.push(json!({"op": "update_funding"}));
        }
        "swap" => v.push(json!({"op": "update_borrowing"})),
        _ => {}
    }
}

fn gen_ops<const D: u8>(w: &World<D>, rng: &mut Rng, long_is_index: bool, k: u64, proto: bool) -> Vec<Value> {
    let v = gen_ops_raw(w, rng, long_is_index, k);
    if !proto {
        return v;
    }
    // --proto 1: every action is preceded by the programs' pre-execute updates (no randomness consumed)
    let mut out = Vec::new();
    let mut updated = false;
    for o in v {
        let name = o.get("op").and_then(|x| x.as_str()).unwrap_or("").to_string();
        if name == "update_funding" || name == "update_borrowing" {
            updated = true;
        } else if !updated {
            pre_execute(&mut out, &o);
        }
        out.push(o);
    }
    out
}

fn gen_ops_raw<const D: u8>(w: &World<D>, rng: &mut Rng, long_is_index: bool, k: u64) -> Vec<Value> {
    let mut v = Vec::new();
    if rng.chance(3, 10) {
        v.push(gen_price(w, rng, long_is_index));
    }
    if k < 6 {
        // opening phase: build open interest on both sides
        let side_slots: Vec<usize> = (0..NPOS).filter(|i| slot_long(*i) == (k % 2 == 0)).collect();
        let slot = *rng.pick(&side_slots);
        v.push(gen_increase(w, rng, Some(slot)));
        return v;
    }
    let x = rng.below(100);
    let auto_update = rng.chance(1, 3);
    let position_op = |v: &mut Vec<Value>, o: Value| {
        if auto_update {
            v.push(json!({"op": "update_funding"}));
            v.push(json!({"op": "update_borrowing"}));
        }
        v.push(o);
    };
    match x {
        0..=21 => position_op(&mut v, gen_increase(w, rng, None)),
        22..=39 => position_op(&mut v, gen_decrease(w, rng, 0)),
        40..=46 => position_op(&mut v, gen_decrease(w, rng, 1)),
        47..=51 => position_op(&mut v, gen_decrease(w, rng, 2)),
        52..=58 => position_op(&mut v, gen_decrease(w, rng, 3)),
        59..=70 => v.push(json!({"op": "tick", "dt": *rng.pick(&[0u64, 1, 1, 1, 2, 2, 3, 5, 9])})),
        71..=78 => v.push(json!({"op": "update_funding"})),
        79..=86 => v.push(json!({"op": "update_borrowing"})),
        87..=88 => v.push(json!({"op": "distribute"})),
        89..=91 => v.push(json!({"op": "deposit", "l": rng.below(40), "s": rng.below(400)})),
        92..=94 => v.push(json!({"op": "withdraw", "mt": 1 + rng.below(w.m.total_supply / 6 + 2)})),
        _ => {
            let long_in = rng.chance(1, 2);
            v.push(json!({"op": "swap", "long_in": long_in, "amt": if long_in { 1 + rng.below(30) } else { 1 + rng.below(300) }}));
        }
    }
    v
}

fn run_random<const D: u8>(a: &Args) {
    let seed = a.num("seed", 1);
    let n = a.num("n", 3000);
    let runs = a.num("runs", 60).max(1);
    let per_run = (n / runs).max(8);
    let vi_every = a.num("vi", 0);
    let proto = a.num("proto", 0) != 0;
    let mut sink = Sink::create(&a.str("out", "trace.ndjson"));
    let mut ops_sink = a.get("ops").map(Sink::create);
    let mut rng = Rng::new(seed ^ ((D as u64) << 40));
    let mut truncated = 0u64;
    for run in 0..runs {
        let (fp, bp, fe, ip) = (
            *rng.pick(&[0u64, 0, 1, 2, 2, 3, 3, 6, 7, 4]),
            rng.below(5),
            rng.below(5),
            rng.below(4),
        );
        // --vi K: every K-th run has virtual inventories (does not consume randomness: the default
        // histories are unchanged)
        let vi = vi_every > 0 && run % vi_every == vi_every - 1;
        let reset = json!({"op": "reset", "d": D, "fp": fp, "bp": bp, "fe": fe, "ip": ip, "vi": vi});
        let mut w = World::<D>::new_vi(Cfg::presets(D, fp, bp, fe, ip), run + 1, vi);
        let long_is_index = !rng.chance(1, 4);
        let mut script: Vec<Value> = vec![reset, json!({"op": "init"})];
        let smin = *rng.pick(&[1u64, 1, 2]);
        script.push(json!({"op": "price", "imin": 10, "imax": 10, "lmin": 10, "lmax": 10, "smin": smin, "smax": smin}));
        script.push(json!({"op": "deposit", "l": 200 + rng.below(300), "s": (2000 + rng.below(3000)) / smin}));
        let mut emitted = 0u64;
        let mut k = 0u64;
        let mut cursor = 1usize; // script[0] is the reset itself
        while emitted < per_run {
            if cursor >= script.len() {
                let more = gen_ops(&w, &mut rng, long_is_index, k, proto);
                k += 1;
                script.extend(more);
            }
            let op = script[cursor].clone();
            cursor += 1;
            if let Some(ev) = w.apply(&op) {
                if !fits(&ev) {
                    truncated += 1;
                    script.truncate(cursor - 1);
                    break;
                }
                sink.emit(ev);
                emitted += 1;
            }
        }
        script.truncate(cursor.min(script.len()));
        if let Some(s) = ops_sink.as_mut() {
            for o in &script {
                s.emit(o.clone());
            }
        }
    }
    if let Some(s) = ops_sink {
        s.finish();
    }
    let total = sink.finish();
    println!("hist random: d={D} runs={runs} events={total} truncated_runs={truncated}");
}

fn run_replay(a: &Args) {
    let inp = a.str("in", "ops.ndjson");
    let mut sink = Sink::create(&a.str("out", "trace.ndjson"));
    let f = std::fs::File::open(&inp).expect("open --in");
    let mut w1: Option<World<1>> = None;
    let mut w2: Option<World<2>> = None;
    let mut run = 0u64;
    let mut dead = false;
    let mut truncated = 0u64;
    for line in BufReader::new(f).lines() {
        let line = line.unwrap();
        if line.trim().is_empty() {
            continue;
        }
        let op: Value = serde_json::from_str(&line).expect("op record");
        if op.get("op").and_then(|v| v.as_str()) == Some("reset") {
            run += 1;
            dead = false;
            let d = gu(&op, "d").max(1) as u8;
            let cfg = Cfg::presets(d, gu(&op, "fp"), gu(&op, "bp"), gu(&op, "fe"), gu(&op, "ip"));
            let vi = gb(&op, "vi");
            if d == 2 {
                w2 = Some(World::<2>::new_vi(cfg, run, vi));
                w1 = None;
            } else {
                w1 = Some(World::<1>::new_vi(cfg, run, vi));
                w2 = None;
            }
            continue;
        }
        if dead {
            continue;
        }
        let ev = if let Some(w) = w1.as_mut() {
            w.apply(&op)
        } else if let Some(w) = w2.as_mut() {
            w.apply(&op)
        } else {
            panic!("operation before reset");
        };
        if let Some(ev) = ev {
            if !fits(&ev) {
                truncated += 1;
                dead = true;
                continue;
            }
            sink.emit(ev);
        }
    }
    let total = sink.finish();
    println!("hist replay: runs={run} events={total} truncated_runs={truncated}");
}

/// Funding-rate probes over the same finite domain as MC_Funding (DECIMALS = 1).
fn run_grid(a: &Args) {
    let max = a.num("max", 40);
    let mut sink = Sink::create(&a.str("out", "grid.ndjson"));
    let mut w = World::<1>::new(Cfg::presets(1, 4, 2, 0, 0), 1);
    sink.emit(w.apply(&json!({"op": "init"})).unwrap());
    for fp in [0u64, 1, 2, 3, 5, 6, 7] {
        let c = Cfg::presets(1, fp, 2, 0, 0);
        let stored: Vec<i64> = if c.f_inc == 0 { vec![0] } else {
            let m = c.f_max as i64;
            vec![-m - 1, -m, -1, 0, 1, m, m + 1]
        };
        for l in 1..=max {
            for s in 1..=max {
                for dt in [0u64, 1, 7, 100] {
                    for st in &stored {
                        let ev = w.apply(&json!({"op": "probe_funding", "fp": fp, "L": l, "S": s, "dt": dt, "stored": st}));
                        sink.emit(ev.unwrap());
                    }
                }
            }
        }
    }
    let total = sink.finish();
    println!("hist grid: events={total}");
}

fn main() {
    quiet_panics();
    let (mode, a) = Args::from_env();
    match mode.as_str() {
        "random" => {
            if a.num("d", 1) == 2 {
                run_random::<2>(&a)
            } else {
                run_random::<1>(&a)
            }
        }
        "replay" => run_replay(&a),
        "grid" => run_grid(&a),
        _ => {
            eprintln!("modes: random | replay | grid");
            std::process::exit(2);
        }
    }
}
