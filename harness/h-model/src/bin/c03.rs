//! C03: price impact (pool/delta.rs, params/price_impact.rs, market/swap.rs, position.rs).
//!   pool      BalanceExt::pool_delta_with_amounts(..).price_impact(params) on a pool
//!   swap      SwapMarketExt::swap_impact_value on the harness market (liquidity pool + optional
//!             virtual inventory for swaps); the state is moved with BaseMarketMutExt::apply_delta
//!   position  PositionExt::position_price_impact on the harness market (open interest + optional
//!             virtual inventory for positions); moved with apply_delta_to_open_interest
//! Every event also computes the impact of the exact reverse delta on the state after the move.
//! modes: small --dom FILE (the finite domain printed by specs/MC_Impact), random, replay --in
#[path = "../shared/smallcfg.rs"]
mod smallcfg;

use gmsol_model::fixed::FixedPointOps;
use gmsol_model::params::PriceImpactParams;
use gmsol_model::pool::delta::{BalanceChange, PriceImpact};
use gmsol_model::{BalanceExt, BaseMarket, BaseMarketMutExt, PerpMarketMutExt, PositionExt, SwapMarketExt};
use h_model::util::{guarded, Args, Rng, Sink};
use h_model::vmarket::{TestMarket, TestPool, TestPosition};
use serde_json::{json, Value};
use smallcfg::{small_config, small_market};

#[derive(Clone, Copy, Debug)]
struct Call {
    op: &'static str,
    l: u64,
    s: u64,
    pl: u64,
    ps: u64,
    dl: i64,
    ds: i64,
    exp: u64,
    pos: u64,
    neg: u64,
    is_long: bool,
    vi: Option<(u64, u64)>,
}

type Imp = Option<(i64, i64)>; // (value, balance change) or failure

fn out(r: gmsol_model::Result<PriceImpact<i64>>) -> Imp {
    r.ok().map(|p| {
        (
            p.value,
            match p.balance_change {
                BalanceChange::Improved => 1,
                BalanceChange::Worsened => -1,
                BalanceChange::Unchanged => 0,
            },
        )
    })
}

fn params(c: &Call) -> PriceImpactParams<u64> {
    PriceImpactParams::builder().exponent(c.exp).positive_factor(c.pos).negative_factor(c.neg).build()
}

/// state after the move: (L2, S2, VL2, VS2)
type Moved = Option<(u64, u64, u64, u64)>;

struct Outcome {
    r: Imp,
    r0: Imp,
    moved: Moved,
    rr: Imp,
}

fn pool_op<const D: u8>(c: &Call) -> Outcome
where
    u64: FixedPointOps<D>,
{
    let p = params(c);
    let imp = |pool: &TestPool<u64>, dl: i64, ds: i64| {
        out(pool.pool_delta_with_amounts(&dl, &ds, &c.pl, &c.ps).and_then(|d| d.price_impact::<D>(&p)))
    };
    let pool = TestPool { long_amount: c.l, short_amount: c.s };
    let r = imp(&pool, c.dl, c.ds);
    let r0 = imp(&pool, c.dl, c.ds);
    let moved = match (c.l.checked_add_signed(c.dl), c.s.checked_add_signed(c.ds)) {
        (Some(a), Some(b)) => Some((a, b, 0, 0)),
        _ => None,
    };
    let rr = moved.and_then(|(a, b, _, _)| imp(&TestPool { long_amount: a, short_amount: b }, -c.dl, -c.ds));
    Outcome { r, r0, moved, rr }
}

fn swap_op<const D: u8>(c: &Call) -> Outcome
where
    u64: FixedPointOps<D>,
{
    let mut cfg = small_config::<D>();
    cfg.swap_impact_params = params(c);
    let mut m = small_market(cfg);
    m.primary = TestPool { long_amount: c.l, short_amount: c.s };
    m.vi_swaps = c.vi.map(|(a, b)| TestPool { long_amount: a, short_amount: b });
    let imp = |m: &TestMarket<u64, D>, dl: i64, ds: i64, incl: bool| {
        out(m
            .liquidity_pool()
            .and_then(|p| p.pool_delta_with_amounts(&dl, &ds, &c.pl, &c.ps))
            .and_then(|d| m.swap_impact_value(&d, incl)))
    };
    let r = imp(&m, c.dl, c.ds, true);
    let r0 = imp(&m, c.dl, c.ds, false);
    let moved_ok = m.apply_delta(true, &c.dl).is_ok() && m.apply_delta(false, &c.ds).is_ok();
    let moved = moved_ok.then(|| {
        let v = m.vi_swaps.unwrap_or_default();
        (m.primary.long_amount, m.primary.short_amount, v.long_amount, v.short_amount)
    });
    let rr = if moved_ok { imp(&m, -c.dl, -c.ds, true) } else { None };
    Outcome { r, r0, moved, rr }
}

fn position_op<const D: u8>(c: &Call) -> Outcome
where
    u64: FixedPointOps<D>,
{
    let mut cfg = small_config::<D>();
    cfg.position_impact_params = params(c);
    let mut m = small_market(cfg);
    // own side entirely in the long-collateral slot (that is the slot the move below changes), the
    // other side split over both collateral slots (the impact uses the merged totals)
    let split = |x: u64, own: bool| {
        if own { TestPool { long_amount: x, short_amount: 0 } } else { TestPool { long_amount: x / 2, short_amount: x - x / 2 } }
    };
    m.open_interest = (split(c.l, c.is_long), split(c.s, !c.is_long));
    m.vi_positions = c.vi.map(|(a, b)| TestPool { long_amount: a, short_amount: b });
    let delta = if c.is_long { c.dl } else { c.ds };
    let is_long = c.is_long;
    let imp = |m: &mut TestMarket<u64, D>, d: i64, incl: bool| {
        let mut pos = if is_long { TestPosition::<u64, D>::long(true) } else { TestPosition::<u64, D>::short(true) };
        let ops = pos.ops(m);
        out(ops.position_price_impact(&d, incl))
    };
    let r = imp(&mut m, delta, true);
    let r0 = imp(&mut m, delta, false);
    let moved_ok = m.apply_delta_to_open_interest(c.is_long, true, &delta).is_ok();
    let moved = moved_ok.then(|| {
        let v = m.vi_positions.unwrap_or_default();
        (
            m.open_interest.0.long_amount + m.open_interest.0.short_amount,
            m.open_interest.1.long_amount + m.open_interest.1.short_amount,
            v.long_amount,
            v.short_amount,
        )
    });
    let rr = if moved_ok { imp(&mut m, -delta, true) } else { None };
    Outcome { r, r0, moved, rr }
}

fn run_call<const D: u8>(sink: &mut Sink, c: &Call)
where
    u64: FixedPointOps<D>,
{
    let res = guarded(|| match c.op {
        "pool" => pool_op::<D>(c),
        "swap" => swap_op::<D>(c),
        _ => position_op::<D>(c),
    });
    let (panic, o) = match res {
        Ok(o) => (false, o),
        Err(()) => (true, Outcome { r: None, r0: None, moved: None, rr: None }),
    };
    let (v, bc) = o.r.unwrap_or((0, 0));
    let (v0, bc0) = o.r0.unwrap_or((0, 0));
    let (l2, s2, vl2, vs2) = o.moved.unwrap_or((0, 0, 0, 0));
    sink.emit(json!({
        "op": c.op, "L": c.l, "S": c.s, "pL": c.pl, "pS": c.ps, "dL": c.dl, "dS": c.ds,
        "exp": c.exp, "pos": c.pos, "neg": c.neg, "isLong": c.is_long,
        "hasvi": c.vi.is_some(), "VL": c.vi.map(|x| x.0).unwrap_or(0), "VS": c.vi.map(|x| x.1).unwrap_or(0),
        "ok": o.r.is_some(), "v": v, "bc": bc, "ok0": o.r0.is_some(), "v0": v0, "bc0": bc0,
        "moved": o.moved.is_some(), "L2": l2, "S2": s2, "VL2": vl2, "VS2": vs2,
        "rok": o.rr.is_some(), "rv": o.rr.map(|x| x.0).unwrap_or(0), "panic": panic,
    }));
}

fn ints(v: &Value) -> Vec<i64> {
    v.as_array().expect("array").iter().map(|x| x.as_i64().expect("int")).collect()
}
fn pairs(v: &Value) -> Vec<(u64, u64)> {
    v.as_array()
        .expect("array")
        .iter()
        .map(|p| (p[0].as_u64().expect("int"), p[1].as_u64().expect("int")))
        .collect()
}

fn small(args: &Args) -> i32 {
    let text = std::fs::read_to_string(args.str("dom", "dom.json")).expect("read domain file");
    let dom: Value = serde_json::from_str(&text).expect("domain json");
    let unit = 10u64;
    let mut sink = Sink::create(&args.str("out", "c03-small.ndjson"));
    let pool_amts = ints(&dom["poolAmts"]);
    let delta_amts = ints(&dom["deltaAmts"]);
    let price_pairs = pairs(&dom["pricePairs"]);
    let exps = ints(&dom["exps"]);
    let factor_pairs = pairs(&dom["factorPairs"]);
    let mid = dom["mid"].as_i64().expect("mid");
    let mut vis: Vec<Option<(u64, u64)>> = vec![None];
    for &a in &ints(&dom["viAmts"]) {
        for &b in &ints(&dom["viAmts"]) {
            vis.push(Some((a as u64, b as u64)));
        }
    }
    let small_fp = pairs(&dom["smallFactorPairs"]);
    // grid
    for &l in &pool_amts {
        for &s in &pool_amts {
            for &dl in &delta_amts {
                for &ds in &delta_amts {
                    for &(pl, ps) in &price_pairs {
                        for &exp in &exps {
                            for &(pos, neg) in &factor_pairs {
                                let c = Call { op: "pool", l: l as u64, s: s as u64, pl, ps, dl, ds, exp: exp as u64, pos, neg, is_long: false, vi: None };
                                run_call::<1>(&mut sink, &c);
                            }
                        }
                    }
                }
            }
        }
    }
    // sweep
    for l in 0..=2 * mid {
        for dl in -l..=(2 * mid - l) {
            for &exp in &exps {
                for &(pos, neg) in &factor_pairs {
                    let c = Call { op: "pool", l: l as u64, s: mid as u64, pl: 1, ps: 1, dl, ds: 0, exp: exp as u64, pos, neg, is_long: false, vi: None };
                    run_call::<1>(&mut sink, &c);
                }
            }
        }
    }
    // swap
    let swap_amts = ints(&dom["swapAmts"]);
    let swap_deltas = ints(&dom["swapDeltas"]);
    for &l in &swap_amts {
        for &s in &swap_amts {
            for &dl in &swap_deltas {
                for &ds in &swap_deltas {
                    for &(pl, ps) in &pairs(&dom["swapPrices"]) {
                        for &(pos, neg) in &small_fp {
                            for &vi in &vis {
                                let c = Call { op: "swap", l: l as u64, s: s as u64, pl, ps, dl, ds, exp: 2 * unit, pos, neg, is_long: false, vi };
                                run_call::<1>(&mut sink, &c);
                            }
                        }
                    }
                }
            }
        }
    }
    // position
    let oi_amts = ints(&dom["oiAmts"]);
    let pos_deltas = ints(&dom["posDeltas"]);
    for &l in &oi_amts {
        for &s in &oi_amts {
            for is_long in [false, true] {
                for &d in &pos_deltas {
                    for exp in [unit, 2 * unit] {
                        for &(pos, neg) in &small_fp {
                            for &vi in &vis {
                                let (dl, ds) = if is_long { (d, 0) } else { (0, d) };
                                let c = Call { op: "position", l: l as u64, s: s as u64, pl: 1, ps: 1, dl, ds, exp, pos, neg, is_long, vi };
                                run_call::<1>(&mut sink, &c);
                            }
                        }
                    }
                }
            }
        }
    }
    println!("events {}", sink.finish());
    0
}

fn random_d<const D: u8>(args: &Args) -> i32
where
    u64: FixedPointOps<D>,
{
    let n = args.num("n", 3000);
    let mut rng = Rng::new(args.num("seed", 1));
    let unit = <u64 as FixedPointOps<D>>::UNIT;
    let k = (unit / 10) as i64; // scale: amounts up to 4 units of value
    let mut sink = Sink::create(&args.str("out", "c03-random.ndjson"));
    for _ in 0..n {
        let op = *rng.pick(&["pool", "pool", "swap", "position"]);
        let amt = |rng: &mut Rng| rng.range(0, 40 * k) as u64;
        // deltas: often small, sometimes exactly cancelling the imbalance or crossing over
        let l = amt(&mut rng);
        let s = amt(&mut rng);
        let mut delta = |rng: &mut Rng, own: u64, other: u64| -> i64 {
            match rng.below(6) {
                0 => other as i64 - own as i64,
                1 => 2 * (other as i64 - own as i64),
                2 => rng.range(-3, 3),
                3 => 0,
                _ => rng.range(-40 * k, 40 * k),
            }
        };
        let (pl, ps) = if op == "position" { (1, 1) } else { (1 + rng.below(3), 1 + rng.below(3)) };
        let is_long = op == "position" && rng.chance(1, 2);
        let (dl, ds) = if op == "position" {
            let d = if is_long { delta(&mut rng, l, s) } else { delta(&mut rng, s, l) };
            if is_long { (d, 0) } else { (0, d) }
        } else if rng.chance(1, 3) {
            let d = delta(&mut rng, l, s);
            (d, -d) // swap-like
        } else {
            (delta(&mut rng, l, s), delta(&mut rng, s, l))
        };
        let vi = if op != "pool" && rng.chance(2, 3) { Some((amt(&mut rng), amt(&mut rng))) } else { None };
        let fmax = 6 * unit / 10;
        let c = Call {
            op,
            l,
            s,
            pl,
            ps,
            dl,
            ds,
            exp: unit * (1 + rng.below(3)),
            pos: rng.below(fmax + 1),
            neg: rng.below(fmax + 1),
            is_long,
            vi,
        };
        run_call::<D>(&mut sink, &c);
    }
    println!("events {}", sink.finish());
    0
}

fn replay(args: &Args) -> i32 {
    let text = std::fs::read_to_string(args.str("in", "replay.ndjson")).expect("read replay input");
    let mut sink = Sink::create(&args.str("out", "c03-replay.ndjson"));
    for line in text.lines().filter(|l| !l.trim().is_empty()) {
        let e: Value = serde_json::from_str(line).expect("json");
        let g = |k: &str| e[k].as_u64().unwrap_or(0);
        let op = match e["op"].as_str().unwrap_or("") {
            "swap" => "swap",
            "position" => "position",
            _ => "pool",
        };
        let c = Call {
            op,
            l: g("L"),
            s: g("S"),
            pl: g("pL"),
            ps: g("pS"),
            dl: e["dL"].as_i64().unwrap_or(0),
            ds: e["dS"].as_i64().unwrap_or(0),
            exp: g("exp"),
            pos: g("pos"),
            neg: g("neg"),
            is_long: e["isLong"].as_bool().unwrap_or(false),
            vi: if e["hasvi"].as_bool().unwrap_or(false) { Some((g("VL"), g("VS"))) } else { None },
        };
        run_call::<1>(&mut sink, &c);
    }
    println!("events {}", sink.finish());
    0
}

fn main() {
    h_model::util::quiet_panics();
    let (mode, args) = Args::from_env();
    let code = match mode.as_str() {
        "small" => small(&args),
        "replay" => replay(&args),
        "random" => match args.num("decimals", 1) {
            1 => random_d::<1>(&args),
            2 => random_d::<2>(&args),
            _ => 2,
        },
        _ => 2,
    };
    std::process::exit(code);
}
