//! C26: price decimal conversion (crates/utils/src/price/decimal.rs, price/mod.rs, oracle.rs).
//! modes:
//!   small  --level N --out F   every (d, td, prec) in 0..=21^3 x a price list (31-bit tier, ints)
//!   random --seed S --n N      random decimals (incl. 22, 100, 255) and prices (31-bit tier, ints)
//!   wide   --seed S --n N      boundary-biased full-width operands (decimal strings, Apalache tier)
//! 31-bit tier: an event is emitted only if every logged quantity is below 2^31 and the exactly
//! truncated value is not in [2^31, 2^32) (the one band where u32 and TLC's integers disagree on
//! representability); the number of skipped cases is printed.
use gmsol_utils::oracle::pyth_price_value_to_decimal;
use gmsol_utils::price::{convert_to_u128_storage, Decimal, U192};
use gmsol_utils::token_config::TokenConfig;
use h_model::util::{guarded, Args, Rng, Sink};
use serde_json::{json, Value};

const I31: u128 = (1u128 << 31) - 1;

struct Ev {
    op: &'static str,
    p: String,
    d: i64,
    td: i64,
    prec: i64,
    ru: bool,
    dm: i64,
    ok: bool,
    value: String,
    unit: String,
    panic: bool,
}

impl Ev {
    fn new(op: &'static str) -> Self {
        Ev { op, p: "0".into(), d: 0, td: 0, prec: 0, ru: false, dm: 0, ok: false, value: "0".into(), unit: "0".into(), panic: false }
    }
    fn json(&self, wide: bool) -> Value {
        let num = |s: &str| -> Value {
            if wide { json!(s) } else { json!(s.parse::<i64>().expect("31-bit tier value")) }
        };
        json!({"op": self.op, "p": num(&self.p), "d": self.d, "td": self.td, "prec": self.prec, "ru": self.ru,
               "dm": self.dm, "ok": self.ok, "value": num(&self.value), "unit": num(&self.unit), "panic": self.panic})
    }
}

fn from_price(p: u128, d: u8, td: u8, prec: u8, log_unit: bool) -> Ev {
    let mut e = Ev::new("from_price");
    e.p = p.to_string();
    e.d = d as i64;
    e.td = td as i64;
    e.prec = prec as i64;
    e.unit = if log_unit { "0".into() } else { "-1".into() };
    match guarded(|| Decimal::try_from_price(p, d, td, prec)) {
        Err(()) => e.panic = true,
        Ok(Err(_)) => {}
        Ok(Ok(dec)) => {
            e.ok = true;
            e.value = dec.value.to_string();
            e.dm = dec.decimal_multiplier as i64;
            if log_unit {
                match guarded(|| dec.to_unit_price()) {
                    Ok(u) => e.unit = u.to_string(),
                    Err(()) => e.panic = true,
                }
            }
        }
    }
    e
}

fn to_unit(value: u32, dm: u8) -> Ev {
    let mut e = Ev::new("to_unit");
    e.value = value.to_string();
    e.dm = dm as i64;
    e.ok = true;
    match guarded(|| Decimal { value, decimal_multiplier: dm }.to_unit_price()) {
        Ok(u) => e.unit = u.to_string(),
        Err(()) => e.panic = true,
    }
    e
}

fn with_unit(dm: u8, price: u128, ru: bool) -> Ev {
    let mut e = Ev::new("with_unit");
    e.dm = dm as i64;
    e.p = price.to_string();
    e.ru = ru;
    match guarded(|| Decimal { value: 7, decimal_multiplier: dm }.with_unit_price(price, ru)) {
        Err(()) => e.panic = true,
        Ok(None) => {}
        Ok(Some(dec)) => {
            e.ok = true;
            e.value = dec.value.to_string();
            if dec.decimal_multiplier != dm {
                e.dm = -1; // would be caught by Conforms/monitors
            }
        }
    }
    e
}

/// decimal rendering of a U192 (ruint is built without its Display impl here)
fn u192_to_string(mut x: U192) -> String {
    let base = U192::from(1_000_000_000_000_000_000u64);
    let mut parts: Vec<u64> = Vec::new();
    loop {
        let (q, r) = x.div_rem(base);
        parts.push(r.as_limbs()[0]);
        x = q;
        if x.is_zero() {
            break;
        }
    }
    let mut s = parts.pop().unwrap().to_string();
    while let Some(p) = parts.pop() {
        s.push_str(&format!("{:018}", p));
    }
    s
}

fn to_u128(num: U192, decimals: u8) -> Ev {
    let mut e = Ev::new("to_u128");
    e.p = u192_to_string(num);
    e.d = decimals as i64;
    match guarded(|| convert_to_u128_storage(num, decimals)) {
        Err(()) => e.panic = true,
        Ok(None) => {}
        Ok(Some((v, left))) => {
            e.ok = true;
            e.value = v.to_string();
            e.dm = left as i64;
        }
    }
    e
}

fn token_config(td: u8, prec: u8) -> TokenConfig {
    let mut c: TokenConfig = bytemuck::Zeroable::zeroed();
    c.token_decimals = td;
    c.precision = prec;
    c
}

fn pyth(value: u64, exponent: i32, td: u8, prec: u8) -> Ev {
    let mut e = Ev::new("pyth");
    e.p = value.to_string();
    e.d = exponent as i64;
    e.td = td as i64;
    e.prec = prec as i64;
    let cfg = token_config(td, prec);
    match guarded(|| pyth_price_value_to_decimal(value, exponent, &cfg)) {
        Err(()) => e.panic = true,
        Ok(Err(_)) => {}
        Ok(Ok(dec)) => {
            e.ok = true;
            e.value = dec.value.to_string();
            e.dm = dec.decimal_multiplier as i64;
        }
    }
    e
}

/// exactly truncated value floor(p * 10^(prec - d)), saturating (only used to select the 31-bit tier)
fn true_value(p: u128, d: i64, prec: i64) -> u128 {
    if prec >= d {
        let k = (prec - d) as u32;
        if p == 0 { 0 } else if k > 38 { u128::MAX } else { p.checked_mul(10u128.pow(k)).unwrap_or(u128::MAX) }
    } else {
        let k = (d - prec) as u32;
        if k > 38 { 0 } else { p / 10u128.pow(k) }
    }
}
fn in_band(v: u128) -> bool {
    v > I31 && v <= u32::MAX as u128
}

fn price_list(level: u64) -> Vec<u128> {
    let mut v: Vec<u128> = vec![0, 1, 9, 10, 2147, 99_999, 1_000_000, 2_147_483_647];
    if level >= 1 {
        v.extend([2, 11, 99, 100, 101, 2148, 21_474, 21_475, 214_748, 214_749, 123_456_789, 999_999_999, 1_000_000_000, 2_147_483_646]);
    }
    if level >= 2 {
        v.extend([5, 19, 999, 1000, 1001, 12_345, 100_000, 2_147_483, 2_147_484, 21_474_836, 21_474_837, 214_748_364, 214_748_365, 2_000_000_000]);
    }
    v.sort();
    v.dedup();
    v
}

fn small(args: &Args) -> i32 {
    let level = args.num("level", 0);
    let prices = price_list(level);
    let mut sink = Sink::create(&args.str("out", "c26-small.ndjson"));
    let mut skipped = 0u64;
    for d in 0..=21u8 {
        for td in 0..=21u8 {
            for prec in 0..=21u8 {
                for &p in &prices {
                    if in_band(true_value(p, d as i64, prec as i64)) {
                        skipped += 1;
                        continue;
                    }
                    sink.emit(from_price(p, d, td, prec, false).json(false));
                }
            }
        }
    }
    for dm in 0..=20u8 {
        for value in [0u32, 1, 7, 99, 2147, 214_748, 2_147_483_647] {
            if dm <= 38 && (value as u128).checked_mul(10u128.pow(dm as u32)).map_or(false, |u| u <= I31) {
                sink.emit(to_unit(value, dm).json(false));
            } else {
                skipped += 1;
            }
        }
        for &p in &prices {
            for ru in [false, true] {
                sink.emit(with_unit(dm, p, ru).json(false));
            }
        }
    }
    let decs = [0u8, 1, 6, 8, 12, 20, 21];
    for x in (-22i32..=10).chain([-255, -256, -1000, 19, 20, 30, i32::MAX]) {
        for &td in &decs {
            for &prec in &decs {
                for &p in &prices {
                    // exactly truncated value floor(p * 10^(x + prec)); decimals d = -x
                    let tv = true_value(p, -(x as i64), prec as i64);
                    if in_band(tv) || (x >= 10 && p == 0) {
                        skipped += 1;
                        continue;
                    }
                    sink.emit(pyth(p as u64, x, td, prec).json(false));
                }
            }
        }
    }
    println!("events {} skipped {}", sink.finish(), skipped);
    0
}

fn random(args: &Args) -> i32 {
    let n = args.num("n", 3000);
    let mut rng = Rng::new(args.num("seed", 1) ^ 0xC26);
    let mut sink = Sink::create(&args.str("out", "c26-random.ndjson"));
    let mut skipped = 0u64;
    let dec = |rng: &mut Rng| -> u8 {
        match rng.below(10) {
            0 => *rng.pick(&[21u8, 22, 30, 100, 128, 255]),
            _ => rng.below(21) as u8,
        }
    };
    let mut t = 0;
    while t < n {
        let (d, td, prec) = (dec(&mut rng), dec(&mut rng), dec(&mut rng));
        let p: u128 = match rng.below(4) {
            0 => rng.below(1 << 31) as u128,
            1 => 10u128.pow(rng.below(10) as u32) + rng.below(3) as u128 - 1,
            2 => rng.below(100_000) as u128,
            _ => (rng.below(1 << 31) >> rng.below(31)) as u128,
        } & I31;
        if in_band(true_value(p, d as i64, prec as i64)) {
            skipped += 1;
            continue;
        }
        sink.emit(from_price(p, d, td, prec, false).json(false));
        t += 1;
    }
    println!("events {} skipped {}", sink.finish(), skipped);
    0
}

fn pow10(k: u32) -> u128 {
    10u128.pow(k)
}

/// price near the representability threshold of (d, prec), or a type-limit / power-of-ten value
fn wide_price(rng: &mut Rng, d: u8, prec: u8) -> u128 {
    let jitter = |rng: &mut Rng, x: u128| -> u128 { x.wrapping_add(rng.below(3) as u128).wrapping_sub(1) };
    match rng.below(10) {
        0 => jitter(rng, u128::MAX - 1),
        1 => jitter(rng, 1),
        2 => { let k = rng.below(39) as u32; jitter(rng, pow10(k)) }
        3 => rng.next128() >> rng.below(128),
        4 => { let k = rng.below(128); jitter(rng, 1u128 << k) }
        _ => {
            let v: u128 = match rng.below(7) {
                0 => u32::MAX as u128,
                1 => u32::MAX as u128 + 1,
                2 => u32::MAX as u128 - 1,
                3 => 1u128 << 31,
                4 => rng.below(1 << 32) as u128,
                5 => rng.below(1000) as u128,
                _ => (rng.next() >> rng.below(40)) as u128,
            };
            if d >= prec && d <= 20 {
                let base = pow10((d - prec) as u32);
                let r = match rng.below(4) {
                    0 => 0,
                    1 => base - 1,
                    2 => 1 % base,
                    _ => rng.next128() % base,
                };
                v.saturating_mul(base).saturating_add(r)
            } else if prec > d && prec <= 20 {
                let m = pow10((prec - d) as u32);
                jitter(rng, v / m)
            } else {
                v
            }
        }
    }
}

fn u192_pow10(k: u32) -> U192 {
    U192::from(10u64).pow(U192::from(k))
}

fn wide(args: &Args) -> i32 {
    let n = args.num("n", 100);
    let mut rng = Rng::new(args.num("seed", 1) ^ 0xC26_0000);
    let mut sink = Sink::create(&args.str("out", "c26-wide.ndjson"));
    let dec = |rng: &mut Rng| -> u8 {
        match rng.below(16) {
            0 => *rng.pick(&[21u8, 22, 100, 255]),
            _ => rng.below(21) as u8,
        }
    };
    for t in 0..n {
        let e = match t % 10 {
            0..=5 => {
                let (d, mut td, prec) = (dec(&mut rng), dec(&mut rng), dec(&mut rng));
                if td <= 20 && prec <= 20 && td + prec > 20 && rng.chance(3, 4) {
                    td = 20 - prec; // mostly legal pairs
                }
                let p = wide_price(&mut rng, d, prec);
                from_price(p, d, td, prec, true)
            }
            6 => {
                let dm = rng.below(21) as u8;
                let price = match rng.below(4) {
                    0 => (u32::MAX as u128).saturating_mul(pow10(dm as u32)).wrapping_add(rng.below(3) as u128).wrapping_sub(1),
                    1 => (rng.below(1 << 32) as u128) * pow10(dm as u32) + rng.below(2) as u128,
                    2 => u128::MAX - rng.below(2) as u128,
                    _ => rng.next128() >> rng.below(128),
                };
                with_unit(dm, price, rng.chance(1, 2))
            }
            7 => {
                let dm = rng.below(21) as u8;
                let value = match rng.below(3) { 0 => u32::MAX, 1 => rng.next() as u32, _ => rng.below(3) as u32 };
                to_unit(value, dm)
            }
            8 => {
                let k = rng.below(21) as u32;
                let max128 = U192::from(u128::MAX);
                let one = U192::from(1u64);
                let num = match rng.below(7) {
                    0 => max128.checked_mul(u192_pow10(k.min(19))).unwrap(),
                    1 => max128.checked_mul(u192_pow10(k.min(19))).unwrap() + one,
                    2 => max128.checked_mul(u192_pow10(k.min(19))).unwrap() - one,
                    3 => (max128 + one).checked_mul(u192_pow10(k.min(19))).map(|x| x - one).unwrap_or(U192::MAX),
                    4 => U192::MAX - U192::from(rng.below(2)),
                    5 => U192::from(rng.next128() >> rng.below(128)),
                    _ => U192::from_limbs([rng.next(), rng.next(), rng.next() >> rng.below(64)]),
                };
                let decimals = match rng.below(8) { 0 => 255u8, 1 => k as u8, 2 => (k as u8).saturating_sub(1), _ => rng.below(21) as u8 };
                to_u128(num, decimals)
            }
            _ => {
                let x: i32 = match rng.below(8) {
                    0 => *rng.pick(&[i32::MIN + 1, -256, -255, -21, 19, 20, i32::MAX]),
                    1 => rng.range(1, 19) as i32,
                    _ => -(rng.below(21) as i32),
                };
                let (mut td, prec) = (dec(&mut rng), dec(&mut rng));
                if td <= 20 && prec <= 20 && td + prec > 20 {
                    td = 20 - prec;
                }
                let value: u64 = match rng.below(6) {
                    0 => u64::MAX - rng.below(2),
                    1 => rng.below(3),
                    2 => 10u64.pow(rng.below(20) as u32),
                    3 => {
                        // near the u32 threshold of the result: v * 10^(x + prec) ~ 2^32
                        let s = x as i64 + prec as i64;
                        if (-19..=0).contains(&s) {
                            ((u32::MAX as u128 * pow10((-s) as u32)).min(u64::MAX as u128) as u64).wrapping_add(rng.below(3)).wrapping_sub(1)
                        } else {
                            u32::MAX as u64
                        }
                    }
                    _ => rng.next() >> rng.below(64),
                };
                pyth(value, x, td, prec)
            }
        };
        sink.emit(e.json(true));
    }
    println!("events {}", sink.finish());
    0
}

/// one pyth call with exponent i32::MIN (negation overflow), reported separately by the check
fn pyth_min(args: &Args) -> i32 {
    let mut sink = Sink::create(&args.str("out", "c26-pythmin.ndjson"));
    sink.emit(pyth(1, i32::MIN, 8, 4).json(true));
    println!("events {}", sink.finish());
    0
}

fn main() {
    h_model::util::quiet_panics();
    let (mode, args) = Args::from_env();
    let code = match mode.as_str() {
        "small" => small(&args),
        "random" => random(&args),
        "wide" => wide(&args),
        "pyth-min" => pyth_min(&args),
        _ => 2,
    };
    std::process::exit(code);
}
