//! C04 / C05 / C06: swap, deposit and withdrawal of crates/model on the harness-owned deterministic
//! market (`TestMarket<u64, D>`, D = 1 or 2).  The actions are the repository's generic code
//! (`SwapMarketMutExt::swap`, `LiquidityMarketMutExt::{deposit, withdraw}`); this driver only sets
//! the pools (state injection), calls them and logs one flat ndjson event per call with the full
//! projected state before and after (also on failure) — the format of specs/MarketProps.tla.
//!
//! modes:
//!   replay --in transitions.ndjson --cfgs cfgs.json [--dec 1|2] --out trace.ndjson
//!       every line of `--in` is a transition printed by TLC (MC_Market): {from, ci, pr, op, side, a, b};
//!       inject `from`, apply the operation, log.  A successful deposit that minted something is
//!       followed by the immediate withdrawal of exactly the minted amount at the same prices
//!       (event flag rt) on the same market.
//!   random --seed S --n N [--dec 1|2] --out trace.ndjson
//!       N runs: random configuration, random injected state (or the empty market), a short random
//!       sequence of operations, round trips after deposits.
use gmsol_model::{
    action::MarketAction,
    market::{LiquidityMarketExt, LiquidityMarketMutExt, PnlFactorKind, SwapMarketMutExt},
    params::{
        fee::{
            BorrowingFeeKinkModelParamsForOneSide, BorrowingFeeParams, FundingFeeParams,
            LiquidationFeeParams,
        },
        position::PositionImpactDistributionParams,
        FeeParams, PositionParams, PriceImpactParams,
    },
    price::{Price, Prices},
};
use h_model::util::{guarded, Args, Rng, Sink};
use h_model::vmarket::{MaxPnlFactors, TestMarket, TestMarketConfig, TestPool};
use serde_json::{json, Value};
use std::io::{BufRead, BufReader};

fn gi(v: &Value, k: &str) -> u64 {
    v.get(k).and_then(|x| x.as_u64()).unwrap_or_else(|| panic!("missing integer field {k} in {v}"))
}
fn gb(v: &Value, k: &str) -> bool {
    v.get(k).and_then(|x| x.as_bool()).unwrap_or_else(|| panic!("missing boolean field {k} in {v}"))
}
fn pool_of(v: &Value) -> TestPool<u64> {
    TestPool { long_amount: gi(v, "long"), short_amount: gi(v, "short") }
}
fn pool_json(p: &TestPool<u64>) -> Value {
    json!({"long": p.long_amount, "short": p.short_amount})
}

/// configuration record of Market.tla -> the market's config; everything the M1 actions do not
/// read is fixed (no position impact distribution, borrowing exponent one unit, kink model off)
fn mk_config<const D: u8>(c: &Value) -> TestMarketConfig<u64, D> {
    let unit = 10u64.pow(D as u32);
    TestMarketConfig {
        swap_impact_params: PriceImpactParams::builder()
            .exponent(gi(c, "impExp") * unit)
            .positive_factor(gi(c, "impPos"))
            .negative_factor(gi(c, "impNeg"))
            .build(),
        swap_fee_params: {
            let p = FeeParams::builder()
                .fee_receiver_factor(gi(c, "feeRecv"))
                .positive_impact_fee_factor(gi(c, "feePos"))
                .negative_impact_fee_factor(gi(c, "feeNeg"))
                .build();
            // feeDisc = -1: no discount factor configured
            match c.get("feeDisc").and_then(|x| x.as_i64()).unwrap_or(-1) {
                d if d >= 0 => p.with_discount_factor(d as u64),
                _ => p,
            }
        },
        position_params: PositionParams::new(unit, unit, unit / 10, unit / 2, unit / 2, unit / 4),
        position_impact_params: PriceImpactParams::builder()
            .exponent(unit)
            .positive_factor(1)
            .negative_factor(2)
            .build(),
        order_fee_params: FeeParams::builder()
            .fee_receiver_factor(unit / 2)
            .positive_impact_fee_factor(0)
            .negative_impact_fee_factor(0)
            .build(),
        position_impact_distribution_params: PositionImpactDistributionParams::builder()
            .distribute_factor(0)
            .min_position_impact_pool_amount(0)
            .build(),
        borrowing_fee_params: BorrowingFeeParams::builder()
            .receiver_factor(gi(c, "borrowRecv"))
            .factor_for_long(0)
            .factor_for_short(0)
            .exponent_for_long(unit)
            .exponent_for_short(unit)
            .skip_borrowing_fee_for_smaller_side(gb(c, "skipSmaller"))
            .build(),
        borrowing_fee_kink_model_params: BorrowingFeeKinkModelParamsForOneSide::builder()
            .optimal_usage_factor(0)
            .base_borrowing_factor(0)
            .above_optimal_usage_borrowing_factor(0)
            .build(),
        funding_fee_params: FundingFeeParams::builder()
            .exponent(unit)
            .funding_factor(0)
            .max_factor_per_second(0)
            .min_factor_per_second(0)
            .increase_factor_per_second(0)
            .decrease_factor_per_second(0)
            .threshold_for_stable_funding(0)
            .threshold_for_decrease_funding(0)
            .build(),
        reserve_factor: gi(c, "reserveFactor"),
        open_interest_reserve_factor: unit,
        max_pnl_factors: MaxPnlFactors {
            deposit: gi(c, "pnlDeposit"),
            withdrawal: gi(c, "pnlWithdrawal"),
            trader: unit / 2,
            adl: unit / 2,
        },
        min_pnl_factor_after_adl: 0,
        max_pool_amount: gi(c, "maxPool"),
        max_pool_value_for_deposit: gi(c, "maxPoolValue"),
        max_open_interest: u64::MAX / 4,
        min_collateral_factor_for_oi: 0,
        ignore_open_interest_for_usage_factor: false,
        liquidation_fee_params: LiquidationFeeParams::builder().factor(0).receiver_factor(0).build(),
    }
}

fn new_market<const D: u8>(c: &Value) -> TestMarket<u64, D> {
    TestMarket::new(gi(c, "div"), 10u64.pow(D as u32), mk_config::<D>(c))
}

/// State injection: set the public pool fields from a state record of Market.tla.  Open interest
/// (a total per position side in the specification) goes to the long-collateral slot.
fn inject<const D: u8>(m: &mut TestMarket<u64, D>, st: &Value) {
    m.primary = pool_of(&st["liq"]);
    m.swap_impact = pool_of(&st["imp"]);
    m.fee = pool_of(&st["fee"]);
    m.total_supply = gi(st, "supply");
    let z = TestPool::default();
    m.open_interest = (TestPool { long_amount: gi(&st["oi"], "long"), ..z }, TestPool { long_amount: gi(&st["oi"], "short"), ..z });
    m.open_interest_in_tokens =
        (TestPool { long_amount: gi(&st["oit"], "long"), ..z }, TestPool { long_amount: gi(&st["oit"], "short"), ..z });
    m.position_impact = TestPool { long_amount: gi(st, "pimp"), ..z };
    m.borrowing_factor = pool_of(&st["bcum"]);
    m.total_borrowing = pool_of(&st["tbor"]);
    m.vi_swaps = if gb(&st["vi"], "on") { Some(pool_of(&st["vi"])) } else { None };
}

/// Projection to the state record of Market.tla; `rest` is everything else the market holds (all
/// remaining pools, clocks, the second virtual inventory) so that "unchanged" covers every pool.
fn project<const D: u8>(m: &TestMarket<u64, D>) -> Value {
    let (vion, vi) = match &m.vi_swaps {
        Some(p) => (true, *p),
        None => (false, TestPool::default()),
    };
    let mut clocks: Vec<String> = m.clocks.iter().map(|(k, v)| format!("{k:?}={v}")).collect();
    clocks.sort();
    let p2 = |p: &TestPool<u64>| format!("{},{}", p.long_amount, p.short_amount);
    let pp = |p: &(TestPool<u64>, TestPool<u64>)| format!("{};{}", p2(&p.0), p2(&p.1));
    let rest = format!(
        "oi={} oit={} pimpS={} fps={} fa={} cfa={} coll={} vip={} now={} clocks={}",
        pp(&m.open_interest),
        pp(&m.open_interest_in_tokens),
        m.position_impact.short_amount,
        m.funding_factor_per_second,
        pp(&m.funding_amount_per_size),
        pp(&m.claimable_funding_amount_per_size),
        pp(&m.collateral_sum),
        m.vi_positions.as_ref().map(p2).unwrap_or_default(),
        m.now,
        clocks.join(",")
    );
    json!({
        "liq": pool_json(&m.primary), "imp": pool_json(&m.swap_impact), "fee": pool_json(&m.fee),
        "supply": m.total_supply,
        "oi": {"long": m.open_interest.0.long_amount + m.open_interest.0.short_amount,
               "short": m.open_interest.1.long_amount + m.open_interest.1.short_amount},
        "oit": {"long": m.open_interest_in_tokens.0.long_amount + m.open_interest_in_tokens.0.short_amount,
                "short": m.open_interest_in_tokens.1.long_amount + m.open_interest_in_tokens.1.short_amount},
        "pimp": m.position_impact.long_amount,
        "bcum": pool_json(&m.borrowing_factor), "tbor": pool_json(&m.total_borrowing),
        "vi": {"on": vion, "long": vi.long_amount, "short": vi.short_amount},
        "rest": rest,
    })
}

fn price_of(v: &Value) -> Price<u64> {
    Price { min: gi(v, "min"), max: gi(v, "max") }
}
fn prices_of(v: &Value) -> Prices<u64> {
    Prices {
        index_token_price: price_of(&v["idx"]),
        long_token_price: price_of(&v["long"]),
        short_token_price: price_of(&v["short"]),
    }
}

fn pv_json<const D: u8>(m: &TestMarket<u64, D>, pr: &Prices<u64>, withdraw: bool) -> Value {
    let r = guarded(|| {
        if withdraw {
            m.pool_value(pr, PnlFactorKind::MaxAfterWithdrawal, false)
        } else {
            m.pool_value(pr, PnlFactorKind::MaxAfterDeposit, true)
        }
    });
    match r {
        Ok(Ok(v)) => json!({"ok": true, "v": v}),
        _ => json!({"ok": false, "v": 0}),
    }
}

#[derive(Default)]
struct Outcome {
    ok: bool,
    panic: bool,
    out: u64,
    out2: u64,
    impact: i64,
    impact_amt: u64,
    fpl: u64,
    frl: u64,
    fps: u64,
    frs: u64,
}

/// One operation of the real code on the market; logs the event.
#[allow(clippy::too_many_arguments)]
fn apply<const D: u8>(
    sink: &mut Sink,
    m: &mut TestMarket<u64, D>,
    c: &Value,
    prv: &Value,
    op: &str,
    side: bool,
    a: u64,
    b: u64,
    reset: bool,
    rt: bool,
) -> Outcome {
    let pr = prices_of(prv);
    let withdraw = op == "withdraw";
    let pre = project(m);
    let pv_pre = pv_json(m, &pr, withdraw);
    let mut o = Outcome::default();
    let res = guarded(|| match op {
        "swap" => m.swap(side, a, pr).and_then(|s| s.execute()).map(|r| {
            let mut o = Outcome { ok: true, ..Default::default() };
            o.out = *r.token_out_amount();
            o.impact = *r.price_impact();
            o.impact_amt = *r.price_impact_amount();
            o.fpl = *r.token_in_fees().fee_amount_for_pool();
            o.frl = *r.token_in_fees().fee_amount_for_receiver();
            o
        }),
        "deposit" => m.deposit(a, b, pr).and_then(|d| d.execute()).map(|r| {
            let mut o = Outcome { ok: true, ..Default::default() };
            o.out = *r.minted();
            o.impact = *r.price_impact();
            o.fpl = *r.long_token_fees().fee_amount_for_pool();
            o.frl = *r.long_token_fees().fee_amount_for_receiver();
            o.fps = *r.short_token_fees().fee_amount_for_pool();
            o.frs = *r.short_token_fees().fee_amount_for_receiver();
            o
        }),
        "withdraw" => m.withdraw(a, pr).and_then(|w| w.execute()).map(|r| {
            let mut o = Outcome { ok: true, ..Default::default() };
            o.out = *r.long_token_output();
            o.out2 = *r.short_token_output();
            o.fpl = *r.long_token_fees().fee_amount_for_pool();
            o.frl = *r.long_token_fees().fee_amount_for_receiver();
            o.fps = *r.short_token_fees().fee_amount_for_pool();
            o.frs = *r.short_token_fees().fee_amount_for_receiver();
            o
        }),
        _ => panic!("unknown op {op}"),
    });
    match res {
        Ok(Ok(x)) => o = x,
        Ok(Err(_)) => {}
        Err(()) => o.panic = true,
    }
    let post = project(m);
    let pv_post = pv_json(m, &pr, withdraw);
    sink.emit(json!({
        "reset": reset, "rt": rt, "op": op, "side": side, "a": a, "b": b, "pr": prv, "c": c,
        "ok": o.ok, "panic": o.panic, "out": o.out, "out2": o.out2, "impact": o.impact,
        "impactAmt": o.impact_amt, "fpl": o.fpl, "frl": o.frl, "fps": o.fps, "frs": o.frs,
        "pre": pre, "post": post, "pvPre": pv_pre, "pvPost": pv_post,
    }));
    o
}

/// An operation and, after a deposit that minted something, the immediate full withdrawal of the
/// minted amount at the same prices (round trip) on a copy, so the run continues from the deposit.
#[allow(clippy::too_many_arguments)]
fn apply_with_round_trip<const D: u8>(
    sink: &mut Sink,
    m: &mut TestMarket<u64, D>,
    c: &Value,
    prv: &Value,
    op: &str,
    side: bool,
    a: u64,
    b: u64,
    reset: bool,
) {
    let before = m.clone();
    let o = apply(sink, m, c, prv, op, side, a, b, reset, false);
    if !o.ok {
        // deposit and withdrawal are not atomic in the model crate; the run continues from the state
        // before the failed call, as the on-chain revertible wrapper would (the partial state has
        // been logged and is compared with the specification's)
        *m = before;
    }
    if op == "deposit" && o.ok && o.out > 0 {
        let mut copy = m.clone();
        apply(sink, &mut copy, c, prv, "withdraw", false, o.out, 0, false, true);
    }
}

fn replay_d<const D: u8>(args: &Args) -> i32 {
    let cfgs: Vec<Value> =
        serde_json::from_reader(std::fs::File::open(args.str("cfgs", "cfgs.json")).expect("open cfgs")).expect("parse cfgs");
    let mut sink = Sink::create(&args.str("out", "c04-replay.ndjson"));
    let f = BufReader::new(std::fs::File::open(args.str("in", "transitions.ndjson")).expect("open transitions"));
    for line in f.lines() {
        let line = line.unwrap();
        if line.trim().is_empty() {
            continue;
        }
        let t: Value = serde_json::from_str(&line).expect("transition json");
        let c = &cfgs[gi(&t, "ci") as usize - 1];
        let mut m = new_market::<D>(c);
        inject(&mut m, &t["from"]);
        let op = t["op"].as_str().unwrap().to_string();
        apply_with_round_trip(&mut sink, &mut m, c, &t["pr"], &op, gb(&t, "side"), gi(&t, "a"), gi(&t, "b"), true);
    }
    println!("events {}", sink.finish());
    0
}

fn replay(args: &Args) -> i32 {
    if args.num("dec", 1) == 2 {
        replay_d::<2>(args)
    } else {
        replay_d::<1>(args)
    }
}

fn pj(min: u64, max: u64) -> Value {
    json!({"min": min, "max": max})
}

/// random price with a spread; `scale` = Unit / 10 so that D = 2 uses 100-based prices
fn rnd_price(rng: &mut Rng, scale: u64) -> Value {
    // D = 2 keeps prices lower so that every product of the trace validation fits 32 bits
    let base = if scale > 1 { *rng.pick(&[5u64, 9, 10, 10, 12]) } else { *rng.pick(&[5u64, 9, 10, 10, 12, 20, 24]) };
    let spread = *rng.pick(&[0u64, 0, 1, 2, 3]);
    pj(base * scale, (base + spread) * scale)
}

fn random_run<const D: u8>(rng: &mut Rng, sink: &mut Sink) {
    let unit = 10u64.pow(D as u32);
    let scale = unit / 10;
    let f = |rng: &mut Rng, xs: &[u64]| *rng.pick(xs) * scale;
    // fee factors up to 30 %, occasionally absurd (> 100 %) to exercise the failure paths
    let fee_pos = if rng.chance(1, 25) { 12 * scale } else { f(rng, &[0, 0, 1, 1, 2, 3]) };
    let fee_neg = if rng.chance(1, 25) { 11 * scale } else { f(rng, &[0, 0, 1, 2, 2, 3]) };
    let zero_all = rng.chance(1, 6);
    let c = json!({
        "feePos": if zero_all { 0 } else { fee_pos }, "feeNeg": if zero_all { 0 } else { fee_neg },
        "feeRecv": f(rng, &[0, 3, 5, 5, 10]),
        "feeDisc": match rng.below(6) { 0 => 0i64, 1 => 3 * scale as i64, 2 => 10 * scale as i64, 3 => 5 * scale as i64, _ => -1 },
        "impPos": if zero_all { 0 } else { f(rng, &[0, 1, 1, 2, 3, 5]) },
        "impNeg": if zero_all { 0 } else { f(rng, &[0, 1, 2, 2, 4, 5]) },
        "impExp": *rng.pick(&[0u64, 1, 1, 2, 2]),
        "div": *rng.pick(&[1u64, 1, 1, 2, 3, 10]),
        "maxPool": *rng.pick(&[40u64, 80, 150, 150]),
        "maxPoolValue": *rng.pick(&[600u64, 2000, 4000, 4000]) * scale,
        "reserveFactor": f(rng, &[3, 8, 10, 10]),
        "pnlDeposit": f(rng, &[2, 6, 6, 9]), "pnlWithdrawal": f(rng, &[1, 3, 3, 6]),
        "borrowRecv": f(rng, &[0, 4, 4, 10]),
        "skipSmaller": rng.chance(3, 4),
    });
    let mut m = new_market::<D>(&c);
    // initial state: empty, or injected pools; with positions / virtual inventory now and then
    let kind = rng.below(10);
    if kind >= 3 {
        let amt = |rng: &mut Rng, hi: u64| rng.below(hi + 1);
        let with_pos = kind >= 7;
        // open positions are always backed by some liquidity of their side (reserve validation of
        // every operation that removes liquidity)
        let lo = if with_pos { 5 } else { 0 };
        let hi = if D == 1 { 60 } else { 30 };
        let liq = (lo + amt(rng, hi - lo), lo + amt(rng, hi - lo));
        let imp_hi = *rng.pick(&[0u64, 1, 3, 8]);
        let supply = if rng.chance(1, 12) { 0 } else { (liq.0 + liq.1) * 10 * scale / gi(&c, "div") + rng.below(40) };
        let oi_hi = if D == 1 { 25 } else { 12 };
        let oi_l = if with_pos { rng.below(oi_hi) * 10 * scale } else { 0 };
        let oi_s = if with_pos { rng.below(oi_hi) * 10 * scale } else { 0 };
        let oit_l = if oi_l > 0 { (oi_l / (10 * scale)).saturating_sub(rng.below(3)) + rng.below(3) } else { 0 };
        let oit_s = if oi_s > 0 { (oi_s / (10 * scale)).saturating_sub(rng.below(3)) + rng.below(3) } else { 0 };
        let bc = (unit + rng.below(unit / 2 + 1), unit + rng.below(unit / 2 + 1));
        let tb = (oi_l * bc.0 / unit, oi_s * bc.1 / unit);
        let st = json!({
            "liq": {"long": liq.0, "short": liq.1},
            "imp": {"long": amt(rng, imp_hi), "short": amt(rng, imp_hi)},
            "fee": {"long": amt(rng, 5), "short": amt(rng, 5)},
            "supply": supply,
            "oi": {"long": oi_l, "short": oi_s}, "oit": {"long": oit_l, "short": oit_s},
            "pimp": if with_pos { rng.below(6) } else { 0 },
            "bcum": {"long": if with_pos { bc.0 } else { 0 }, "short": if with_pos { bc.1 } else { 0 }},
            "tbor": {"long": if with_pos { tb.0.saturating_sub(rng.below(3) * 10 * scale) } else { 0 },
                     "short": if with_pos { tb.1.saturating_sub(rng.below(3) * 10 * scale) } else { 0 }},
            "vi": {"on": rng.chance(1, 5), "long": amt(rng, 90), "short": amt(rng, 90)},
        });
        inject(&mut m, &st);
    }
    let long_p = rnd_price(rng, scale);
    let short_p = rnd_price(rng, scale);
    let idx_p = if rng.chance(2, 3) { long_p.clone() } else { rnd_price(rng, scale) };
    let mut prv = json!({"idx": idx_p, "long": long_p, "short": short_p});
    let steps = 3 + rng.below(5);
    for s in 0..steps {
        if rng.chance(1, 5) {
            // prices move between operations
            let lp = rnd_price(rng, scale);
            prv = json!({"idx": if rng.chance(2, 3) { lp.clone() } else { rnd_price(rng, scale) }, "long": lp, "short": rnd_price(rng, scale)});
        }
        let amount = |rng: &mut Rng| {
            if D == 1 { *rng.pick(&[0u64, 1, 1, 2, 3, 5, 8, 10, 13, 20, 25, 33, 40]) } else { *rng.pick(&[0u64, 1, 1, 2, 3, 5, 8, 10, 13, 20]) }
        };
        // keep every pool small enough for 32-bit products in the trace validation
        let (pool_max, supply_max) = if D == 1 { (160, 30_000) } else { (45, 15_000) };
        if m.primary.long_amount > pool_max || m.primary.short_amount > pool_max || m.total_supply > supply_max {
            break;
        }
        match rng.below(10) {
            0..=3 => {
                let side = rng.chance(1, 2);
                apply_with_round_trip(sink, &mut m, &c, &prv, "swap", side, amount(rng), 0, s == 0);
            }
            4..=7 => {
                let (a, b) = match rng.below(3) {
                    0 => (amount(rng), 0),
                    1 => (0, amount(rng)),
                    _ => (amount(rng), amount(rng)),
                };
                apply_with_round_trip(sink, &mut m, &c, &prv, "deposit", false, a, b, s == 0);
            }
            _ => {
                let sup = m.total_supply;
                let a = match rng.below(5) {
                    0 => sup,
                    1 => sup / 2,
                    2 => sup + 1,
                    _ => rng.below(sup.min(400) + 2),
                };
                apply_with_round_trip(sink, &mut m, &c, &prv, "withdraw", false, a, 0, s == 0);
            }
        }
    }
}

fn random(args: &Args) -> i32 {
    let n = args.num("n", 1000);
    let dec = args.num("dec", 1);
    let mut rng = Rng::new(args.num("seed", 1) ^ (dec << 40));
    let mut sink = Sink::create(&args.str("out", "c04-random.ndjson"));
    for _ in 0..n {
        if dec == 2 {
            random_run::<2>(&mut rng, &mut sink);
        } else {
            random_run::<1>(&mut rng, &mut sink);
        }
    }
    println!("events {}", sink.finish());
    0
}

fn main() {
    h_model::util::quiet_panics();
    let (mode, args) = Args::from_env();
    let code = match mode.as_str() {
        "replay" => replay(&args),
        "random" => random(&args),
        _ => 2,
    };
    std::process::exit(code);
}
