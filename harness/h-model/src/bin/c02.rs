//! C02: fee splitting (crates/model/src/params/fee.rs).
//!   apply_fees  FeeParams::apply_fees / fee / receiver_fee (swap, deposit, withdrawal fees)
//!   order_fees  FeeParams::order_fees + base_position_fees, reached through the public
//!               PositionExt::position_fees on the harness market (fresh position: no borrowing /
//!               funding fees pending)
//!   liq_fees    the same with is_liquidation = true: LiquidationFeeParams::fee and the
//!               PositionFees aggregates
//! modes: small (the finite domain of specs/MC_Fees), random (seeded), replay --in
#[path = "../shared/smallcfg.rs"]
mod smallcfg;

use gmsol_model::fixed::FixedPointOps;
use gmsol_model::params::fee::LiquidationFeeParams;
use gmsol_model::params::FeeParams;
use gmsol_model::pool::delta::BalanceChange;
use gmsol_model::price::Price;
use gmsol_model::PositionExt;
use h_model::util::{guarded, Args, Rng, Sink};
use h_model::vmarket::TestPosition;
use serde_json::{json, Value};
use smallcfg::{parse_set, small_config, small_market};

#[derive(Clone, Copy, Debug)]
struct Call {
    op: &'static str,
    amt: u64,
    pmin: u64,
    pmax: u64,
    pf: u64,
    nf: u64,
    rf: u64,
    disc: i64, // -1 = no discount configured
    change: i64, // 1 improved, 0 unchanged, -1 worsened
    lf: u64,
    lrf: u64,
}

fn change_of(c: i64) -> BalanceChange {
    match c {
        1 => BalanceChange::Improved,
        0 => BalanceChange::Unchanged,
        _ => BalanceChange::Worsened,
    }
}

fn params(c: &Call, with_discount: bool) -> FeeParams<u64> {
    let p = FeeParams::builder()
        .fee_receiver_factor(c.rf)
        .positive_impact_fee_factor(c.pf)
        .negative_impact_fee_factor(c.nf)
        .build();
    if with_discount && c.disc >= 0 {
        p.with_discount_factor(c.disc as u64)
    } else {
        p
    }
}

#[derive(Default, Clone, Copy)]
struct PosOut {
    pool: u64,
    recv: u64,
    value: u64,
    lvalue: u64,
    lamount: u64,
    lrecv: u64,
    lpool: Option<u64>,
    agg: Option<(u64, u64, u64)>,
}

/// position_fees on a fresh position of the harness market configured with the call's parameters
fn position_fees<const D: u8>(c: &Call, with_discount: bool) -> Option<PosOut>
where
    u64: FixedPointOps<D>,
{
    let mut cfg = small_config::<D>();
    cfg.order_fee_params = params(c, with_discount);
    cfg.liquidation_fee_params = LiquidationFeeParams::builder().factor(c.lf).receiver_factor(c.lrf).build();
    let mut market = small_market(cfg);
    let mut pos = TestPosition::<u64, D>::long(true);
    let ops = pos.ops(&mut market);
    let price = Price { min: c.pmin, max: c.pmax };
    let fees = ops.position_fees(&price, &c.amt, change_of(c.change), c.op == "liq_fees").ok()?;
    let o = fees.order_fees();
    let mut out = PosOut {
        pool: *o.fee_amounts().fee_amount_for_pool(),
        recv: *o.fee_amounts().fee_amount_for_receiver(),
        value: *o.fee_value(),
        ..Default::default()
    };
    let mut lpool = Some(0);
    if let Some(l) = fees.liquidation_fees() {
        out.lvalue = *l.fee_value();
        out.lamount = *l.fee_amount();
        out.lrecv = *l.fee_amount_for_receiver();
        lpool = l.fee_amount_for_pool().ok();
    }
    out.lpool = lpool;
    out.agg = match (fees.for_pool::<D>(), fees.for_receiver(), fees.total_cost_excluding_funding()) {
        (Ok(a), Ok(b), Ok(t)) => Some((a, b, t)),
        _ => None,
    };
    Some(out)
}

fn run_call<const D: u8>(sink: &mut Sink, c: &Call)
where
    u64: FixedPointOps<D>,
{
    let mut ev = serde_json::Map::new();
    let mut put = |k: &str, v: Value| {
        ev.insert(k.to_string(), v);
    };
    put("op", json!(c.op));
    put("amt", json!(c.amt));
    put("pmin", json!(c.pmin));
    put("pmax", json!(c.pmax));
    put("pf", json!(c.pf));
    put("nf", json!(c.nf));
    put("rf", json!(c.rf));
    put("disc", json!(c.disc));
    put("change", json!(c.change));
    put("lf", json!(c.lf));
    put("lrf", json!(c.lrf));
    let mut panic = false;
    let mut g = |r: Result<Option<u64>, ()>| match r {
        Ok(x) => x,
        Err(()) => {
            panic = true;
            None
        }
    };
    let fee = g(guarded(|| params(c, true).fee::<D>(change_of(c.change), &c.amt)));
    let fee0 = g(guarded(|| params(c, false).fee::<D>(change_of(c.change), &c.amt)));
    put("fee_ok", json!(fee.is_some()));
    put("fee", json!(fee.unwrap_or(0)));
    put("fee0_ok", json!(fee0.is_some()));
    put("fee0", json!(fee0.unwrap_or(0)));
    let zero_liq = |put: &mut dyn FnMut(&str, Value)| {
        for k in ["lvalue", "lamount", "lrecv", "lpool", "for_pool", "for_recv", "total"] {
            put(k, json!(0));
        }
        for k in ["lok", "lpool_ok", "agg_ok"] {
            put(k, json!(false));
        }
    };
    if c.op == "apply_fees" {
        let apply = |d: bool| {
            guarded(|| {
                params(c, d).apply_fees::<D>(change_of(c.change), &c.amt).map(|(net, f)| {
                    (net, *f.fee_amount_for_pool(), *f.fee_amount_for_receiver())
                })
            })
        };
        let (r, r0) = (apply(true), apply(false));
        if r.is_err() || r0.is_err() {
            panic = true;
        }
        let r = r.unwrap_or(None);
        let r0 = r0.unwrap_or(None);
        let (net, pool, recv) = r.unwrap_or((0, 0, 0));
        put("ok", json!(r.is_some()));
        put("net", json!(net));
        put("pool", json!(pool));
        put("recv", json!(recv));
        put("value", json!(0));
        put("ok0", json!(r0.is_some()));
        put("tot0", json!(r0.map(|x| x.1 + x.2).unwrap_or(0)));
        zero_liq(&mut put);
    } else {
        let r = guarded(|| position_fees::<D>(c, true));
        let r0 = guarded(|| position_fees::<D>(c, false));
        if r.is_err() || r0.is_err() {
            panic = true;
        }
        let r = r.unwrap_or(None);
        let r0 = r0.unwrap_or(None);
        let o = r.unwrap_or_default();
        put("ok", json!(r.is_some()));
        put("net", json!(0));
        put("pool", json!(o.pool));
        put("recv", json!(o.recv));
        put("value", json!(o.value));
        put("ok0", json!(r0.is_some()));
        put("tot0", json!(r0.map(|x| x.value).unwrap_or(0)));
        put("lok", json!(r.is_some()));
        put("lvalue", json!(o.lvalue));
        put("lamount", json!(o.lamount));
        put("lrecv", json!(o.lrecv));
        let both = r.is_some() && o.lpool.is_some() && o.agg.is_some();
        put("lpool_ok", json!(both));
        put("lpool", json!(if both { o.lpool.unwrap() } else { 0 }));
        put("agg_ok", json!(both));
        let (a, b, t) = if both { o.agg.unwrap() } else { (0, 0, 0) };
        put("for_pool", json!(a));
        put("for_recv", json!(b));
        put("total", json!(t));
    }
    put("panic", json!(panic));
    sink.emit(Value::Object(ev));
}

fn u(v: &[i64]) -> Vec<u64> {
    v.iter().map(|x| *x as u64).collect()
}

fn prices(s: &str) -> Vec<(u64, u64)> {
    s.split(',')
        .filter(|p| !p.is_empty())
        .map(|p| {
            let (a, b) = p.split_once('/').expect("pmin/pmax");
            (a.parse().unwrap(), b.parse().unwrap())
        })
        .collect()
}

/// f is the factor selected by the change, g the other one
fn pf_nf(change: i64, f: u64, g: u64) -> (u64, u64) {
    if change == 1 { (f, g) } else { (g, f) }
}

fn small(args: &Args) -> i32 {
    let amts = u(&parse_set(&args.str("amts", "0..40")));
    let fs = u(&parse_set(&args.str("fs", "0,1,3,5,9,10,11,15")));
    let gs = u(&parse_set(&args.str("gs", "2,12")));
    let rfs = u(&parse_set(&args.str("rfs", "0,1,3,5,9,10,11,15")));
    let discs = parse_set(&args.str("discs", "-1,0,1,3,5,9,10,11,15,20,21,30"));
    let ofs = u(&parse_set(&args.str("ofs", "0,1,5,10,11,15")));
    let orfs = u(&parse_set(&args.str("orfs", "0,4,10,15")));
    let odiscs = parse_set(&args.str("odiscs", "-1,0,5,10,15,21,30"));
    let prs = prices(&args.str("prices", "1/1,2/3,3/3,0/1"));
    let lfs = u(&parse_set(&args.str("lfs", "0,1,3,5,9,10,11,15")));
    let lrfs = u(&parse_set(&args.str("lrfs", "0,1,3,5,9,10,11,15")));
    let mut sink = Sink::create(&args.str("out", "c02-small.ndjson"));
    for &amt in &amts {
        for change in [-1i64, 0, 1] {
            for &f in &fs {
                for &g in &gs {
                    for &rf in &rfs {
                        for &disc in &discs {
                            let (pf, nf) = pf_nf(change, f, g);
                            let c = Call { op: "apply_fees", amt, pmin: 1, pmax: 1, pf, nf, rf, disc, change, lf: 0, lrf: 0 };
                            run_call::<1>(&mut sink, &c);
                        }
                    }
                }
            }
            for &(pmin, pmax) in &prs {
                for &f in &ofs {
                    for &g in &gs {
                        for &rf in &orfs {
                            for &disc in &odiscs {
                                let (pf, nf) = pf_nf(change, f, g);
                                let c = Call { op: "order_fees", amt, pmin, pmax, pf, nf, rf, disc, change, lf: 0, lrf: 0 };
                                run_call::<1>(&mut sink, &c);
                            }
                        }
                    }
                }
            }
        }
        for &(pmin, pmax) in &prs {
            for &lf in &lfs {
                for &lrf in &lrfs {
                    for f in [1u64, 11] {
                        for disc in [-1i64, 5] {
                            let c = Call { op: "liq_fees", amt, pmin, pmax, pf: 2, nf: f, rf: 4, disc, change: -1, lf, lrf };
                            run_call::<1>(&mut sink, &c);
                        }
                    }
                }
            }
        }
    }
    println!("events {}", sink.finish());
    0
}

fn random_d<const D: u8>(args: &Args) -> i32
where
    u64: FixedPointOps<D>,
{
    let n = args.num("n", 3000);
    let mut rng = Rng::new(args.num("seed", 1));
    let unit = <u64 as FixedPointOps<D>>::UNIT;
    let max_amt = args.num("max", 60) * (unit / 10);
    let mut sink = Sink::create(&args.str("out", "c02-random.ndjson"));
    // a factor: mostly valid (<= 100%), sometimes exactly 100%, sometimes above
    let mut factor = |rng: &mut Rng| -> u64 {
        match rng.below(8) {
            0 => 0,
            1 => unit,
            2 => unit + 1 + rng.below(unit),
            _ => rng.below(unit + 1),
        }
    };
    for _ in 0..n {
        let op = *rng.pick(&["apply_fees", "apply_fees", "order_fees", "liq_fees"]);
        let (pmin, pmax) = if op == "apply_fees" {
            (1, 1)
        } else if rng.chance(1, 20) {
            (0, 1)
        } else {
            let a = 1 + rng.below(3);
            (a, a + rng.below(2))
        };
        let c = Call {
            op,
            amt: rng.below(max_amt + 1),
            pmin,
            pmax,
            pf: factor(&mut rng),
            nf: factor(&mut rng),
            rf: factor(&mut rng),
            disc: if rng.chance(1, 4) { -1 } else if rng.chance(1, 6) { (factor(&mut rng) * 3) as i64 } else { factor(&mut rng) as i64 },
            change: rng.range(-1, 1),
            lf: if op == "liq_fees" { factor(&mut rng) } else { 0 },
            lrf: if op == "liq_fees" { factor(&mut rng) } else { 0 },
        };
        run_call::<D>(&mut sink, &c);
    }
    println!("events {}", sink.finish());
    0
}

fn replay(args: &Args) -> i32 {
    let text = std::fs::read_to_string(args.str("in", "replay.ndjson")).expect("read replay input");
    let mut sink = Sink::create(&args.str("out", "c02-replay.ndjson"));
    for line in text.lines().filter(|l| !l.trim().is_empty()) {
        let e: Value = serde_json::from_str(line).expect("json");
        let g = |k: &str| e[k].as_u64().unwrap_or(0);
        let op = match e["op"].as_str().unwrap_or("") {
            "order_fees" => "order_fees",
            "liq_fees" => "liq_fees",
            _ => "apply_fees",
        };
        let c = Call {
            op,
            amt: g("amt"),
            pmin: g("pmin"),
            pmax: g("pmax"),
            pf: g("pf"),
            nf: g("nf"),
            rf: g("rf"),
            disc: e["disc"].as_i64().unwrap_or(-1),
            change: e["change"].as_i64().unwrap_or(0),
            lf: g("lf"),
            lrf: g("lrf"),
        };
        run_call::<1>(&mut sink, &c);
    }
    println!("events {}", sink.finish());
    0
}

fn main() {
    h_model::util::quiet_panics();
    let (mode, args) = Args::from_env();
    let code = match mode.as_str() {
        "small" => small(&args),
        "replay" => replay(&args),
        "random" => match args.num("decimals", 1) {
            1 => random_d::<1>(&args),
            2 => random_d::<2>(&args),
            _ => 2,
        },
        _ => 2,
    };
    std::process::exit(code);
}
