//! Shared by the c02 / c03 / c14 drivers (included with `#[path]`, not part of the library):
//! a small-number market configuration for `TestMarket<u64, D>` and CLI set parsing.
#![allow(dead_code)]
use gmsol_model::fixed::FixedPointOps;
use gmsol_model::params::{
    fee::{BorrowingFeeKinkModelParamsForOneSide, BorrowingFeeParams, FundingFeeParams, LiquidationFeeParams},
    position::PositionImpactDistributionParams,
    FeeParams, PositionParams, PriceImpactParams,
};
use h_model::vmarket::{MaxPnlFactors, TestMarket, TestMarketConfig};

/// Everything neutral / permissive; each driver overwrites the parameters it studies.
pub fn small_config<const D: u8>() -> TestMarketConfig<u64, D>
where
    u64: FixedPointOps<D>,
{
    let unit = <u64 as FixedPointOps<D>>::UNIT;
    TestMarketConfig {
        swap_impact_params: PriceImpactParams::builder().exponent(2 * unit).positive_factor(1).negative_factor(2).build(),
        swap_fee_params: FeeParams::builder()
            .fee_receiver_factor(unit / 2)
            .positive_impact_fee_factor(1)
            .negative_impact_fee_factor(2)
            .build(),
        position_params: PositionParams::new(unit, unit, 1, unit / 2, unit / 2, unit / 4),
        position_impact_params: PriceImpactParams::builder().exponent(2 * unit).positive_factor(1).negative_factor(2).build(),
        order_fee_params: FeeParams::builder()
            .fee_receiver_factor(unit / 2)
            .positive_impact_fee_factor(1)
            .negative_impact_fee_factor(2)
            .build(),
        position_impact_distribution_params: PositionImpactDistributionParams::builder()
            .distribute_factor(0)
            .min_position_impact_pool_amount(0)
            .build(),
        borrowing_fee_params: BorrowingFeeParams::builder()
            .receiver_factor(unit / 2)
            .factor_for_long(0)
            .factor_for_short(0)
            .exponent_for_long(unit)
            .exponent_for_short(unit)
            .build(),
        borrowing_fee_kink_model_params: BorrowingFeeKinkModelParamsForOneSide::builder()
            .optimal_usage_factor(0)
            .base_borrowing_factor(0)
            .above_optimal_usage_borrowing_factor(0)
            .build(),
        funding_fee_params: FundingFeeParams::builder()
            .exponent(unit)
            .funding_factor(0)
            .max_factor_per_second(0)
            .min_factor_per_second(0)
            .increase_factor_per_second(0)
            .decrease_factor_per_second(0)
            .threshold_for_stable_funding(0)
            .threshold_for_decrease_funding(0)
            .build(),
        reserve_factor: unit,
        open_interest_reserve_factor: unit,
        max_pnl_factors: MaxPnlFactors { deposit: unit, withdrawal: unit, trader: unit, adl: unit },
        min_pnl_factor_after_adl: 0,
        max_pool_amount: 1_000_000_000,
        max_pool_value_for_deposit: 1_000_000_000,
        max_open_interest: 1_000_000_000,
        min_collateral_factor_for_oi: 0,
        ignore_open_interest_for_usage_factor: false,
        liquidation_fee_params: LiquidationFeeParams::builder().factor(0).receiver_factor(0).build(),
    }
}

pub fn small_market<const D: u8>(config: TestMarketConfig<u64, D>) -> TestMarket<u64, D>
where
    u64: FixedPointOps<D>,
{
    TestMarket::<u64, D>::new(1, 1, config)
}

/// "0..40", "0..40:5" (step), "0,1,4,9" or a mix separated by commas; negative numbers allowed.
pub fn parse_set(s: &str) -> Vec<i64> {
    let mut out = Vec::new();
    for part in s.split(',') {
        let part = part.trim();
        if part.is_empty() {
            continue;
        }
        if let Some((range, step)) = part.split_once(':').or(Some((part, "1"))) {
            if let Some((a, b)) = range.split_once("..") {
                let (a, b, st): (i64, i64, i64) = (a.parse().unwrap(), b.parse().unwrap(), step.parse().unwrap());
                let mut x = a;
                while x <= b {
                    out.push(x);
                    x += st;
                }
            } else {
                out.push(range.parse().unwrap());
            }
        }
    }
    out
}
