//! C36: timelocked instruction buffers, bound to the REAL timelock program: every create / approve /
//! cancel / execute / increase_delay is an instruction executed by `gmsol_timelock::entry` on in-memory
//! accounts.  CPIs:
//!   * store `check_role` (access control)  -> executed by the REAL `gmsol_store::entry` on the same
//!     in-memory Store account (whose role table is also what `execute_instruction` reads directly);
//!   * system `create_account` (Anchor `init` of the buffer) -> emulated (allocate, assign, lamports);
//!   * the buffered instruction itself -> recorded ("probe"): program id, metas with flags, data.
//! Role changes (grant / revoke of TIMELOCKED_<role>) are the store's own `Store::{grant, revoke}`
//! applied to the Store account; the clock is the syscall stub.
//!
//! modes:
//!   replay --in paths.ndjson --out trace.ndjson [--probe 1]   paths printed by MC_Timelock (one per
//!          distinct state); with --probe every buffer operation of the model is also tried in every state;
//!          --variant v executes the model's shape classes 1..3 as the concrete shapes 10 v + class
//!   random --seed S --n N --len L --out trace.ndjson
//!   delays --out trace.ndjson      scripted histories with large delays (30 / 90 days .. u32::MAX)
use anchor_lang::{
    prelude::Pubkey,
    solana_program::{instruction::Instruction, program_error::ProgramError, system_program},
    Discriminator, InstructionData,
};
use gmsol_store::states::{Seed, Store, MAX_ROLE_NAME_LEN};
use gmsol_store::utils::fixed_str::fixed_str_to_bytes;
use gmsol_timelock::states::{config::TimelockConfig, find_executor_wallet_pda, Executor, InstructionHeader};
use h_aux::rt::{self, Acct};
use h_aux::util::{guarded, Args, Rng, Sink};
use serde_json::{json, Value};
use std::collections::HashMap;

const ROLE: &str = "MARKET_KEEPER";
const T0: i64 = 10;

fn tld_role() -> String {
    gmsol_timelock::roles::timelocked_role(ROLE)
}

fn zc<T: bytemuck::Pod + Discriminator>(x: &T) -> Vec<u8> {
    let mut d = T::DISCRIMINATOR.to_vec();
    d.extend_from_slice(bytemuck::bytes_of(x));
    d
}
fn aligned<T: bytemuck::Pod>(data: &[u8]) -> Box<T> {
    let mut b = rt::zeroed_box::<T>();
    bytemuck::bytes_of_mut(&mut *b).copy_from_slice(&data[8..8 + std::mem::size_of::<T>()]);
    b
}

#[derive(Clone, Copy, PartialEq, Debug)]
enum Ghost {
    None,
    Live,
    Executed,
    Cancelled,
}

#[derive(Clone)]
struct Snap {
    store: Vec<u8>,
    config: Vec<u8>,
    bufs: Vec<(Pubkey, u64, Vec<u8>)>,
    ghost: Vec<(Ghost, u8)>,
    now: i64,
    keeper_lamports: u64,
}

struct World {
    store: Acct,
    config: Acct,
    executor: Acct,
    wallet: Acct,
    keeper: Acct,
    admin: Acct,
    approvers: Vec<Acct>,
    bufs: Vec<Acct>,
    store_prog: Acct,
    system_prog: Acct,
    probe_prog: Acct,
    x: Acct,
    y: Acct,
    ghost: Vec<(Ghost, u8)>,
    now: i64,
    names: HashMap<Pubkey, String>,
    /// delays beyond 2^31 - 1: logged as decimal strings
    big: bool,
}

/// the instruction shapes: id = 10 * variant + class (class 1: the wallet signs, 2: nobody signs,
/// 3: another account is flagged signer and the buffer must be refused) -> (metas as (account, signer,
/// writable), data).  The variants cover all four (signer, writable) combinations on the wallet and the
/// (non-signer) combinations on other accounts, the wallet listed several times with different flags,
/// no accounts at all and empty data.
fn shape(w: &World, sh: u8) -> (Vec<(Pubkey, bool, bool)>, Vec<u8>) {
    let (wk, xk, yk) = (w.wallet.key(), w.x.key(), w.y.key());
    match sh {
        1 => (vec![(wk, true, true), (xk, false, false), (yk, false, true)], vec![7, 1, 255]),
        2 => (vec![(xk, false, false), (wk, false, true), (yk, false, false)], vec![]),
        3 => (vec![(wk, true, false), (xk, true, true)], vec![9]),
        11 => (vec![(wk, true, false), (xk, false, true)], vec![1]), // read-only signer
        12 => (vec![(wk, false, false), (yk, false, false)], vec![0]),
        13 => (vec![(yk, true, false)], vec![3]),
        21 => (vec![(wk, true, false), (wk, false, true), (wk, true, true), (xk, false, false)], vec![2, 2]),
        22 => (vec![], vec![5]),
        23 => (vec![(wk, true, true), (yk, true, true)], vec![]),
        31 => (vec![(xk, false, true), (wk, true, false), (yk, false, false), (wk, true, false)], vec![]),
        32 => (vec![], vec![]),
        33 => (vec![(xk, true, false), (wk, false, false)], vec![4]),
        _ => panic!("unknown shape {sh}"),
    }
}

impl World {
    fn new(nb: usize, na: usize, delay: u32) -> World {
        let tid = gmsol_timelock::ID;
        let sid = gmsol_store::ID;
        let store_k = rt::key(0x02, 1);
        let keeper_k = rt::key(0x31, 1);
        let admin_k = rt::key(0x32, 1);
        let mut names = HashMap::new();
        // the store with its real role table
        let mut store = rt::zeroed_box::<Store>();
        for r in [gmsol_timelock::roles::TIMELOCK_ADMIN, gmsol_timelock::roles::TIMELOCK_KEEPER, &tld_role()] {
            store.enable_role(r).expect("enable role");
        }
        store.grant(&admin_k, gmsol_timelock::roles::TIMELOCK_ADMIN).expect("grant");
        store.grant(&keeper_k, gmsol_timelock::roles::TIMELOCK_KEEPER).expect("grant");
        let mut approvers = vec![];
        for i in 1..=na {
            let k = rt::key(0x40, i as u32);
            store.grant(&k, &tld_role()).expect("grant");
            approvers.push(Acct::new(k, system_program::ID, 1_000_000, &[]));
        }
        let store_a = Acct::new(store_k, sid, 1_000_000, &zc(&*store));
        // executor PDA and its wallet
        let role_bytes = fixed_str_to_bytes::<MAX_ROLE_NAME_LEN>(ROLE).unwrap();
        let (exec_k, exec_bump) = Pubkey::find_program_address(&[Executor::SEED, store_k.as_ref(), &role_bytes], &tid);
        let (wallet_k, wallet_bump) = find_executor_wallet_pda(&exec_k, &tid);
        let mut ex = zc(&*rt::zeroed_box::<Executor>());
        ex[8 + 1] = exec_bump;
        ex[8 + 2] = wallet_bump;
        ex[8 + 16..8 + 48].copy_from_slice(store_k.as_ref());
        ex[8 + 48..8 + 48 + MAX_ROLE_NAME_LEN].copy_from_slice(&role_bytes);
        assert_eq!(aligned::<Executor>(&ex).role_name().unwrap(), ROLE, "Executor layout changed");
        let mut cfg = zc(&*rt::zeroed_box::<TimelockConfig>());
        cfg[8 + 8..8 + 12].copy_from_slice(&delay.to_le_bytes());
        cfg[8 + 16..8 + 48].copy_from_slice(store_k.as_ref());
        assert_eq!(aligned::<TimelockConfig>(&cfg).delay(), delay, "TimelockConfig layout changed");
        let bufs: Vec<Acct> = (1..=nb).map(|i| Acct::new(rt::key(0x50, i as u32), system_program::ID, 0, &[])).collect();
        let x = Acct::new(rt::key(0x61, 1), system_program::ID, 5, &[]);
        let y = Acct::new(rt::key(0x62, 1), system_program::ID, 5, &[]);
        let probe = rt::key(0x6F, 1);
        names.insert(wallet_k, "W".to_string());
        names.insert(x.key(), "X".to_string());
        names.insert(y.key(), "Y".to_string());
        names.insert(probe, "P".to_string());
        rt::set_now(T0);
        World {
            store: store_a,
            config: Acct::new(rt::key(0x33, 1), tid, 1_000_000, &cfg),
            executor: Acct::new(exec_k, tid, 1_000_000, &ex),
            wallet: Acct::new(wallet_k, system_program::ID, 1_000_000, &[]),
            keeper: Acct::new(keeper_k, system_program::ID, 1_000_000_000, &[]),
            admin: Acct::new(admin_k, system_program::ID, 1_000_000, &[]),
            approvers,
            bufs,
            store_prog: Acct::program(sid),
            system_prog: Acct::program(system_program::ID),
            probe_prog: Acct::program(probe),
            x,
            y,
            ghost: vec![(Ghost::None, 0); nb],
            now: T0,
            names,
            big: false,
        }
    }

    fn snapshot(&self) -> Snap {
        Snap {
            store: self.store.data(),
            config: self.config.data(),
            bufs: self.bufs.iter().map(|b| (b.owner(), b.lamports(), b.data())).collect(),
            ghost: self.ghost.clone(),
            now: self.now,
            keeper_lamports: self.keeper.lamports(),
        }
    }
    fn restore(&mut self, s: &Snap) {
        self.store.set_data(&s.store);
        self.config.set_data(&s.config);
        for (b, (o, l, d)) in self.bufs.iter_mut().zip(s.bufs.iter()) {
            b.set(*o, *l, d);
        }
        self.ghost = s.ghost.clone();
        self.now = s.now;
        self.keeper.set(system_program::ID, s.keeper_lamports, &[]);
        rt::set_now(s.now);
    }

    fn holds(&self) -> Vec<usize> {
        let st = aligned::<Store>(&self.store.data());
        (1..=self.approvers.len()).filter(|i| st.has_role(&self.approvers[i - 1].key(), &tld_role()).unwrap_or(false)).collect()
    }

    fn project(&self) -> Value {
        let mut bufs = vec![];
        for (i, b) in self.bufs.iter().enumerate() {
            let d = b.data();
            let live = b.owner() == gmsol_timelock::ID && d.len() >= 8 + std::mem::size_of::<InstructionHeader>() && d[..8] == *InstructionHeader::DISCRIMINATOR;
            if live {
                let h = aligned::<InstructionHeader>(&d);
                let approver = h.apporver().map(|k| self.approvers.iter().position(|a| a.key() == *k).map(|p| p + 1).unwrap_or(99)).unwrap_or(0);
                bufs.push(json!({"st": if h.is_approved() { "approved" } else { "created" }, "approver": approver,
                                 "at": h.approved_at().unwrap_or(0), "shape": self.ghost[i].1}));
            } else {
                let st = match self.ghost[i].0 {
                    Ghost::Executed => "executed",
                    Ghost::Cancelled => "cancelled",
                    Ghost::None => "none",
                    Ghost::Live => "vanished", // a live buffer whose account is gone: never expected
                };
                bufs.push(json!({"st": st, "approver": 0, "at": 0, "shape": 0}));
            }
        }
        let delay = aligned::<TimelockConfig>(&self.config.data()).delay();
        if self.big {
            return json!({"buf": bufs, "delay": delay.to_string(), "now": self.now, "holds": self.holds()});
        }
        json!({"buf": bufs, "delay": delay, "now": self.now, "holds": self.holds()})
    }

    fn ix_json(&self, prog: &Pubkey, metas: &[(Pubkey, bool, bool)], data: &[u8]) -> Value {
        let name = |k: &Pubkey| self.names.get(k).cloned().unwrap_or_else(|| k.to_string());
        json!({"prog": name(prog),
               "metas": metas.iter().map(|(k, s, w)| json!({"key": name(k), "signer": s, "writable": w})).collect::<Vec<_>>(),
               "data": data.to_vec()})
    }

    fn run(&self, infos: Vec<anchor_lang::prelude::AccountInfo<'static>>, data: Vec<u8>) -> Result<(), String> {
        rt::take_cpis();
        rt::call(gmsol_timelock::entry, &gmsol_timelock::ID, infos, &data).map_err(|e| format!("{e:?}"))
    }

    fn create(&mut self, b: usize, sh: u8) -> Result<(), String> {
        let (metas, data) = shape(self, sh);
        let signers: Vec<u16> = metas.iter().enumerate().filter(|(_, m)| m.1).map(|(i, _)| i as u16).collect();
        let mut infos = vec![
            self.keeper.info(true, true),
            self.store.info(false, false),
            self.executor.info(false, false),
            self.bufs[b].info(true, true),
            self.probe_prog.info(false, false),
            self.store_prog.info(false, false),
            self.system_prog.info(false, false),
        ];
        for (k, _s, wr) in &metas {
            let a = if *k == self.wallet.key() { &self.wallet } else if *k == self.x.key() { &self.x } else { &self.y };
            infos.push(a.info(false, *wr));
        }
        let ixd = gmsol_timelock::instruction::CreateInstructionBuffer {
            num_accounts: metas.len() as u16,
            data_len: data.len() as u16,
            data,
            signers,
        }
        .data();
        self.run(infos, ixd)
    }
    fn approve(&mut self, b: usize, a: usize) -> Result<(), String> {
        let infos = vec![
            self.approvers[a].info(true, false),
            self.store.info(false, false),
            self.executor.info(false, false),
            self.bufs[b].info(false, true),
            self.store_prog.info(false, false),
        ];
        self.run(infos, gmsol_timelock::instruction::ApproveInstruction { role: ROLE.to_string() }.data())
    }
    fn cancel(&mut self, b: usize) -> Result<(), String> {
        let infos = vec![
            self.admin.info(true, false),
            self.store.info(false, false),
            self.executor.info(false, false),
            self.keeper.info(false, true), // rent receiver = creator
            self.bufs[b].info(false, true),
            self.store_prog.info(false, false),
        ];
        self.run(infos, gmsol_timelock::instruction::CancelInstruction {}.data())
    }
    /// Ok(delivered instruction as recorded at the CPI boundary)
    fn execute(&mut self, b: usize) -> Result<Option<rt::Cpi>, String> {
        let infos = vec![
            self.keeper.info(true, false),
            self.store.info(false, false),
            self.config.info(false, false),
            self.executor.info(false, false),
            self.wallet.info(false, true),
            self.keeper.info(false, true),
            self.bufs[b].info(false, true),
            self.store_prog.info(false, false),
            // remaining accounts: everything the buffered instruction may name, plus its program
            self.wallet.info(false, true),
            self.x.info(false, true),
            self.y.info(false, true),
            self.probe_prog.info(false, false),
        ];
        self.run(infos, gmsol_timelock::instruction::ExecuteInstruction {}.data())?;
        let probe = self.probe_prog.key();
        Ok(rt::take_cpis().into_iter().find(|c| c.program_id == probe))
    }
    fn increase_delay(&mut self, d: u32) -> Result<(), String> {
        let infos = vec![
            self.admin.info(true, true),
            self.store.info(false, false),
            self.config.info(false, true),
            self.store_prog.info(false, false),
        ];
        self.run(infos, gmsol_timelock::instruction::IncreaseDelay { delta: d }.data())
    }
    fn role_change(&mut self, a: usize, grant: bool) -> Result<(), String> {
        let d = self.store.data();
        let mut st = aligned::<Store>(&d);
        let k = self.approvers[a].key();
        let r = if grant { st.grant(&k, &tld_role()) } else { st.revoke(&k, &tld_role()) };
        r.map_err(|e| format!("{e:?}"))?;
        let mut nd = d[..8].to_vec();
        nd.extend_from_slice(bytemuck::bytes_of(&*st));
        self.store.set_data(&nd);
        Ok(())
    }
}

/// the CPI callees
fn install_handler(probe: Pubkey) {
    rt::set_cpi_handler(Some(Box::new(move |ix: &Instruction, infos, _seeds| {
        if ix.program_id == gmsol_store::ID {
            // the real store program (check_role)
            return rt::dispatch(gmsol_store::entry, ix, infos);
        }
        if ix.program_id == system_program::ID {
            let tag = u32::from_le_bytes(ix.data[0..4].try_into().unwrap());
            if tag != 0 {
                return Err(ProgramError::InvalidInstructionData); // only CreateAccount is expected
            }
            let lamports = u64::from_le_bytes(ix.data[4..12].try_into().unwrap());
            let space = u64::from_le_bytes(ix.data[12..20].try_into().unwrap()) as usize;
            let owner = Pubkey::new_from_array(ix.data[20..52].try_into().unwrap());
            let from = infos.iter().find(|a| *a.key == ix.accounts[0].pubkey).ok_or(ProgramError::NotEnoughAccountKeys)?;
            let to = infos.iter().find(|a| *a.key == ix.accounts[1].pubkey).ok_or(ProgramError::NotEnoughAccountKeys)?;
            if !ix.accounts[0].is_signer || !ix.accounts[1].is_signer {
                return Err(ProgramError::MissingRequiredSignature);
            }
            if **to.lamports.borrow() != 0 || !to.data_is_empty() || *to.owner != system_program::ID {
                return Err(ProgramError::AccountAlreadyInitialized);
            }
            if **from.lamports.borrow() < lamports {
                return Err(ProgramError::InsufficientFunds);
            }
            **from.lamports.borrow_mut() -= lamports;
            **to.lamports.borrow_mut() += lamports;
            to.realloc(space, true)?;
            to.assign(&owner);
            return Ok(());
        }
        if ix.program_id == probe {
            return Ok(()); // recorded by the stub
        }
        Err(ProgramError::IncorrectProgramId)
    })));
}

#[derive(Clone, Debug)]
struct Call {
    op: String,
    b: usize,
    x: i64,
}

fn exec_and_log(w: &mut World, c: &Call, reset: bool, sink: &mut Sink) {
    let pre = w.project();
    let snap = w.snapshot();
    let none_ix = json!({"prog": "", "metas": [], "data": []});
    let mut buffered = none_ix.clone();
    let mut delivered = none_ix.clone();
    let probe = w.probe_prog.key();
    let r: Result<Result<(), String>, ()> = match c.op.as_str() {
        "create" => {
            let (metas, data) = shape(w, c.x as u8);
            buffered = w.ix_json(&probe, &metas, &data);
            let r = guarded(|| w.create(c.b - 1, c.x as u8));
            if let Ok(Ok(())) = r {
                w.ghost[c.b - 1] = (Ghost::Live, c.x as u8);
            }
            r
        }
        "approve" => guarded(|| w.approve(c.b - 1, c.x as usize - 1)),
        "cancel" => {
            let r = guarded(|| w.cancel(c.b - 1));
            if let Ok(Ok(())) = r {
                w.ghost[c.b - 1] = (Ghost::Cancelled, 0);
            }
            r
        }
        "execute" => {
            if w.ghost[c.b - 1].0 == Ghost::Live {
                let (metas, data) = shape(w, w.ghost[c.b - 1].1);
                buffered = w.ix_json(&probe, &metas, &data);
            }
            match guarded(|| w.execute(c.b - 1)) {
                Ok(Ok(cpi)) => {
                    if let Some(cpi) = cpi {
                        delivered = w.ix_json(&cpi.program_id, &cpi.metas, &cpi.data);
                    }
                    w.ghost[c.b - 1] = (Ghost::Executed, 0);
                    Ok(Ok(()))
                }
                Ok(Err(e)) => Ok(Err(e)),
                Err(()) => Err(()),
            }
        }
        "increase_delay" => guarded(|| w.increase_delay(c.x as u32)),
        "revoke" => guarded(|| w.role_change(c.x as usize - 1, false)),
        "grant" => guarded(|| w.role_change(c.x as usize - 1, true)),
        "tick" => {
            w.now += c.x;
            rt::set_now(w.now);
            Ok(Ok(()))
        }
        _ => panic!("unknown op {}", c.op),
    };
    let (ok, panic, err) = match r {
        Ok(Ok(())) => (true, false, String::new()),
        Ok(Err(e)) => (false, false, e),
        Err(()) => (false, true, "panic".into()),
    };
    if !ok {
        w.restore(&snap); // a failed transaction is rolled back by the runtime
    }
    let post = w.project();
    sink.emit(json!({"op": c.op, "b": c.b, "x": c.x, "ok": ok, "panic": panic, "err": err, "reset": reset,
                     "pre": pre, "post": post, "buffered": buffered, "delivered": delivered, "wallet": "W"}));
}

/// increase_delay on a configuration whose delay does not fit TLC's integers
fn big_increase(w: &mut World, delta: u32, reset: bool, sink: &mut Sink) {
    let cur = || aligned::<TimelockConfig>(&w.config.data()).delay();
    let before = cur();
    let pre = w.project();
    let snap = w.snapshot();
    let r = guarded(|| w.increase_delay(delta));
    let (ok, panic, err) = match r {
        Ok(Ok(())) => (true, false, String::new()),
        Ok(Err(e)) => (false, false, e),
        Err(()) => (false, true, "panic".into()),
    };
    if !ok {
        w.restore(&snap);
    }
    let after = aligned::<TimelockConfig>(&w.config.data()).delay();
    let post = w.project();
    let none_ix = json!({"prog": "", "metas": [], "data": []});
    sink.emit(json!({"op": "increase_delay_big", "b": 0, "x": 0, "xs": delta.to_string(), "ok": ok, "panic": panic, "err": err, "reset": reset,
                     "pre": pre, "post": post, "buffered": none_ix, "delivered": none_ix, "wallet": "W",
                     "cmp": (after as i64 - before as i64).signum(), "fits": delta != 0 && before.checked_add(delta).is_some(),
                     "exact": before as u64 + delta as u64 == after as u64}));
}

const DAY: i64 = 86_400;

/// large delays: around 30 days, 90 days, near 2^31 (all steps judged by TLC on integers) and up to
/// u32::MAX (judged through cmp); increments 0, 1, one day, and ones that overflow u32
fn delays(args: &Args) -> i32 {
    let mut sink = Sink::create(&args.str("out", "c36-delays.ndjson"));
    for d0 in [30 * DAY - 1, 30 * DAY, 30 * DAY + 1, 31 * DAY, 90 * DAY, 90 * DAY + 7, 1_000_000_000] {
        let mut w = World::new(1, 1, d0 as u32);
        let script: Vec<(&str, usize, i64)> = vec![
            ("create", 1, 11), ("approve", 1, 1), ("increase_delay", 0, 0), ("increase_delay", 0, 1), ("tick", 0, d0), ("execute", 1, 0),
            ("increase_delay", 0, DAY), ("tick", 0, 1), ("execute", 1, 0), ("tick", 0, DAY), ("execute", 1, 0),
            ("increase_delay", 0, 1), ("create", 1, 1), ("approve", 1, 1), ("tick", 0, d0 + DAY + 1), ("execute", 1, 0), ("tick", 0, 1), ("execute", 1, 0),
        ];
        for (k, (op, b, x)) in script.iter().enumerate() {
            exec_and_log(&mut w, &Call { op: op.to_string(), b: *b, x: *x }, k == 0, &mut sink);
        }
    }
    for d0 in [u32::MAX, u32::MAX - 10, u32::MAX - 86_399, u32::MAX - 86_400, 3_000_000_000, (1u32 << 31) + 5] {
        let mut w = World::new(1, 1, d0);
        w.big = true;
        for (k, delta) in [0u32, 1, 86_400, 1, 4_000_000_000, u32::MAX, 10, 86_400].iter().enumerate() {
            big_increase(&mut w, *delta, k == 0, &mut sink);
        }
    }
    eprintln!("events {}", sink.finish());
    0
}

fn call_from_json(v: &Value) -> Call {
    Call { op: v["op"].as_str().unwrap().to_string(), b: v["b"].as_u64().unwrap() as usize, x: v["x"].as_i64().unwrap() }
}

fn replay(args: &Args) -> i32 {
    let text = std::fs::read_to_string(args.str("in", "paths.ndjson")).expect("read paths");
    let mut rows: Vec<Value> = text.lines().filter(|l| !l.trim().is_empty()).map(|l| serde_json::from_str(l).unwrap()).collect();
    rows.sort_by_key(|r| r["path"].as_array().unwrap().len());
    let mut sink = Sink::create(&args.str("out", "c36-replay.ndjson"));
    if rows.is_empty() {
        return 2;
    }
    let nb = rows[0]["nb"].as_u64().unwrap() as usize;
    let na = rows[0]["na"].as_u64().unwrap() as usize;
    let probe = args.num("probe", 0) == 1;
    // the model's shape classes 1..3 are executed as shape 10 * variant + class
    let variant = args.num("variant", 0) as i64;
    let conc = |mut c: Call| {
        if c.op == "create" {
            c.x += 10 * variant;
        }
        c
    };
    // one world per initial delay (first path element), snapshots per path
    let mut worlds: HashMap<i64, World> = HashMap::new();
    let mut snaps: HashMap<String, Snap> = HashMap::new();
    for r in &rows {
        let path = r["path"].as_array().unwrap();
        let d0 = path[0]["x"].as_i64().unwrap();
        let w = worlds.entry(d0).or_insert_with(|| {
            let w = World::new(nb, na, d0 as u32);
            snaps.insert(Value::Array(path[..1].to_vec()).to_string(), w.snapshot());
            w
        });
        let parent = Value::Array(path[..path.len() - 1].to_vec()).to_string();
        let s = snaps.get(&parent).unwrap_or_else(|| panic!("parent path missing: {parent}")).clone();
        w.restore(&s);
        exec_and_log(w, &conc(call_from_json(&path[path.len() - 1])), path.len() == 2, &mut sink);
        let here = w.snapshot();
        if probe {
            // in every distinct state: every buffer operation of the model (most of them must fail)
            let mut calls = vec![];
            for b in 1..=nb {
                for sh in 1..=3 {
                    calls.push(Call { op: "create".into(), b, x: sh });
                }
                for a in 1..=na {
                    calls.push(Call { op: "approve".into(), b, x: a as i64 });
                }
                calls.push(Call { op: "cancel".into(), b, x: 0 });
                calls.push(Call { op: "execute".into(), b, x: 0 });
            }
            for c in calls {
                exec_and_log(w, &conc(c), true, &mut sink);
                w.restore(&here);
            }
        }
        snaps.insert(Value::Array(path.to_vec()).to_string(), here);
    }
    eprintln!("events {}", sink.finish());
    0
}

fn random(args: &Args) -> i32 {
    let runs = args.num("n", 100);
    let len = args.num("len", 40);
    let mut rng = Rng::new(args.num("seed", 1));
    let mut sink = Sink::create(&args.str("out", "c36-random.ndjson"));
    for _ in 0..runs {
        let nb = rng.range(1, 3) as usize;
        let na = rng.range(1, 3) as usize;
        let d0 = if rng.chance(1, 3) { *rng.pick(&[30 * DAY - 1, 30 * DAY + 1, 45 * DAY, 90 * DAY, 365 * DAY]) } else { rng.range(0, 5) };
        let long = d0 > 5;
        let mut w = World::new(nb, na, d0 as u32);
        for k in 0..len {
            let b = rng.range(1, nb as i64) as usize;
            let a = rng.range(1, na as i64);
            let c = match rng.below(16) {
                0..=2 => Call { op: "create".into(), b, x: *rng.pick(&[1i64, 2, 3, 11, 11, 12, 13, 21, 21, 22, 23, 31, 31, 32, 33]) },
                3..=5 => Call { op: "approve".into(), b, x: a },
                6 => Call { op: "cancel".into(), b, x: 0 },
                7..=9 => Call { op: "execute".into(), b, x: 0 },
                10 => Call { op: "increase_delay".into(), b: 0, x: if long { *rng.pick(&[0i64, 1, DAY, 30 * DAY]) } else { rng.range(0, 3) } },
                11 => Call { op: "revoke".into(), b: 0, x: a },
                12 => Call { op: "grant".into(), b: 0, x: a },
                _ => Call { op: "tick".into(), b: 0, x: if long { *rng.pick(&[1i64, DAY, 30 * DAY, d0]) } else { rng.range(1, 3) } },
            };
            exec_and_log(&mut w, &c, k == 0, &mut sink);
        }
    }
    eprintln!("events {}", sink.finish());
    0
}

fn main() {
    h_aux::util::quiet_panics();
    rt::install();
    rt::silence_stdout();
    install_handler(rt::key(0x6F, 1));
    let (mode, args) = Args::from_env();
    let code = match mode.as_str() {
        "replay" => replay(&args),
        "random" => random(&args),
        "delays" => delays(&args),
        _ => 2,
    };
    std::process::exit(code);
}
