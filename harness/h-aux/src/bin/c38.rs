//! C38: LP staking reward functions of programs/liquidity-provider (hook `verif`):
//! `compute_time_weighted_apy` and `calculate_gt_reward_amount`, called directly.
//!
//! modes:
//!   small  --out f      structured cases: gradient families x boundary elapsed times, all small
//!                       ordered reward pairs
//!   random --seed S --n N --out f
//!
//! Scaling (exact, see Apy.tla): APY values are passed as small integers (the function is scale
//! free); reward operands are value = a*10^9, apy_per_sec = b*10^10, integral = c*10^19, which turns
//! both `apply_factor` divisions by 10^20 into divisions by 10.
use gmsol_liquidity_provider::verif as lp;
use h_aux::util::{guarded, Args, Rng, Sink};
use serde_json::{json, Value};

const WEEK: i64 = 604_800;
const NB: usize = 53;

fn apy_event(sink: &mut Sink, start: i64, now: i64, g: &[u64; NB]) {
    let mut gg = [0u128; NB];
    for k in 0..NB {
        gg[k] = g[k] as u128;
    }
    let r = guarded(|| lp::compute_time_weighted_apy(start, now, &gg));
    let (panic, v) = match r {
        Ok(v) => (false, v),
        Err(()) => (true, 0),
    };
    assert!(v < (1u128 << 31), "result leaves the small world");
    sink.emit(json!({"op": "apy", "panic": panic, "start": start, "now": now, "g": g.to_vec(), "v": v as u64}));
}

fn reward(a: u64, d: i64, b: u64, c: u64) -> (bool, bool, u64) {
    let r = guarded(|| {
        lp::calculate_gt_reward_amount(a as u128 * 1_000_000_000, d, b as u128 * 10_000_000_000, c as u128 * 10_000_000_000_000_000_000)
    });
    match r {
        Ok(Ok(v)) => (false, true, v),
        Ok(Err(_)) => (false, false, 0),
        Err(()) => (true, false, 0),
    }
}

#[allow(clippy::too_many_arguments)]
fn reward_pair(sink: &mut Sink, d: i64, b: u64, a1: u64, c1: u64, a2: u64, c2: u64) {
    let (p1, ok1, r1) = reward(a1, d, b, c1);
    let (p2, ok2, r2) = reward(a2, d, b, c2);
    sink.emit(json!({"op": "reward_pair", "panic": p1 || p2, "d": d, "b": b, "a1": a1, "c1": c1, "ok1": ok1, "r1": r1,
                     "a2": a2, "c2": c2, "ok2": ok2, "r2": r2}));
}

/// largest bucket value for which the sum over `t` seconds stays below 2^31 (TLC integers)
fn gmax(t: i64) -> u64 {
    (((1u64 << 31) - 1) / (t.max(1) as u64 + WEEK as u64)).min(2000)
}

fn spike(i: usize, x: u64, y: u64) -> [u64; NB] {
    let mut g = [y; NB];
    g[i] = x;
    g
}
fn step(i: usize, x: u64, y: u64) -> [u64; NB] {
    let mut g = [y; NB];
    for k in 0..i {
        g[k] = x;
    }
    g
}

/// elapsed times around week boundaries (incl. past the last bucket), all with sums < 2^31
fn boundary_ts() -> Vec<i64> {
    let mut ts = vec![1, 2, 59, 3600, WEEK / 2];
    for k in [1i64, 2, 3, 26, 51, 52, 53, 54, 60, 99, 100] {
        for d in [-1i64, 0, 1, 777] {
            ts.push(k * WEEK + d);
        }
    }
    ts
}

fn small(args: &Args) -> i32 {
    let mut sink = Sink::create(&args.str("out", "c38-small.ndjson"));
    let ts = boundary_ts();
    let starts = [0i64, 5, 1_700_000_000];
    let mut n = 0usize;
    for i in [0usize, 1, 2, 25, 50, 51, 52] {
        for (x, y) in [(0u64, 0u64), (1, 0), (0, 1), (20, 1), (3, 17), (20, 20), (7, 2)] {
            for fam in 0..2 {
                let g = if fam == 0 { spike(i, x, y) } else { step(i, x, y) };
                for &t in &ts {
                    let s = starts[n % starts.len()];
                    n += 1;
                    apy_event(&mut sink, s, s + t, &g);
                    // the same shape at the largest scale whose sum still fits 31 bits
                    let f = (gmax(t) / 20).max(1);
                    if f > 1 {
                        let mut h = g;
                        for v in h.iter_mut() {
                            *v *= f;
                        }
                        apy_event(&mut sink, s, s + t, &h);
                    }
                }
            }
        }
    }
    // no elapsed time / clock behind the stake time
    let g = step(1, 9, 4);
    for (s, now) in [(10i64, 10i64), (10, 9), (10, 0), (0, 0)] {
        apy_event(&mut sink, s, now, &g);
    }
    // every ordered pair of small reward operands, several rates
    for b in [0u64, 1, 3, 7, 10, 15, 99] {
        for a2 in 0..=7u64 {
            for a1 in 0..=a2 {
                for c2 in 0..=7u64 {
                    for c1 in 0..=c2 {
                        reward_pair(&mut sink, 5, b, a1 * 3, c1 * 3, a2 * 3, c2 * 3);
                    }
                }
            }
        }
    }
    reward_pair(&mut sink, -1, 3, 1, 1, 2, 2);
    reward_pair(&mut sink, 0, 3, 1, 1, 2, 2);
    eprintln!("events {}", sink.finish());
    0
}

fn random(args: &Args) -> i32 {
    let n = args.num("n", 2000);
    let mut rng = Rng::new(args.num("seed", 1));
    let mut sink = Sink::create(&args.str("out", "c38-random.ndjson"));
    for k in 0..n {
        if k % 2 == 0 {
            // random gradient within the cap (20 = 200% in tenths), random elapsed time up to 100 weeks
            let weeks = *rng.pick(&[0i64, 0, 1, 2, 5, 20, 51, 52, 53, 70, 99]);
            let t = match rng.below(4) {
                0 => weeks * WEEK,
                1 => weeks * WEEK + 1,
                2 => (weeks * WEEK - 1).max(0),
                _ => weeks * WEEK + rng.range(0, WEEK - 1),
            };
            let m = gmax(t);
            let mut g = [0u64; NB];
            let shape = rng.below(4);
            let base = rng.below(m + 1);
            for (j, x) in g.iter_mut().enumerate() {
                *x = match shape {
                    0 => rng.below(m + 1),
                    1 => m - (j as u64 * m / 52),
                    2 => base,
                    _ => {
                        if rng.chance(1, 6) {
                            rng.below(m + 1)
                        } else {
                            0
                        }
                    }
                };
            }
            let start = *rng.pick(&[0i64, 1, 86_400, 1_700_000_000, 1_726_000_000]) + rng.range(0, 1000);
            let now = if rng.chance(1, 40) { start - rng.range(0, 50) } else { start + t };
            apy_event(&mut sink, start, now, &g);
        } else {
            let lim: u64 = (1 << 31) - 1;
            let a2 = if rng.chance(1, 3) { rng.below(46_000) } else { rng.below(300) };
            let b = if a2 == 0 { rng.below(46_000) } else { rng.below((lim / a2).min(46_000) + 1) };
            let p2 = a2 * b / 10;
            let c2 = if p2 == 0 { rng.below(1000) } else { rng.below((lim / p2).min(100_000) + 1) };
            // mostly ordered pairs (the monitor's antecedent), sometimes not
            let (a1, c1) = if rng.chance(1, 10) {
                (rng.below(a2 + 1), c2)
            } else if rng.chance(1, 10) {
                (a2, rng.below(c2 + 1))
            } else {
                (a2 - rng.below(a2.min(12) + 1), c2 - rng.below(c2.min(12) + 1))
            };
            let d = if rng.chance(1, 30) { -rng.range(1, 100) } else { rng.range(0, 1_000_000) };
            if rng.chance(1, 12) {
                reward_pair(&mut sink, d, b, a2, c2, a1, c1); // antecedent false unless equal
            } else {
                reward_pair(&mut sink, d, b, a1, c1, a2, c2);
            }
        }
    }
    eprintln!("events {}", sink.finish());
    0
}

fn main() {
    h_aux::util::quiet_panics();
    h_aux::rt::install();
    h_aux::rt::silence_stdout();
    let (mode, args) = Args::from_env();
    let _: Option<Value> = None;
    let code = match mode.as_str() {
        "small" => small(&args),
        "random" => random(&args),
        _ => 2,
    };
    std::process::exit(code);
}
