//! C38: LP staking reward functions of programs/liquidity-provider (hook `verif`):
//! `compute_time_weighted_apy` and `calculate_gt_reward_amount`, called directly.
//!
//! modes:
//!   small  --out f      structured cases: gradient families x boundary elapsed times, all small
//!                       ordered reward pairs
//!   random --seed S --n N --out f
//!   wide --seed S --n N --out f   type-limit tier of the reward: pairs (value, integral) <= (value', integral') over
//!                       the u128 argument range with raw rewards around and far above 2^64; every number is
//!                       logged as a BigNum record {s, neg, l} (7 limbs base 2^20) so that TLC compares real values
//!   unstake --seed S --n N --out f   REAL `unstake_lp` instructions (gmsol_liquidity_provider::entry) on
//!                       fabricated accounts; the store (GT cumulative factor, GT mint) and the token program
//!                       (transfer_checked, close_account) are mocked at the CPI boundary and recorded: the
//!                       transferred amount of an event is the amount of the transfer the program issued
//!
//! Scaling (exact, see Apy.tla): APY values are passed as small integers (the function is scale
//! free); reward operands are value = a*10^9, apy_per_sec = b*10^10, integral = c*10^19, which turns
//! both `apply_factor` divisions by 10^20 into divisions by 10.
use gmsol_liquidity_provider::verif as lp;
use h_aux::util::{guarded, Args, Rng, Sink};
use serde_json::{json, Value};

const WEEK: i64 = 604_800;
const NB: usize = 53;

fn apy_event(sink: &mut Sink, start: i64, now: i64, g: &[u64; NB]) {
    let mut gg = [0u128; NB];
    for k in 0..NB {
        gg[k] = g[k] as u128;
    }
    let r = guarded(|| lp::compute_time_weighted_apy(start, now, &gg));
    let (panic, v) = match r {
        Ok(v) => (false, v),
        Err(()) => (true, 0),
    };
    assert!(v < (1u128 << 31), "result leaves the small world");
    sink.emit(json!({"op": "apy", "panic": panic, "start": start, "now": now, "g": g.to_vec(), "v": v as u64}));
}

fn reward(a: u64, d: i64, b: u64, c: u64) -> (bool, bool, u64) {
    let r = guarded(|| {
        lp::calculate_gt_reward_amount(a as u128 * 1_000_000_000, d, b as u128 * 10_000_000_000, c as u128 * 10_000_000_000_000_000_000)
    });
    match r {
        Ok(Ok(v)) => (false, true, v),
        Ok(Err(_)) => (false, false, 0),
        Err(()) => (true, false, 0),
    }
}

#[allow(clippy::too_many_arguments)]
fn reward_pair(sink: &mut Sink, d: i64, b: u64, a1: u64, c1: u64, a2: u64, c2: u64) {
    let (p1, ok1, r1) = reward(a1, d, b, c1);
    let (p2, ok2, r2) = reward(a2, d, b, c2);
    sink.emit(json!({"op": "reward_pair", "panic": p1 || p2, "d": d, "b": b, "a1": a1, "c1": c1, "ok1": ok1, "r1": r1,
                     "a2": a2, "c2": c2, "ok2": ok2, "r2": r2}));
}

/// largest bucket value for which the sum over `t` seconds stays below 2^31 (TLC integers)
fn gmax(t: i64) -> u64 {
    (((1u64 << 31) - 1) / (t.max(1) as u64 + WEEK as u64)).min(2000)
}

fn spike(i: usize, x: u64, y: u64) -> [u64; NB] {
    let mut g = [y; NB];
    g[i] = x;
    g
}
fn step(i: usize, x: u64, y: u64) -> [u64; NB] {
    let mut g = [y; NB];
    for k in 0..i {
        g[k] = x;
    }
    g
}

/// elapsed times around week boundaries (incl. past the last bucket), all with sums < 2^31
fn boundary_ts() -> Vec<i64> {
    let mut ts = vec![1, 2, 59, 3600, WEEK / 2];
    for k in [1i64, 2, 3, 26, 51, 52, 53, 54, 60, 99, 100] {
        for d in [-1i64, 0, 1, 777] {
            ts.push(k * WEEK + d);
        }
    }
    ts
}

fn small(args: &Args) -> i32 {
    let mut sink = Sink::create(&args.str("out", "c38-small.ndjson"));
    let ts = boundary_ts();
    let starts = [0i64, 5, 1_700_000_000];
    let mut n = 0usize;
    for i in [0usize, 1, 2, 25, 50, 51, 52] {
        for (x, y) in [(0u64, 0u64), (1, 0), (0, 1), (20, 1), (3, 17), (20, 20), (7, 2)] {
            for fam in 0..2 {
                let g = if fam == 0 { spike(i, x, y) } else { step(i, x, y) };
                for &t in &ts {
                    let s = starts[n % starts.len()];
                    n += 1;
                    apy_event(&mut sink, s, s + t, &g);
                    // the same shape at the largest scale whose sum still fits 31 bits
                    let f = (gmax(t) / 20).max(1);
                    if f > 1 {
                        let mut h = g;
                        for v in h.iter_mut() {
                            *v *= f;
                        }
                        apy_event(&mut sink, s, s + t, &h);
                    }
                }
            }
        }
    }
    // no elapsed time / clock behind the stake time
    let g = step(1, 9, 4);
    for (s, now) in [(10i64, 10i64), (10, 9), (10, 0), (0, 0)] {
        apy_event(&mut sink, s, now, &g);
    }
    // every ordered pair of small reward operands, several rates
    for b in [0u64, 1, 3, 7, 10, 15, 99] {
        for a2 in 0..=7u64 {
            for a1 in 0..=a2 {
                for c2 in 0..=7u64 {
                    for c1 in 0..=c2 {
                        reward_pair(&mut sink, 5, b, a1 * 3, c1 * 3, a2 * 3, c2 * 3);
                    }
                }
            }
        }
    }
    reward_pair(&mut sink, -1, 3, 1, 1, 2, 2);
    reward_pair(&mut sink, 0, 3, 1, 1, 2, 2);
    eprintln!("events {}", sink.finish());
    0
}

fn random(args: &Args) -> i32 {
    let n = args.num("n", 2000);
    let mut rng = Rng::new(args.num("seed", 1));
    let mut sink = Sink::create(&args.str("out", "c38-random.ndjson"));
    for k in 0..n {
        if k % 2 == 0 {
            // random gradient within the cap (20 = 200% in tenths), random elapsed time up to 100 weeks
            let weeks = *rng.pick(&[0i64, 0, 1, 2, 5, 20, 51, 52, 53, 70, 99]);
            let t = match rng.below(4) {
                0 => weeks * WEEK,
                1 => weeks * WEEK + 1,
                2 => (weeks * WEEK - 1).max(0),
                _ => weeks * WEEK + rng.range(0, WEEK - 1),
            };
            let m = gmax(t);
            let mut g = [0u64; NB];
            let shape = rng.below(4);
            let base = rng.below(m + 1);
            for (j, x) in g.iter_mut().enumerate() {
                *x = match shape {
                    0 => rng.below(m + 1),
                    1 => m - (j as u64 * m / 52),
                    2 => base,
                    _ => {
                        if rng.chance(1, 6) {
                            rng.below(m + 1)
                        } else {
                            0
                        }
                    }
                };
            }
            let start = *rng.pick(&[0i64, 1, 86_400, 1_700_000_000, 1_726_000_000]) + rng.range(0, 1000);
            let now = if rng.chance(1, 40) { start - rng.range(0, 50) } else { start + t };
            apy_event(&mut sink, start, now, &g);
        } else {
            let lim: u64 = (1 << 31) - 1;
            let a2 = if rng.chance(1, 3) { rng.below(46_000) } else { rng.below(300) };
            let b = if a2 == 0 { rng.below(46_000) } else { rng.below((lim / a2).min(46_000) + 1) };
            let p2 = a2 * b / 10;
            let c2 = if p2 == 0 { rng.below(1000) } else { rng.below((lim / p2).min(100_000) + 1) };
            // mostly ordered pairs (the monitor's antecedent), sometimes not
            let (a1, c1) = if rng.chance(1, 10) {
                (rng.below(a2 + 1), c2)
            } else if rng.chance(1, 10) {
                (a2, rng.below(c2 + 1))
            } else {
                (a2 - rng.below(a2.min(12) + 1), c2 - rng.below(c2.min(12) + 1))
            };
            let d = if rng.chance(1, 30) { -rng.range(1, 100) } else { rng.range(0, 1_000_000) };
            if rng.chance(1, 12) {
                reward_pair(&mut sink, d, b, a2, c2, a1, c1); // antecedent false unless equal
            } else {
                reward_pair(&mut sink, d, b, a1, c1, a2, c2);
            }
        }
    }
    eprintln!("events {}", sink.finish());
    0
}

// ---------------------------------------------------------------------------------------------
// type-limit tier of calculate_gt_reward_amount
fn bigu(v: u128) -> Value {
    let mut m = v;
    let mut l = [0u32; 7];
    for i in (0..7).rev() {
        l[i] = (m & 0xF_FFFF) as u32;
        m >>= 20;
    }
    assert!(m == 0);
    json!({"s": v.to_string(), "neg": false, "l": l})
}

fn reward_wide(value: u128, d: i64, aps: u128, integral: u128) -> (bool, bool, u64) {
    match guarded(|| lp::calculate_gt_reward_amount(value, d, aps, integral)) {
        Ok(Ok(v)) => (false, true, v),
        Ok(Err(_)) => (false, false, 0),
        Err(()) => (true, false, 0),
    }
}

fn wide_pair(sink: &mut Sink, aps: u128, a1: u128, c1: u128, a2: u128, c2: u128) {
    let (p1, ok1, r1) = reward_wide(a1, 5, aps, c1);
    let (p2, ok2, r2) = reward_wide(a2, 5, aps, c2);
    sink.emit(json!({"op": "reward_pair_wide", "panic": p1 || p2, "d": 5, "b": bigu(aps), "a1": bigu(a1), "c1": bigu(c1), "ok1": ok1,
                     "r1": bigu(r1 as u128), "a2": bigu(a2), "c2": bigu(c2), "ok2": ok2, "r2": bigu(r2 as u128),
                     "sat1": ok1 && r1 == u64::MAX, "sat2": ok2 && r2 == u64::MAX}));
}

/// integral for which floor(floor(value * aps / 10^20) * integral / 10^20) is about k * 2^64
fn integral_for(value: u128, aps: u128, k: f64) -> Option<u128> {
    let p = value as f64 * aps as f64 / 1e20;
    if p < 1.0 {
        return None;
    }
    let c = 18446744073709551616.0 * k * 1e20 / p;
    if !(1.0..3.0e38).contains(&c) {
        return None;
    }
    Some(c as u128)
}

fn wide(args: &Args) -> i32 {
    let n = args.num("n", 600);
    let mut rng = Rng::new(args.num("seed", 1));
    let mut sink = Sink::create(&args.str("out", "c38-wide.ndjson"));
    let pow10 = |e: u64| 10u128.pow(e as u32);
    // the lead's example shape: a reward of exactly 10^19, then the stake / the integral doubled
    wide_pair(&mut sink, pow10(12), pow10(27), pow20() , 2 * pow10(27), pow20());
    wide_pair(&mut sink, pow10(12), pow10(27), pow20(), pow10(27), 2 * pow20());
    let mut k = 0u64;
    while (sink.n as u64) < n {
        k += 1;
        // stake value 10^18 .. 10^38 (u128, 10^20 = one USD), apy per second 10^9 .. 10^14 (200% a year = 6.3 * 10^12)
        let value = pow10(rng.range(18, 37) as u64) * (rng.below(9) as u128 + 1) + rng.below(1000) as u128;
        let aps = pow10(rng.range(9, 13) as u64) * (rng.below(9) as u128 + 1);
        // raw reward of the smaller call: just below / at / above 2^64, or far above
        let k1 = *rng.pick(&[0.3f64, 0.6, 0.9, 0.99, 0.999_999, 1.0, 1.000_001, 1.5, 3.0, 1e3, 1e9, 1e15]);
        let Some(c1) = integral_for(value, aps, k1) else { continue };
        // the larger call: stake and / or integral grown by a factor
        let grow = |rng: &mut Rng, x: u128| -> Option<u128> {
            match rng.below(6) {
                0 => Some(x),
                1 => x.checked_add(1),
                2 => x.checked_mul(2),
                3 => x.checked_add(x / 100),
                4 => x.checked_mul(3),
                _ => x.checked_mul(1000),
            }
        };
        let (Some(a2), Some(c2)) = (grow(&mut rng, value), grow(&mut rng, c1)) else { continue };
        if k % 11 == 0 {
            wide_pair(&mut sink, aps, a2, c2, value, c1); // unordered pair: antecedent false unless equal
        } else {
            wide_pair(&mut sink, aps, value, c1, a2, c2);
        }
    }
    eprintln!("events {}", sink.finish());
    0
}
fn pow20() -> u128 {
    100_000_000_000_000_000_000
}

// ---------------------------------------------------------------------------------------------
// unstake_lp through the program entry
mod unstake {
    use anchor_lang::{
        prelude::Pubkey,
        solana_program::{instruction::Instruction, program_error::ProgramError, system_program},
        AccountDeserialize, Discriminator, InstructionData,
    };
    use gmsol_liquidity_provider::{GlobalState, LpTokenController, Position, GLOBAL_STATE_SEED, POSITION_SEED, VAULT_SEED};
    use h_aux::rt::{self, Acct};
    use h_aux::util::{guarded, Args, Rng, Sink};
    use serde_json::json;
    use std::str::FromStr;

    fn token_program() -> Pubkey {
        Pubkey::from_str("TokenkegQfeZyiNwAJbNbGKPFXCWuBvf9Ss623VQ5DA").unwrap()
    }
    fn mint_data() -> Vec<u8> {
        let mut d = vec![0u8; 82];
        d[44] = 6;
        d[45] = 1;
        d
    }
    fn token_account_data(mint: &Pubkey, owner: &Pubkey, amount: u64) -> Vec<u8> {
        let mut d = vec![0u8; 165];
        d[0..32].copy_from_slice(mint.as_ref());
        d[32..64].copy_from_slice(owner.as_ref());
        d[64..72].copy_from_slice(&amount.to_le_bytes());
        d[108] = 1;
        d
    }

    pub struct Case {
        pub amount: u64,
        pub value: u64,
        pub claim: bool,
        pub minv: u64,
        pub vault: u64,
        pub u: u64,
        pub integral: u64, // cumulative inverse cost since the last snapshot (0 = no reward minted)
    }

    /// one real unstake_lp on a fresh world
    pub fn run_case(c: &Case, sink: &mut Sink) {
        let pid = gmsol_liquidity_provider::ID;
        let sid = gmsol_store::ID;
        let tp = token_program();
        let owner_k = rt::key(0x01, 9);
        let store_k = rt::key(0x02, 9);
        let mint_k = rt::key(0x03, 9);
        let ctrl_k = rt::key(0x04, 9);
        let (gs_k, gs_bump) = Pubkey::find_program_address(&[GLOBAL_STATE_SEED], &pid);
        let position_id = 7u64;
        let (pos_k, pos_bump) = Pubkey::find_program_address(&[POSITION_SEED, ctrl_k.as_ref(), owner_k.as_ref(), &position_id.to_le_bytes()], &pid);
        let (vault_k, _) = Pubkey::find_program_address(&[VAULT_SEED, pos_k.as_ref()], &pid);
        // borsh by hand (the structs have a private `reserved` vector)
        let mut gs = GlobalState::DISCRIMINATOR.to_vec();
        gs.extend_from_slice(rt::key(0xA0, 1).as_ref()); // authority
        gs.extend_from_slice(Pubkey::default().as_ref()); // pending_authority
        for k in 0..53u128 {
            gs.extend_from_slice(&(k % 3).to_le_bytes()); // apy_gradient
        }
        gs.extend_from_slice(&(c.minv as u128).to_le_bytes());
        gs.push(c.claim as u8);
        gs.push(gs_bump);
        gs.extend_from_slice(&300u32.to_le_bytes());
        gs.extend_from_slice(&0u32.to_le_bytes()); // reserved: empty vec
        let mut ct = LpTokenController::DISCRIMINATOR.to_vec();
        ct.extend_from_slice(gs_k.as_ref());
        ct.extend_from_slice(mint_k.as_ref());
        ct.extend_from_slice(&0u64.to_le_bytes());
        ct.extend_from_slice(&1u64.to_le_bytes()); // total_positions
        ct.push(1); // is_enabled
        ct.extend_from_slice(&0i64.to_le_bytes());
        ct.extend_from_slice(&0u128.to_le_bytes());
        ct.push(255);
        ct.extend_from_slice(&0u32.to_le_bytes());
        let prev_cum: u128 = 1000;
        let mut ps = Position::DISCRIMINATOR.to_vec();
        ps.extend_from_slice(owner_k.as_ref());
        ps.extend_from_slice(ctrl_k.as_ref());
        ps.extend_from_slice(mint_k.as_ref());
        ps.extend_from_slice(vault_k.as_ref());
        ps.extend_from_slice(&position_id.to_le_bytes());
        ps.extend_from_slice(&c.amount.to_le_bytes());
        ps.extend_from_slice(&(c.value as u128).to_le_bytes());
        ps.extend_from_slice(&900i64.to_le_bytes()); // stake_start_time
        ps.extend_from_slice(&prev_cum.to_le_bytes());
        ps.push(pos_bump);
        ps.extend_from_slice(&0u32.to_le_bytes());
        let mut store = gmsol_store::states::Store::DISCRIMINATOR.to_vec();
        store.extend_from_slice(bytemuck::bytes_of(&*rt::zeroed_box::<gmsol_store::states::Store>()));
        let mut user = gmsol_store::states::UserHeader::DISCRIMINATOR.to_vec();
        user.extend_from_slice(bytemuck::bytes_of(&*rt::zeroed_box::<gmsol_store::states::UserHeader>()));
        user[8 + 16..8 + 48].copy_from_slice(owner_k.as_ref());
        user[8 + 48..8 + 80].copy_from_slice(store_k.as_ref());

        let global_state = Acct::new(gs_k, pid, 1_000_000, &gs);
        let controller = Acct::new(ctrl_k, pid, 1_000_000, &ct);
        let lp_mint = Acct::new(mint_k, tp, 1_000_000, &mint_data());
        let store_a = Acct::new(store_k, sid, 1_000_000, &store);
        let gt_program = Acct::program(sid);
        let position = Acct::new(pos_k, pid, 1_000_000, &ps);
        let vault = Acct::new(vault_k, tp, 1_000_000, &token_account_data(&mint_k, &gs_k, c.vault));
        let owner = Acct::new(owner_k, system_program::ID, 1_000_000, &[]);
        let gt_user = Acct::new(rt::key(0x05, 9), sid, 1_000_000, &user);
        let user_lp = Acct::new(rt::key(0x06, 9), tp, 1_000_000, &token_account_data(&mint_k, &owner_k, 0));
        let event_authority = Acct::new(rt::key(0x07, 9), system_program::ID, 0, &[]);
        let token_prog = Acct::program(tp);

        let cum_now = prev_cum + c.integral as u128;
        rt::set_now(1_000);
        rt::set_cpi_handler(Some(Box::new(move |ix: &Instruction, _infos, _seeds| {
            if ix.program_id == gmsol_store::ID {
                if ix.data[..8] == *gmsol_store::instruction::UpdateGtCumulativeInvCostFactor::DISCRIMINATOR {
                    rt::set_return_data(gmsol_store::ID, cum_now.to_le_bytes().to_vec());
                }
                return Ok(()); // mint_gt_reward: recorded only
            }
            if ix.program_id == token_program() {
                return Ok(()); // transfer_checked / close_account: recorded only
            }
            Err(ProgramError::IncorrectProgramId)
        })));
        rt::take_cpis();
        let infos = vec![
            global_state.info(false, false),
            controller.info(false, true),
            lp_mint.info(false, false),
            store_a.info(false, true),
            gt_program.info(false, false),
            position.info(false, true),
            vault.info(false, true),
            owner.info(true, false),
            gt_user.info(false, true),
            user_lp.info(false, true),
            event_authority.info(false, false),
            token_prog.info(false, false),
        ];
        let data = gmsol_liquidity_provider::instruction::UnstakeLp { _position_id: position_id, unstake_amount: c.u }.data();
        let r = guarded(|| rt::call(gmsol_liquidity_provider::entry, &pid, infos, &data));
        let cpis = rt::take_cpis();
        let (ok, panic, err) = match r {
            Ok(Ok(())) => (true, false, String::new()),
            Ok(Err(e)) => (false, false, format!("{e:?}")),
            Err(()) => (false, true, "panic".into()),
        };
        let mut transfer = 0u64;
        let mut closes = 0;
        let mut minted = 0u64;
        if ok {
            for c in &cpis {
                if c.program_id == tp && c.data.first() == Some(&12) {
                    assert_eq!(c.metas[0].0, vault_k, "transfer source is the position vault");
                    assert_eq!(c.metas[2].0, user_lp.key(), "transfer destination is the owner's token account");
                    transfer += u64::from_le_bytes(c.data[1..9].try_into().unwrap());
                } else if c.program_id == tp && c.data.first() == Some(&9) {
                    closes += 1;
                } else if c.program_id == sid && c.data[..8] == *gmsol_store::instruction::MintGtReward::DISCRIMINATOR {
                    minted = u64::from_le_bytes(c.data[8..16].try_into().unwrap());
                }
            }
        }
        // the position after the instruction (a failed instruction leaves it as it was)
        let closed = ok && position.owner() == system_program::ID && position.data().is_empty();
        let (amount2, value2) = if !ok {
            (c.amount, c.value)
        } else if closed {
            (0, 0)
        } else {
            let p = Position::try_deserialize(&mut &position.data()[..]).expect("position readable");
            (p.staked_amount, p.staked_value_usd as u64)
        };
        let positions_left = if ok { LpTokenController::try_deserialize(&mut &controller.data()[..]).map(|c| c.total_positions).unwrap_or(99) } else { 1 };
        sink.emit(json!({"op": "unstake", "panic": panic, "ok": ok, "err": err, "amount": c.amount, "value": c.value, "claim": c.claim,
                         "minv": c.minv, "vault": c.vault, "u": c.u, "full": closed, "transfer": transfer, "amount2": amount2,
                         "value2": value2, "vault_closed": closes, "positions_left": positions_left, "reward_minted": minted}));
    }

    pub fn main(args: &Args) -> i32 {
        let mut sink = Sink::create(&args.str("out", "c38-unstake.ndjson"));
        // the model's finite domain
        for amount in 1..=6u64 {
            for value in 0..=12u64 {
                for u in 0..=7u64 {
                    for claim in [false, true] {
                        for minv in [0u64, 3] {
                            for dust in [0u64, 2] {
                                run_case(&Case { amount, value, claim, minv, vault: amount + dust, u, integral: 0 }, &mut sink);
                            }
                        }
                    }
                }
            }
        }
        let mut rng = Rng::new(args.num("seed", 1));
        for _ in 0..args.num("n", 2000) {
            let amount = rng.range(1, 40_000) as u64;
            let value = rng.below(50_000); // value * amount < 2^31
            let u = match rng.below(6) {
                0 => amount,
                1 => amount + rng.below(3),
                2 => 0,
                _ => rng.range(1, amount as i64) as u64,
            };
            let minv = if rng.chance(1, 2) { 0 } else { rng.below(value + 2) };
            run_case(&Case { amount, value, claim: !rng.chance(1, 3), minv, vault: amount + if rng.chance(1, 4) { rng.below(50) } else { 0 }, u,
                             integral: if rng.chance(1, 2) { 0 } else { rng.below(1_000_000) } }, &mut sink);
        }
        eprintln!("events {}", sink.finish());
        0
    }
}

fn main() {
    h_aux::util::quiet_panics();
    h_aux::rt::install();
    h_aux::rt::silence_stdout();
    let (mode, args) = Args::from_env();
    let _: Option<Value> = None;
    let code = match mode.as_str() {
        "small" => small(&args),
        "random" => random(&args),
        "wide" => wide(&args),
        "unstake" => unstake::main(&args),
        _ => 2,
    };
    std::process::exit(code);
}
