//! C37: treasury GT bank claims and treasury factors.
//!
//! Claims are REAL `complete_gt_exchange` instructions executed by `gmsol_treasury::entry` on
//! fabricated accounts (store, treasury config, treasury vault config, confirmed GT bank, a GT exchange
//! of the claimant, SPL mints, the bank's associated token accounts, the claimant's token accounts).
//! The two callees are mocked by the CPI stub: the store's `close_gt_exchange` answers Ok, the token
//! program's `transfer_checked` answers Ok; every CPI is recorded, the paid amounts of an event are
//! the amounts of the transfer instructions the program issued.  The bank is read back from the
//! account data (public getters + hook for the remaining confirmed GT).
//! Factors: `Config::set_gt_factor` / `set_buyback_factor` through the hook, read back by the getters.
//!
//! modes:
//!   enum   --bmax B --gmax G --out f     every bank of 2 tokens x balances 0..B, 3 claimants x GT 0..G,
//!                                        every claim order (shared prefixes executed once)
//!   random --seed S --n N --out f        random banks (1..4 tokens), claims, over-claims, deposits
//!   factors --out f                      factor updates around 100%
use anchor_lang::{prelude::Pubkey, Discriminator, InstructionData};
use gmsol_treasury::states::{config::verif as cfgv, gt_bank::verif as bankv, Config, GtBank, TreasuryVaultConfig};
use h_aux::rt::{self, Acct};
use h_aux::util::{guarded, Args, Rng, Sink};
use serde_json::{json, Value};
use std::str::FromStr;

const UNIT18: u128 = 1_000_000_000_000_000_000;

fn token_program() -> Pubkey {
    Pubkey::from_str("TokenkegQfeZyiNwAJbNbGKPFXCWuBvf9Ss623VQ5DA").unwrap()
}
fn token_2022_program() -> Pubkey {
    Pubkey::from_str("TokenzQdBNbLqP5VEhdkAS6EPFLC1PHnBqCXEpPxuEb").unwrap()
}
fn ata_program() -> Pubkey {
    Pubkey::from_str("ATokenGPvbdGVxr1b2hvZbsiqW5xWH25efTNsLJA8knL").unwrap()
}

fn mint_data(decimals: u8) -> Vec<u8> {
    let mut d = vec![0u8; 82];
    d[44] = decimals; // mint_authority COption (36) + supply (8)
    d[45] = 1; // is_initialized
    d
}
fn token_account_data(mint: &Pubkey, owner: &Pubkey, amount: u64) -> Vec<u8> {
    let mut d = vec![0u8; 165];
    d[0..32].copy_from_slice(mint.as_ref());
    d[32..64].copy_from_slice(owner.as_ref());
    d[64..72].copy_from_slice(&amount.to_le_bytes());
    d[108] = 1; // AccountState::Initialized
    d
}
fn zero_copy_data<T: bytemuck::Pod + Discriminator>(x: &T) -> Vec<u8> {
    let mut d = T::DISCRIMINATOR.to_vec();
    d.extend_from_slice(bytemuck::bytes_of(x));
    d
}

struct World {
    ntok: usize,
    owner: Acct,
    store: Acct,
    config: Acct,
    tvc: Acct,
    gt_vault: Acct,
    bank: Acct,
    exchange: Acct,
    store_prog: Acct,
    token_prog: Acct,
    token22_prog: Acct,
    mints: Vec<Acct>,
    vaults: Vec<Acct>,
    targets: Vec<Acct>,
}

impl World {
    fn new(balances: &[u64], confirmed_gt: u64) -> World {
        let tid = gmsol_treasury::ID;
        let sid = gmsol_store::ID;
        let owner_k = rt::key(0x01, 1);
        let store_k = rt::key(0x02, 1);
        let config_k = rt::key(0x03, 1);
        let tvc_k = rt::key(0x04, 1);
        let gtv_k = rt::key(0x05, 1);
        let bank_k = rt::key(0x06, 1);
        let exch_k = rt::key(0x07, 1);
        // store: zeroed (last_restarted_slot = 0 = the stub's last restart slot)
        let store = rt::zeroed_box::<gmsol_store::states::Store>();
        let store_a = Acct::new(store_k, sid, 1_000_000, &zero_copy_data(&*store));
        // treasury config: private fields written at their #[repr(C)] offsets, checked through the getters
        let mut cfg = zero_copy_data(&*rt::zeroed_box::<Config>());
        cfg[8 + 16..8 + 48].copy_from_slice(store_k.as_ref());
        cfg[8 + 48..8 + 80].copy_from_slice(tvc_k.as_ref());
        let config_a = Acct::new(config_k, tid, 1_000_000, &cfg);
        {
            let d = config_a.data();
            let mut c = rt::zeroed_box::<Config>();
            bytemuck::bytes_of_mut(&mut *c).copy_from_slice(&d[8..]);
            assert_eq!(c.treasury_vault_config(), Some(&tvc_k), "Config layout changed");
        }
        let mut tvc = zero_copy_data(&*rt::zeroed_box::<TreasuryVaultConfig>());
        tvc[8 + 16..8 + 48].copy_from_slice(config_k.as_ref());
        let tvc_a = Acct::new(tvc_k, tid, 1_000_000, &tvc);
        // confirmed GT bank through the program's own state functions
        let mut bank = rt::zeroed_box::<GtBank>();
        bankv::try_init(&mut bank, 254, tvc_k, gtv_k).expect("bank init");
        let tp = token_program();
        let mut mints = vec![];
        let mut vaults = vec![];
        let mut targets = vec![];
        let mut keys: Vec<Pubkey> = (0..balances.len()).map(|i| rt::key(0x10, i as u32 + 1)).collect();
        keys.sort(); // the bank keeps its tokens sorted by key; keep index = position
        for (i, b) in balances.iter().enumerate() {
            bankv::record_transferred_in(&mut bank, &keys[i], *b).expect("record in");
        }
        bankv::confirm_unchecked(&mut bank, confirmed_gt).expect("confirm");
        for (i, k) in keys.iter().enumerate() {
            mints.push(Acct::new(*k, tp, 1_000_000, &mint_data(6)));
            let (ata, _) = Pubkey::find_program_address(&[bank_k.as_ref(), tp.as_ref(), k.as_ref()], &ata_program());
            vaults.push(Acct::new(ata, tp, 1_000_000, &token_account_data(k, &bank_k, balances[i])));
            targets.push(Acct::new(rt::key(0x20, i as u32 + 1), tp, 1_000_000, &token_account_data(k, &owner_k, 0)));
        }
        let bank_a = Acct::new(bank_k, tid, 1_000_000, &zero_copy_data(&*bank));
        let mut ex = zero_copy_data(&*rt::zeroed_box::<gmsol_store::states::gt::GtExchange>());
        ex[8 + 16..8 + 48].copy_from_slice(owner_k.as_ref());
        ex[8 + 48..8 + 80].copy_from_slice(store_k.as_ref());
        ex[8 + 80..8 + 112].copy_from_slice(gtv_k.as_ref());
        let w = World {
            ntok: balances.len(),
            owner: Acct::new(owner_k, anchor_lang::system_program::ID, 1_000_000, &[]),
            store: store_a,
            config: config_a,
            tvc: tvc_a,
            gt_vault: Acct::new(gtv_k, sid, 1_000_000, &[]),
            bank: bank_a,
            exchange: Acct::new(exch_k, sid, 1_000_000, &ex),
            store_prog: Acct::program(sid),
            token_prog: Acct::program(tp),
            token22_prog: Acct::program(token_2022_program()),
            mints,
            vaults,
            targets,
        };
        assert_eq!(w.tokens(), keys, "bank token order");
        w
    }

    fn with_bank<R>(&self, f: impl FnOnce(&GtBank) -> R) -> R {
        let d = self.bank.data();
        // the Vec copy is not 16-aligned in general: copy into an aligned box
        let mut b = rt::zeroed_box::<GtBank>();
        bytemuck::bytes_of_mut(&mut *b).copy_from_slice(&d[8..]);
        f(&b)
    }
    fn tokens(&self) -> Vec<Pubkey> {
        self.with_bank(|b| b.tokens().collect())
    }
    fn project(&self) -> Value {
        let toks = self.tokens();
        self.with_bank(|b| {
            let bal: Vec<u64> = toks.iter().map(|t| b.get_balance(t).unwrap()).collect();
            json!({"bal": bal, "rem": bankv::remaining_confirmed_gt_amount(b)})
        })
    }
    fn set_exchange_amount(&mut self, gt: u64) {
        let mut d = self.exchange.data();
        d[8 + 8..8 + 16].copy_from_slice(&gt.to_le_bytes());
        self.exchange.set_data(&d);
        let mut e = rt::zeroed_box::<gmsol_store::states::gt::GtExchange>();
        bytemuck::bytes_of_mut(&mut *e).copy_from_slice(&self.exchange.data()[8..]);
        assert_eq!(e.amount(), gt, "GtExchange layout changed");
    }
    fn deposit(&mut self, t: usize, amount: u64) -> bool {
        let toks = self.tokens();
        let d = self.bank.data();
        let mut b = rt::zeroed_box::<GtBank>();
        bytemuck::bytes_of_mut(&mut *b).copy_from_slice(&d[8..]);
        let ok = bankv::record_transferred_in(&mut b, &toks[t], amount).is_ok();
        let mut nd = d[..8].to_vec();
        nd.extend_from_slice(bytemuck::bytes_of(&*b));
        self.bank.set_data(&nd);
        ok
    }

    /// the real instruction; returns (result, per-token amounts of the issued token transfers)
    fn claim(&mut self, gt: u64) -> (Result<(), String>, Vec<u64>, usize) {
        self.set_exchange_amount(gt);
        rt::take_cpis();
        let mut infos = vec![
            self.owner.info(true, false),
            self.store.info(false, false),
            self.config.info(false, false),
            self.tvc.info(false, false),
            self.gt_vault.info(false, true),
            self.bank.info(false, true),
            self.exchange.info(false, true),
            self.store_prog.info(false, false),
            self.token_prog.info(false, false),
            self.token22_prog.info(false, false),
        ];
        for m in &self.mints {
            infos.push(m.info(false, false));
        }
        for v in &self.vaults {
            infos.push(v.info(false, true));
        }
        for t in &self.targets {
            infos.push(t.info(false, true));
        }
        let data = gmsol_treasury::instruction::CompleteGtExchange {}.data();
        let r = rt::call(gmsol_treasury::entry, &gmsol_treasury::ID, infos, &data).map_err(|e| format!("{e:?}"));
        let cpis = rt::take_cpis();
        let mut paid = vec![0u64; self.ntok];
        let mut closes = 0usize;
        let tp = token_program();
        for c in &cpis {
            if c.program_id == tp && c.data.first() == Some(&12) {
                // TransferChecked { amount, decimals }: metas = [source, mint, destination, authority]
                let amount = u64::from_le_bytes(c.data[1..9].try_into().unwrap());
                let mint = c.metas[1].0;
                let i = self.mints.iter().position(|m| m.key() == mint).expect("transfer of a bank token");
                assert_eq!(c.metas[0].0, self.vaults[i].key(), "transfer source is the bank vault");
                assert_eq!(c.metas[2].0, self.targets[i].key(), "transfer destination is the claimant's account");
                paid[i] += amount;
            } else if c.program_id == gmsol_store::ID {
                closes += 1;
            }
        }
        (r, paid, closes)
    }
}

/// `alldone`: with this claim every claimant of the history has claimed (and nothing was deposited meanwhile)
fn claim_event(w: &mut World, gt: u64, init: &Value, reset: bool, alldone: bool, sink: &mut Sink) {
    let pre = w.project();
    let snap = w.bank.data();
    let r = guarded(|| w.claim(gt));
    let (ok, panic, err, paid, closes) = match r {
        Ok((Ok(()), paid, closes)) => (true, false, String::new(), paid, closes),
        Ok((Err(e), paid, closes)) => (false, false, e, paid, closes),
        Err(()) => (false, true, "panic".into(), vec![0; w.ntok], 0),
    };
    // a failed instruction is rolled back by the runtime: account writes and CPIs of the failed
    // transaction do not exist
    let paid = if ok { paid } else { vec![0; w.ntok] };
    if !ok {
        w.bank.set_data(&snap);
    }
    let post = w.project();
    // failures produced by the bank's own bookkeeping (record_transferred_out / record_claimed)
    let code = |e: gmsol_store::CoreError| format!("Custom({})", u32::from(e));
    let errclass = if ok {
        ""
    } else if err == code(gmsol_store::CoreError::NotEnoughTokenAmount) || err == code(gmsol_store::CoreError::TokenAmountOverflow) {
        "bank"
    } else {
        "other"
    };
    sink.emit(json!({"op": "claim", "errclass": errclass, "alldone": alldone, "reset": reset, "panic": panic, "gt": gt, "ok": ok, "err": err, "pre": pre, "post": post,
                     "paid": paid, "init": init, "closes": closes}));
}

fn perms3() -> Vec<[usize; 3]> {
    vec![[0, 1, 2], [0, 2, 1], [1, 0, 2], [1, 2, 0], [2, 0, 1], [2, 1, 0]]
}

fn enumerate(args: &Args) -> i32 {
    let bmax = args.num("bmax", 12);
    let gmax = args.num("gmax", 4);
    let mut sink = Sink::create(&args.str("out", "c37-enum.ndjson"));
    for b1 in 0..=bmax {
        for b2 in 0..=bmax {
            for g1 in 0..=gmax {
                for g2 in 0..=gmax {
                    for g3 in 0..=gmax {
                        let gts = [g1, g2, g3];
                        let mut w = World::new(&[b1, b2], g1 + g2 + g3);
                        let init = w.project();
                        let root = w.bank.data();
                        // claim orders as a prefix tree: each distinct prefix executed once
                        let mut seen: std::collections::HashMap<Vec<usize>, Vec<u8>> = Default::default();
                        seen.insert(vec![], root);
                        for p in perms3() {
                            for k in 1..=3 {
                                let pre: Vec<usize> = p[..k].to_vec();
                                if seen.contains_key(&pre) {
                                    continue;
                                }
                                let parent = seen.get(&pre[..k - 1]).unwrap().clone();
                                w.bank.set_data(&parent);
                                claim_event(&mut w, gts[pre[k - 1]], &init, k == 1, k == 3, &mut sink);
                                seen.insert(pre, w.bank.data());
                            }
                        }
                        // somebody else's larger exchange against the fresh bank
                        let root = seen.get(&vec![]).unwrap().clone();
                        w.bank.set_data(&root);
                        claim_event(&mut w, g1 + g2 + g3 + 1, &init, true, false, &mut sink);
                    }
                }
            }
        }
    }
    eprintln!("events {}", sink.finish());
    0
}

fn random(args: &Args) -> i32 {
    let runs = args.num("n", 300);
    let mut rng = Rng::new(args.num("seed", 1));
    let mut sink = Sink::create(&args.str("out", "c37-random.ndjson"));
    for _ in 0..runs {
        let ntok = rng.range(1, 4) as usize;
        let big = rng.chance(1, 3);
        let bals: Vec<u64> = (0..ntok)
            .map(|_| if rng.chance(1, 6) { 0 } else if big { rng.below(40_000) } else { rng.below(60) })
            .collect();
        let ncl = rng.range(1, 6) as usize;
        // keep balance * gt < 2^31 for TLC
        let gcap = if big { 40 } else { 30 };
        let mut gts: Vec<u64> = (0..ncl).map(|_| if rng.chance(1, 8) { 0 } else { rng.below(gcap) + 1 }).collect();
        let total: u64 = gts.iter().sum();
        let mut w = World::new(&bals, total);
        let init = w.project();
        // random order
        for i in (1..gts.len()).rev() {
            gts.swap(i, rng.below(i as u64 + 1) as usize);
        }
        let mut first = true;
        let mut deposited = false;
        let last = gts.len() - 1;
        for (gi, g) in gts.into_iter().enumerate() {
            if rng.chance(1, 6) {
                // an exchange that is larger than what remains (not part of the confirmed total)
                let rem = w.project()["rem"].as_u64().unwrap();
                claim_event(&mut w, rem + rng.below(3) + 1, &init, first, false, &mut sink);
                first = false;
            }
            if rng.chance(1, 7) {
                let t = rng.below(ntok as u64) as usize;
                let amount = rng.below(20);
                let pre = w.project();
                let ok = w.deposit(t, amount);
                deposited = true;
                let post = w.project();
                sink.emit(json!({"op": "deposit", "reset": first, "panic": false, "t": t + 1, "amount": amount, "ok": ok,
                                 "pre": pre, "post": post}));
                first = false;
            }
            claim_event(&mut w, g, &init, first, gi == last && !deposited, &mut sink);
            first = false;
        }
    }
    eprintln!("events {}", sink.finish());
    0
}

fn fac(f: u128) -> Value {
    // q = whole percents (clamped), r = remainder below one percent as a decimal string (equality only)
    json!({"q": (f / UNIT18).min(1_000_000) as u64, "r": (f % UNIT18).to_string()})
}

fn factors(args: &Args) -> i32 {
    let mut sink = Sink::create(&args.str("out", "c37-factors.ndjson"));
    let mut rng = Rng::new(args.num("seed", 1));
    let one: u128 = gmsol_store::constants::MARKET_USD_UNIT;
    assert_eq!(one, 100 * UNIT18);
    let mut cands: Vec<u128> = vec![0, 1, UNIT18, 50 * UNIT18, 99 * UNIT18, one - 1, one, one + 1, 101 * UNIT18, 2 * one, u128::MAX, u128::MAX / 2, one + UNIT18 - 1];
    for k in 0..=120u128 {
        cands.push(k * UNIT18);
    }
    let mut cfg = rt::zeroed_box::<Config>();
    let n = args.num("n", 2000);
    for i in 0..n {
        let f = if (i as usize) < cands.len() * 2 { cands[(i as usize) / 2] } else { rng.pick(&cands).saturating_add(if rng.chance(1, 5) { rng.below(3) as u128 } else { 0 }) };
        let which = if i % 2 == 0 { "set_gt_factor" } else { "set_buyback_factor" };
        let pre = json!({"gt": fac(cfg.gt_factor()), "bb": fac(cfg.buyback_factor())});
        let r = guarded(|| if which == "set_gt_factor" { cfgv::set_gt_factor(&mut cfg, f) } else { cfgv::set_buyback_factor(&mut cfg, f) });
        let (ok, panic) = match r {
            Ok(Ok(_)) => (true, false),
            Ok(Err(_)) => (false, false),
            Err(()) => (false, true),
        };
        let post = json!({"gt": fac(cfg.gt_factor()), "bb": fac(cfg.buyback_factor())});
        sink.emit(json!({"op": which, "reset": i == 0, "panic": panic, "new": fac(f), "news": f.to_string(), "ok": ok, "pre": pre, "post": post}));
    }
    eprintln!("events {}", sink.finish());
    0
}

fn main() {
    h_aux::util::quiet_panics();
    rt::install();
    rt::silence_stdout();
    let (mode, args) = Args::from_env();
    let code = match mode.as_str() {
        "enum" => enumerate(&args),
        "random" => random(&args),
        "factors" => factors(&args),
        _ => 2,
    };
    std::process::exit(code);
}
