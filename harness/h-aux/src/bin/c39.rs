//! C39: competition leaderboard and time extension, bound to the REAL program: every operation is a
//! call of `gmsol_competition::entry` with an `on_executed` instruction on fabricated accounts
//! (callback authority PDA of the store program as signer, `Competition`, `Participant` PDAs,
//! a store-owned `TradeData` account).  No CPI is involved.  The abstract state is read back from the
//! account data after every call.
//!
//! modes:
//!   replay --in paths.ndjson --out trace.ndjson   paths printed by MC_Leaderboard (one per state)
//!   random --seed S --n N --out trace.ndjson      N random runs (random configuration each)
use anchor_lang::{
    prelude::Pubkey, AccountDeserialize, AccountSerialize, Discriminator, InstructionData, Space,
};
use gmsol_competition::states::{Competition, LeaderEntry, Participant, PARTICIPANT_SEED};
use h_aux::rt::{self, Acct};
use h_aux::util::{guarded, Args, Rng, Sink};
use serde_json::{json, Value};
use std::collections::HashMap;

#[derive(Clone, Debug)]
struct Cfg {
    start: i64,
    thr: u128,
    ext: i64,
    cap: i64,
    win: i64,
    inc: bool,
}

impl Cfg {
    fn json(&self) -> Value {
        json!({"start": self.start, "thr": self.thr as u64, "ext": self.ext, "cap": self.cap, "win": self.win, "inc": self.inc})
    }
    fn from_json(v: &Value) -> Cfg {
        Cfg {
            start: v["start"].as_i64().unwrap(),
            thr: v["thr"].as_u64().unwrap() as u128,
            ext: v["ext"].as_i64().unwrap(),
            cap: v["cap"].as_i64().unwrap(),
            win: v["win"].as_i64().unwrap(),
            inc: v["inc"].as_bool().unwrap(),
        }
    }
}

#[derive(Clone, Debug)]
struct Call {
    t: usize, // 1-based trader
    before: u128,
    after: u128,
    now: i64,
    success: bool,
    hasev: bool,
}

struct World {
    cfg: Cfg,
    authority: Acct,
    bump: u8,
    comp: Acct,
    traders: Vec<Acct>,
    parts: Vec<Acct>,
    action: Acct,
    position: Acct,
    trade: Acct,
    none: Acct,
    index: HashMap<Pubkey, usize>,
}

type Snapshot = (Vec<u8>, Vec<Vec<u8>>);

fn ser<T: AccountSerialize>(x: &T, space: usize) -> Vec<u8> {
    let mut v = Vec::new();
    x.try_serialize(&mut v).expect("serialize");
    assert!(v.len() <= space);
    v.resize(space, 0);
    v
}

impl World {
    fn new(cfg: Cfg, n: usize, end0: i64) -> World {
        let pid = gmsol_competition::ID;
        let store = gmsol_store::ID;
        let (auth, bump) = Pubkey::find_program_address(&[gmsol_callback::CALLBACK_AUTHORITY_SEED], &store);
        let comp_key = rt::key(0xC0, 1);
        let comp = Competition {
            bump: 255,
            authority: rt::key(0xA0, 0),
            start_time: cfg.start,
            end_time: end0,
            leaderboard: vec![],
            volume_threshold: cfg.thr,
            extension_duration: cfg.ext,
            extension_cap: cfg.cap,
            extension_triggerer: None,
            only_count_increase: cfg.inc,
            volume_merge_window: cfg.win,
        };
        let comp_acct = Acct::new(comp_key, pid, 1_000_000, &ser(&comp, 8 + Competition::INIT_SPACE));
        let mut traders = vec![];
        let mut parts = vec![];
        let mut index = HashMap::new();
        for i in 1..=n {
            let tk = rt::key(0x70, i as u32);
            let (pk, pb) = Pubkey::find_program_address(&[PARTICIPANT_SEED, comp_key.as_ref(), tk.as_ref()], &pid);
            let p = Participant { bump: pb, competition: comp_key, trader: tk, volume: 0, last_updated_at: 0, merged_volume: 0 };
            parts.push(Acct::new(pk, pid, 1_000_000, &ser(&p, 8 + Participant::INIT_SPACE)));
            traders.push(Acct::new(tk, anchor_lang::system_program::ID, 1, &[]));
            index.insert(tk, i);
        }
        // store-owned TradeData account (zero-copy, u128 fields: the account buffer keeps it aligned)
        let td = rt::zeroed_box::<gmsol_store::events::TradeData>();
        let mut data = gmsol_store::events::TradeData::DISCRIMINATOR.to_vec();
        data.extend_from_slice(bytemuck::bytes_of(&*td));
        World {
            cfg,
            authority: Acct::new(auth, anchor_lang::system_program::ID, 0, &[]),
            bump,
            comp: comp_acct,
            traders,
            parts,
            action: Acct::new(rt::key(0xAC, 0), store, 1, &[]),
            position: Acct::new(rt::key(0xB0, 0), store, 1, &[]),
            trade: Acct::new(rt::key(0xE0, 0), store, 1_000_000, &data),
            none: Acct::program(pid),
            index,
        }
    }

    fn snapshot(&self) -> Snapshot {
        (self.comp.data(), self.parts.iter().map(|p| p.data()).collect())
    }
    fn restore(&mut self, s: &Snapshot) {
        self.comp.set_data(&s.0);
        for (p, d) in self.parts.iter_mut().zip(s.1.iter()) {
            p.set_data(d);
        }
    }

    /// the abstract state, read from the account data
    fn project(&self) -> Value {
        let c = Competition::try_deserialize(&mut &self.comp.data()[..]).expect("competition account readable");
        let mut vol = vec![];
        let mut merged = vec![];
        let mut last = vec![];
        for p in &self.parts {
            let p = Participant::try_deserialize(&mut &p.data()[..]).expect("participant account readable");
            vol.push(p.volume as u64);
            merged.push(p.merged_volume as u64);
            last.push(p.last_updated_at);
        }
        let board: Vec<Value> = c
            .leaderboard
            .iter()
            .map(|e: &LeaderEntry| json!({"a": self.index.get(&e.address).copied().unwrap_or(0), "v": e.volume as u64}))
            .collect();
        json!({"vol": vol, "merged": merged, "last": last, "board": board, "end": c.end_time})
    }

    /// one real `on_executed`; Ok(()) / Err(code string)
    fn on_executed(&mut self, c: &Call) -> Result<(), String> {
        rt::set_now(c.now);
        // fabricate the trade event of this order
        {
            let mut td = rt::zeroed_box::<gmsol_store::events::TradeData>();
            td.user = self.traders[c.t - 1].key();
            td.before.size_in_usd = c.before;
            td.after.size_in_usd = c.after;
            let mut data = gmsol_store::events::TradeData::DISCRIMINATOR.to_vec();
            data.extend_from_slice(bytemuck::bytes_of(&*td));
            self.trade.set_data(&data);
        }
        let infos = vec![
            self.authority.info(true, false),
            self.comp.info(false, true),
            self.parts[c.t - 1].info(false, true),
            self.traders[c.t - 1].info(false, false),
            self.action.info(false, false),
            self.position.info(false, false),
            if c.hasev { self.trade.info(false, false) } else { self.none.info(false, false) },
        ];
        let data = gmsol_competition::instruction::OnExecuted {
            authority_bump: self.bump,
            action_kind: gmsol_callback::types::ActionKind::Order as u8,
            callback_version: 0,
            success: c.success,
            extra_account_count: 2,
        }
        .data();
        rt::call(gmsol_competition::entry, &gmsol_competition::ID, infos, &data).map_err(|e| format!("{e:?}"))
    }
}

fn call_from_json(v: &Value) -> Call {
    Call {
        t: v["t"].as_u64().unwrap() as usize,
        before: v["before"].as_u64().unwrap() as u128,
        after: v["after"].as_u64().unwrap() as u128,
        now: v["now"].as_i64().unwrap(),
        success: v["success"].as_bool().unwrap(),
        hasev: v["hasev"].as_bool().unwrap(),
    }
}

fn exec_and_log(w: &mut World, c: &Call, reset: bool, sink: &mut Sink) {
    let pre = w.project();
    let r = guarded(|| w.on_executed(c));
    let (ok, panic, err) = match r {
        Ok(Ok(())) => (true, false, String::new()),
        Ok(Err(e)) => (false, false, e),
        Err(()) => (false, true, "panic".into()),
    };
    let post = w.project();
    sink.emit(json!({
        "op": "on_executed", "reset": reset, "c": w.cfg.json(), "t": c.t, "before": c.before as u64,
        "after": c.after as u64, "now": c.now, "success": c.success, "hasev": c.hasev,
        "ok": ok, "panic": panic, "err": err, "pre": pre, "post": post,
    }));
}

/// Replay TLC's paths (one shortest path per distinct state, prefix closed): every path's last call
/// is executed on the snapshot its parent path left, so each distinct state of the model is reached
/// by the real program exactly once.
fn replay(args: &Args) -> i32 {
    let text = std::fs::read_to_string(args.str("in", "paths.ndjson")).expect("read paths");
    let mut rows: Vec<Value> = text.lines().filter(|l| !l.trim().is_empty()).map(|l| serde_json::from_str(l).unwrap()).collect();
    rows.sort_by_key(|r| r["path"].as_array().unwrap().len());
    let mut sink = Sink::create(&args.str("out", "c39-replay.ndjson"));
    if rows.is_empty() {
        eprintln!("no paths");
        return 2;
    }
    let cfg = Cfg::from_json(&rows[0]["c"]);
    let n = rows[0]["n"].as_u64().unwrap() as usize;
    let end0 = rows[0]["end0"].as_i64().unwrap();
    let mut w = World::new(cfg, n, end0);
    let mut snaps: HashMap<String, Snapshot> = HashMap::new();
    snaps.insert("[]".into(), w.snapshot());
    let mut missing = 0usize;
    for r in &rows {
        let path = r["path"].as_array().unwrap();
        let parent = Value::Array(path[..path.len() - 1].to_vec()).to_string();
        let Some(s) = snaps.get(&parent) else {
            // the model's fixed prefix (or a parent printed with another path): replay from the root
            missing += 1;
            let s0 = snaps.get("[]").unwrap().clone();
            w.restore(&s0);
            for c in &path[..path.len() - 1] {
                let _ = guarded(|| w.on_executed(&call_from_json(c)));
            }
            snaps.insert(parent, w.snapshot());
            let c = call_from_json(&path[path.len() - 1]);
            exec_and_log(&mut w, &c, true, &mut sink);
            snaps.insert(Value::Array(path.to_vec()).to_string(), w.snapshot());
            continue;
        };
        let s = s.clone();
        w.restore(&s);
        let c = call_from_json(&path[path.len() - 1]);
        exec_and_log(&mut w, &c, path.len() == 1, &mut sink);
        snaps.insert(Value::Array(path.to_vec()).to_string(), w.snapshot());
    }
    eprintln!("events {} rerooted {}", sink.finish(), missing);
    0
}

fn random(args: &Args) -> i32 {
    let runs = args.num("n", 200);
    let len = args.num("len", 40);
    let mut rng = Rng::new(args.num("seed", 1));
    let mut sink = Sink::create(&args.str("out", "c39-random.ndjson"));
    for _ in 0..runs {
        let start = rng.range(5, 50);
        let ext = rng.range(1, 30);
        let cfg = Cfg {
            start,
            thr: rng.range(1, 60) as u128,
            ext,
            cap: ext + rng.range(0, 30),
            win: rng.range(1, 10),
            inc: rng.chance(1, 3),
        };
        let n = rng.range(2, 9) as usize;
        let end0 = start + rng.range(1, 40);
        let big = rng.chance(1, 4);
        let mut w = World::new(cfg, n, end0);
        let mut now = start - rng.range(0, 2);
        for k in 0..len {
            now += match rng.below(6) {
                0 | 1 => 0,
                2 | 3 => 1,
                4 => rng.range(1, 6),
                _ => rng.range(1, 25),
            };
            let v = if big { rng.range(1, 1_000_000) } else { rng.range(1, 20) } as u128;
            let base = if rng.chance(1, 4) { rng.range(0, 30) as u128 } else { 0 };
            let (before, after) = match rng.below(10) {
                0 => (base + v, base),
                1 => (base, base),
                _ => (base, base + v),
            };
            let c = Call {
                t: rng.range(1, n as i64) as usize,
                before,
                after,
                now,
                success: !rng.chance(1, 15),
                hasev: !rng.chance(1, 15),
            };
            exec_and_log(&mut w, &c, k == 0, &mut sink);
        }
    }
    eprintln!("events {}", sink.finish());
    0
}

fn main() {
    h_aux::util::quiet_panics();
    rt::install();
    rt::silence_stdout();
    let (mode, args) = Args::from_env();
    let code = match mode.as_str() {
        "replay" => replay(&args),
        "random" => random(&args),
        _ => 2,
    };
    std::process::exit(code);
}
