//! C45: GLV composition and pricing.
//!
//! Bound to code:
//!   * `Glv::{unchecked_init, insert_market, update_market_config, validate_market_token_balance,
//!     update_market_token_balance}` of programs/store (hook `states::glv::verif`) on a real zero-copy `Glv`
//!     and real `Market` structs (`Market::init`);
//!   * `gmsol_model::glv::{get_glv_value_for_market, get_market_token_amount_for_glv_value}` and
//!     `utils::{usd_to_market_token_amount, market_token_amount_to_usd}` on the model crate's market
//!     implementation `h_model::vmarket::TestMarket<u64, 1>` (small world, Unit = 10);
//!     the pool values logged as market views come from the real `pool_value`.
//! NOT executed: programs/store/src/ops/glv.rs.  The order of the pricing steps of
//! perform_glv_deposit / perform_glv_withdrawal (which value is maximised / minimised, which balance is
//! validated) is transcribed into `World::deposit` / `World::withdraw` below.
//!
//! modes: small --out f | random --seed S --n N --out f
use anchor_lang::prelude::Pubkey;
use gmsol_model::{
    glv::{get_glv_value_for_market, get_market_token_amount_for_glv_value},
    price::{Price, Prices},
    utils::{market_token_amount_to_usd, usd_to_market_token_amount},
    LiquidityMarket, LiquidityMarketExt, PnlFactorKind,
};
use gmsol_store::states::{glv::verif as glvv, Glv, Market};
use h_aux::rt;
use h_aux::util::{guarded, Args, Rng, Sink};
use h_model::vmarket::TestMarket;
use serde_json::{json, Value};
use std::collections::BTreeSet;

#[path = "../../../h-model/src/shared/smallcfg.rs"]
mod smallcfg;

type M = TestMarket<u64, 1>;
const DIV: u64 = 1;

fn token(i: u32) -> Pubkey {
    rt::key(0x80, i)
}

/// a real store `Market` with the given token ids
fn store_market(store: &Pubkey, market_token: &Pubkey, long: u32, short: u32) -> Box<Market> {
    let mut m = rt::zeroed_box::<Market>();
    m.init(255, *store, "m", *market_token, token(900), token(long), token(short), true).expect("market init");
    m
}

#[derive(Clone)]
struct MarketState {
    m: M,
    prices: Prices<u64>,
}

struct World {
    store: Pubkey,
    glv: Box<Glv>,
    market_tokens: Vec<Pubkey>, // sorted, index = position in the GLV's map
    markets: Vec<MarketState>,
    supply: u64,
}

fn prices(idx: (u64, u64), long: (u64, u64), short: (u64, u64)) -> Prices<u64> {
    Prices {
        index_token_price: Price { min: idx.0, max: idx.1 },
        long_token_price: Price { min: long.0, max: long.1 },
        short_token_price: Price { min: short.0, max: short.1 },
    }
}

impl World {
    fn new(n: usize, glong: u32, gshort: u32) -> World {
        let store = rt::key(0x02, 7);
        let index = 3u16;
        let (glv_token, _) = Glv::find_glv_token_pda(&store, index, &gmsol_store::ID);
        let mut glv = rt::zeroed_box::<Glv>();
        glvv::unchecked_init(&mut glv, 254, index, &store, &glv_token, &token(glong), &token(gshort), &BTreeSet::new()).expect("glv init");
        let mut market_tokens: Vec<Pubkey> = (0..n).map(|i| rt::key(0x90, i as u32 + 1)).collect();
        market_tokens.sort();
        for mt in &market_tokens {
            let m = store_market(&store, mt, glong, gshort);
            glvv::insert_market(&mut glv, &store, &m).expect("insert");
        }
        assert_eq!(glv.market_tokens().collect::<Vec<_>>(), market_tokens, "GLV market order");
        let cfg = smallcfg::small_config::<1>();
        let markets = (0..n).map(|_| MarketState { m: smallcfg::small_market(cfg.clone()), prices: prices((1, 1), (1, 1), (1, 1)) }).collect();
        World { store, glv, market_tokens, markets, supply: 0 }
    }

    fn g(&self) -> Value {
        let cfgs: Vec<_> = self.market_tokens.iter().map(|t| *self.glv.market_config(t).expect("config")).collect();
        json!({"supply": self.supply,
               "bal": cfgs.iter().map(|c| c.balance()).collect::<Vec<_>>(),
               "maxAmount": cfgs.iter().map(|c| c.max_amount()).collect::<Vec<_>>(),
               "maxValue": cfgs.iter().map(|c| c.max_value() as u64).collect::<Vec<_>>()})
    }
    /// market views: pool values of the real model code; None if a pool value is not computable
    fn views(&self) -> Option<Value> {
        let mut out = vec![];
        for ms in &self.markets {
            let a = ms.m.pool_value(&ms.prices, PnlFactorKind::MaxAfterDeposit, true).ok()?;
            let b = ms.m.pool_value(&ms.prices, PnlFactorKind::MaxAfterDeposit, false).ok()?;
            let c = ms.m.pool_value(&ms.prices, PnlFactorKind::MaxAfterWithdrawal, true).ok()?;
            out.push(json!({"supply": ms.m.total_supply(), "pvDmax": a, "pvDmin": b, "pvWmax": c}));
        }
        Some(Value::Array(out))
    }
    fn balance(&self, i: usize) -> u64 {
        self.glv.market_config(&self.market_tokens[i]).unwrap().balance()
    }

    /// unchecked_get_glv_value
    fn glv_value(&self, maximize: bool) -> Result<u64, String> {
        let mut v = 0u64;
        for (j, ms) in self.markets.iter().enumerate() {
            let x = get_glv_value_for_market(&ms.prices, &ms.m, self.balance(j), maximize).map_err(|e| e.to_string())?;
            v = v.checked_add(x.market_token_value_in_glv).ok_or("value overflow")?;
        }
        Ok(v)
    }

    /// the pricing steps of perform_glv_deposit for `m` market tokens of market i
    /// -> (minted, glv_value, received_value)
    fn deposit(&mut self, i: usize, m: u64) -> Result<(u64, u64, u64), String> {
        let mt = self.market_tokens[i];
        let next = self.balance(i).checked_add(m).ok_or("balance overflow")?;
        let glv_value = self.glv_value(true)?;
        let ms = &self.markets[i];
        let received = get_glv_value_for_market(&ms.prices, &ms.m, m, false).map_err(|e| e.to_string())?.market_token_value_in_glv;
        let maximized = get_glv_value_for_market(&ms.prices, &ms.m, m, true).map_err(|e| e.to_string())?;
        glvv::validate_market_token_balance(&self.glv, &mt, next, &(maximized.pool_value as i128), &(maximized.supply as u128))
            .map_err(|e| format!("{e:?}"))?;
        let minted = usd_to_market_token_amount(received, glv_value, self.supply, DIV).ok_or("glv amount")?;
        let supply = self.supply.checked_add(minted).ok_or("supply overflow")?;
        glvv::update_market_token_balance(&mut self.glv, &mt, next).map_err(|e| format!("{e:?}"))?;
        self.supply = supply;
        Ok((minted, glv_value, received))
    }

    /// the pricing steps of perform_glv_withdrawal for `q` GLV tokens into market i
    /// -> (market token amount, glv_value, market_token_value)
    fn withdraw(&mut self, i: usize, q: u64) -> Result<(u64, u64, u64), String> {
        let mt = self.market_tokens[i];
        if q > self.supply {
            return Err("burn more than supply".into());
        }
        let glv_value = self.glv_value(false)?;
        let value = market_token_amount_to_usd(&q, &glv_value, &self.supply).ok_or("market token value")?;
        let ms = &self.markets[i];
        let amount = get_market_token_amount_for_glv_value(&ms.prices, &ms.m, value, true, DIV).map_err(|e| e.to_string())?;
        let next = self.balance(i).checked_sub(amount).ok_or("not enough market tokens")?;
        glvv::update_market_token_balance(&mut self.glv, &mt, next).map_err(|e| format!("{e:?}"))?;
        self.supply -= q;
        Ok((amount, glv_value, value))
    }

    fn save(&self) -> (Box<Glv>, u64) {
        let mut b = rt::zeroed_box::<Glv>();
        *b = *self.glv;
        (b, self.supply)
    }
    fn load(&mut self, s: &(Box<Glv>, u64)) {
        *self.glv = *s.0;
        self.supply = s.1;
    }
}

fn ev_deposit(w: &mut World, i: usize, m: u64, sink: &mut Sink) {
    let Some(mk) = w.views() else { return };
    let pre = w.g();
    let s = w.save();
    let r = guarded(|| w.deposit(i, m));
    let (ok, panic, err, out) = match r {
        Ok(Ok(o)) => (true, false, String::new(), o),
        Ok(Err(e)) => (false, false, e, (0, 0, 0)),
        Err(()) => (false, true, "panic".into(), (0, 0, 0)),
    };
    if !ok {
        w.load(&s);
    }
    sink.emit(json!({"op": "deposit", "panic": panic, "ok": ok, "err": err, "i": i + 1, "m": m, "mk": mk, "pre": pre, "post": w.g(),
                     "minted": out.0, "glvValue": out.1, "received": out.2}));
}

fn ev_withdraw(w: &mut World, i: usize, q: u64, sink: &mut Sink) {
    let Some(mk) = w.views() else { return };
    let pre = w.g();
    let s = w.save();
    let r = guarded(|| w.withdraw(i, q));
    let (ok, panic, err, out) = match r {
        Ok(Ok(o)) => (true, false, String::new(), o),
        Ok(Err(e)) => (false, false, e, (0, 0, 0)),
        Err(()) => (false, true, "panic".into(), (0, 0, 0)),
    };
    if !ok {
        w.load(&s);
    }
    sink.emit(json!({"op": "withdraw", "panic": panic, "ok": ok, "err": err, "i": i + 1, "q": q, "mk": mk, "pre": pre, "post": w.g(),
                     "amount": out.0, "glvValue": out.1, "value": out.2}));
}

/// deposit m, at once withdraw everything minted, then put the GLV back
fn ev_roundtrip(w: &mut World, i: usize, m: u64, sink: &mut Sink) {
    let Some(mk) = w.views() else { return };
    let pre = w.g();
    let s = w.save();
    let r = guarded(|| {
        let (minted, _, _) = w.deposit(i, m)?;
        let mid = w.g();
        let (returned, _, _) = w.withdraw(i, minted)?;
        Ok::<_, String>((minted, returned, mid))
    });
    let (ok, panic, err, minted, returned, mid) = match r {
        Ok(Ok((a, b, c))) => (true, false, String::new(), a, b, c),
        Ok(Err(e)) => (false, false, e, 0, 0, pre.clone()),
        Err(()) => (false, true, "panic".into(), 0, 0, pre.clone()),
    };
    w.load(&s);
    sink.emit(json!({"op": "roundtrip", "panic": panic, "ok": ok, "err": err, "i": i + 1, "m": m, "mk": mk, "pre": pre,
                     "minted": minted, "returned": returned, "mid": mid}));
}

fn ev_insert(glong: u32, gshort: u32, mlong: u32, mshort: u32, again: bool, sink: &mut Sink) {
    let mut w = World::new(1, glong, gshort);
    let mt = if again { w.market_tokens[0] } else { rt::key(0x91, 77) };
    let present = w.glv.contains(&mt);
    let m = store_market(&w.store, &mt, mlong, mshort);
    let store = w.store;
    let r = guarded(|| glvv::insert_market(&mut w.glv, &store, &m));
    let (ok, panic) = match r {
        Ok(Ok(())) => (true, false),
        Ok(Err(_)) => (false, false),
        Err(()) => (false, true),
    };
    // every market that is in the GLV afterwards was accepted with these tokens
    let listed = w.glv.contains(&mt);
    sink.emit(json!({"op": "insert", "panic": panic, "ok": ok, "glong": glong, "gshort": gshort, "mlong": mlong, "mshort": mshort,
                     "present": present, "listed": listed}));
}

fn set_market(ms: &mut MarketState, l: u64, s: u64, supply: u64, oi: (u64, u64), oit: (u64, u64), impact: u64, f: (u64, u64), p: Prices<u64>) {
    ms.m.primary.long_amount = l;
    ms.m.primary.short_amount = s;
    ms.m.total_supply = supply;
    ms.m.open_interest.0.long_amount = oi.0;
    ms.m.open_interest.1.long_amount = oi.1;
    ms.m.open_interest_in_tokens.0.long_amount = oit.0;
    ms.m.open_interest_in_tokens.1.long_amount = oit.1;
    ms.m.position_impact.long_amount = impact;
    ms.m.config.max_pnl_factors.deposit = f.0;
    ms.m.config.max_pnl_factors.withdrawal = f.1;
    ms.prices = p;
}

fn small(args: &Args) -> i32 {
    let mut sink = Sink::create(&args.str("out", "c45-small.ndjson"));
    // insert: every combination of token ids 1..3 for the GLV and the market, new and already listed
    for gl in 1..=3 {
        for gs in 1..=3 {
            for ml in 1..=3 {
                for msh in 1..=3 {
                    ev_insert(gl, gs, ml, msh, false, &mut sink);
                    ev_insert(gl, gs, ml, msh, true, &mut sink);
                }
            }
        }
    }
    // two markets; market 1 over a grid of states, market 2 fixed; GLV states and amounts over a grid
    let price_sets = [((1u64, 1u64), (1u64, 1u64)), ((2, 3), (2, 3)), ((1, 2), (3, 3)), ((3, 5), (2, 2))];
    for (l, s) in [(0u64, 0u64), (10, 0), (6, 9), (30, 20)] {
        for supply in [1u64, 7, 40] {
            for (idx, long) in price_sets {
                for (oi, oit) in [((0u64, 0u64), (0u64, 0u64)), ((10, 0), (8, 0)), ((0, 30), (0, 6)), ((12, 12), (3, 9))] {
                    for impact in [0u64, 4] {
                        for (b1, b2, gsup) in [(0u64, 0u64, 0u64), (3, 0, 5), (5, 4, 9), (1, 6, 2)] {
                            for (ma, mv) in [(0u64, 0u128), (6, 0), (0, 20), (4, 9)] {
                                let mut w = World::new(2, 1, 2);
                                set_market(&mut w.markets[0], l, s, supply, oi, oit, impact, (10, 10), prices(idx, long, (1, 1)));
                                set_market(&mut w.markets[1], 12, 8, 10, (0, 0), (0, 0), 0, (10, 10), prices((2, 2), (2, 2), (1, 1)));
                                let (t0, t1) = (w.market_tokens[0], w.market_tokens[1]);
                                glvv::update_market_token_balance(&mut w.glv, &t0, b1).unwrap();
                                glvv::update_market_token_balance(&mut w.glv, &t1, b2).unwrap();
                                glvv::update_market_config(&mut w.glv, &t0, Some(ma), Some(mv)).unwrap();
                                w.supply = gsup;
                                for m in [1u64, 2, 5] {
                                    ev_roundtrip(&mut w, 0, m, &mut sink);
                                }
                                ev_deposit(&mut w, 0, 3, &mut sink);
                                ev_withdraw(&mut w, 0, 2, &mut sink);
                            }
                        }
                    }
                }
            }
        }
    }
    eprintln!("events {}", sink.finish());
    0
}

fn rand_price(rng: &mut Rng, hi: u64) -> (u64, u64) {
    let a = rng.range(1, hi as i64) as u64;
    let b = if rng.chance(1, 2) { a } else { a + rng.below(3) };
    (a, b)
}

fn random(args: &Args) -> i32 {
    let runs = args.num("n", 300);
    let mut rng = Rng::new(args.num("seed", 1));
    let mut sink = Sink::create(&args.str("out", "c45-random.ndjson"));
    let wf_above = args.num("wf-above", 0) == 1;
    for _ in 0..runs {
        let n = rng.range(1, 3) as usize;
        let mut w = World::new(n, 1, 2);
        for j in 0..n {
            let idx = rand_price(&mut rng, 5);
            let long = if rng.chance(1, 2) { idx } else { rand_price(&mut rng, 5) };
            let short = if rng.chance(3, 4) { (1, 1) } else { rand_price(&mut rng, 2) };
            let l = rng.below(60);
            let s = rng.below(60);
            let (oil, ois) = if rng.chance(1, 3) { (0, 0) } else { (rng.below(40), rng.below(40)) };
            let (tl, ts) = (if oil == 0 { 0 } else { rng.below(20) }, if ois == 0 { 0 } else { rng.below(20) });
            // max PnL factors: equal, or withdrawals stricter than deposits (the usual configuration)
            let fd = *rng.pick(&[10u64, 10, 8, 5]);
            let fw = if wf_above {
                // exploration only (--wf-above 1): max PnL factor for withdrawals ABOVE the one for deposits
                (fd + 1 + rng.below(5)).min(10)
            } else if rng.chance(1, 2) {
                fd
            } else {
                fd - rng.below(fd.min(4))
            };
            set_market(&mut w.markets[j], l, s, rng.range(1, 80) as u64, (oil, ois), (tl, ts), if rng.chance(1, 4) { rng.below(6) } else { 0 }, (fd, fw),
                       prices(idx, long, short));
            let t = w.market_tokens[j];
            let (ma, mv) = (if rng.chance(1, 2) { 0 } else { rng.below(40) }, if rng.chance(1, 2) { 0 } else { rng.below(150) as u128 });
            glvv::update_market_config(&mut w.glv, &t, Some(ma), Some(mv)).unwrap();
        }
        for _ in 0..rng.range(6, 14) {
            let i = rng.below(n as u64) as usize;
            match rng.below(10) {
                0..=3 => ev_deposit(&mut w, i, rng.range(1, 25) as u64, &mut sink),
                4..=5 => {
                    let q = if w.supply == 0 { 1 } else { rng.range(1, w.supply as i64 + 1) as u64 };
                    ev_withdraw(&mut w, i, q, &mut sink)
                }
                6..=8 => ev_roundtrip(&mut w, i, rng.range(1, 25) as u64, &mut sink),
                _ => {
                    // prices move between operations
                    let idx = rand_price(&mut rng, 5);
                    w.markets[i].prices = prices(idx, idx, (1, 1));
                }
            }
        }
        if rng.chance(1, 3) {
            ev_insert(1, 2, rng.range(1, 3) as u32, rng.range(1, 3) as u32, rng.chance(1, 4), &mut sink);
        }
    }
    eprintln!("events {}", sink.finish());
    0
}

fn main() {
    h_aux::util::quiet_panics();
    rt::install();
    rt::silence_stdout();
    let (mode, args) = Args::from_env();
    let code = match mode.as_str() {
        "small" => small(&args),
        "random" => random(&args),
        _ => 2,
    };
    std::process::exit(code);
}
