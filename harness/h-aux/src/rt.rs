//! Minimal in-process world for the h-aux drivers: controllable syscall stubs (clock, rent, last
//! restart slot, return data, silent log, CPI recorder with an optional handler) and loader-shaped
//! account buffers from which `AccountInfo`s can be handed to an Anchor program's native `entry`.
//!
//! CPIs are never executed by a real callee here: every `invoke`/`invoke_signed` is RECORDED and
//! answered by the handler the driver installed (default `Ok(())`). The drivers say in their evidence
//! which callee behaviour is mocked.
use anchor_lang::solana_program::{
    account_info::AccountInfo, clock::Clock, entrypoint::ProgramResult, instruction::Instruction,
    program_stubs, pubkey::Pubkey, rent::Rent,
};
use std::{cell::RefCell, rc::Rc, sync::Mutex, sync::Once};

/// One recorded cross-program invocation, exactly as the caller built it.
#[derive(Clone, Debug)]
pub struct Cpi {
    pub program_id: Pubkey,
    /// (pubkey, is_signer, is_writable) of the instruction's metas
    pub metas: Vec<(Pubkey, bool, bool)>,
    /// (pubkey, is_signer, is_writable) of the account infos passed along
    pub infos: Vec<(Pubkey, bool, bool)>,
    pub data: Vec<u8>,
    pub signer_seeds: Vec<Vec<Vec<u8>>>,
}

pub type CpiHandler = Box<dyn Fn(&Instruction, &[AccountInfo], &[&[&[u8]]]) -> ProgramResult + Send + Sync>;

struct World {
    unix_timestamp: i64,
    slot: u64,
    last_restart_slot: u64,
    cpis: Vec<Cpi>,
    return_data: Option<(Pubkey, Vec<u8>)>,
    logs: Vec<String>,
    keep_logs: bool,
}

static WORLD: Mutex<World> = Mutex::new(World {
    unix_timestamp: 1_000,
    slot: 10,
    last_restart_slot: 0,
    cpis: Vec::new(),
    return_data: None,
    logs: Vec::new(),
    keep_logs: false,
});
static HANDLER: Mutex<Option<CpiHandler>> = Mutex::new(None);
static INSTALL: Once = Once::new();

fn world() -> std::sync::MutexGuard<'static, World> {
    WORLD.lock().unwrap_or_else(|e| e.into_inner())
}

struct Stubs {
    print: bool,
}

impl program_stubs::SyscallStubs for Stubs {
    fn sol_log(&self, message: &str) {
        if self.print {
            println!("{message}");
        }
        let mut w = world();
        if w.keep_logs {
            w.logs.push(message.to_string());
        }
    }
    fn sol_log_compute_units(&self) {}
    fn sol_remaining_compute_units(&self) -> u64 {
        1_400_000
    }
    fn sol_invoke_signed(
        &self,
        instruction: &Instruction,
        account_infos: &[AccountInfo],
        signers_seeds: &[&[&[u8]]],
    ) -> ProgramResult {
        world().cpis.push(Cpi {
            program_id: instruction.program_id,
            metas: instruction.accounts.iter().map(|m| (m.pubkey, m.is_signer, m.is_writable)).collect(),
            infos: account_infos.iter().map(|a| (*a.key, a.is_signer, a.is_writable)).collect(),
            data: instruction.data.clone(),
            signer_seeds: signers_seeds.iter().map(|s| s.iter().map(|x| x.to_vec()).collect()).collect(),
        });
        let h = HANDLER.lock().unwrap_or_else(|e| e.into_inner());
        match h.as_ref() {
            Some(h) => h(instruction, account_infos, signers_seeds),
            None => Ok(()),
        }
    }
    fn sol_get_clock_sysvar(&self, var_addr: *mut u8) -> u64 {
        let w = world();
        let c = Clock {
            slot: w.slot,
            epoch_start_timestamp: 0,
            epoch: 0,
            leader_schedule_epoch: 0,
            unix_timestamp: w.unix_timestamp,
        };
        // SAFETY: solana-program passes a pointer to a properly aligned, writable `Clock`.
        unsafe { std::ptr::write(var_addr as *mut Clock, c) };
        0
    }
    fn sol_get_rent_sysvar(&self, var_addr: *mut u8) -> u64 {
        // SAFETY: pointer to a properly aligned, writable `Rent`.
        unsafe { std::ptr::write(var_addr as *mut Rent, Rent::default()) };
        0
    }
    fn sol_get_last_restart_slot(&self, var_addr: *mut u8) -> u64 {
        let s = world().last_restart_slot;
        // SAFETY: `LastRestartSlot` is a `#[repr(C)]` struct of one u64.
        unsafe { std::ptr::write(var_addr as *mut u64, s) };
        0
    }
    fn sol_get_return_data(&self) -> Option<(Pubkey, Vec<u8>)> {
        world().return_data.clone()
    }
    fn sol_set_return_data(&self, data: &[u8]) {
        world().return_data = Some((Pubkey::default(), data.to_vec()));
    }
    fn sol_log_data(&self, _fields: &[&[u8]]) {}
    fn sol_get_stack_height(&self) -> u64 {
        1
    }
}

/// Install the stubs (idempotent). `VERIF_SOL_LOG=1` prints the programs' `msg!` output.
pub fn install() {
    INSTALL.call_once(|| {
        let print = std::env::var("VERIF_SOL_LOG").map(|v| v == "1").unwrap_or(false);
        program_stubs::set_syscall_stubs(Box::new(Stubs { print }));
    });
}

pub fn set_now(unix_timestamp: i64) {
    world().unix_timestamp = unix_timestamp;
}
pub fn now() -> i64 {
    world().unix_timestamp
}
pub fn set_slot(slot: u64) {
    world().slot = slot;
}
pub fn set_last_restart_slot(slot: u64) {
    world().last_restart_slot = slot;
}
pub fn take_cpis() -> Vec<Cpi> {
    std::mem::take(&mut world().cpis)
}
pub fn set_cpi_handler(h: Option<CpiHandler>) {
    *HANDLER.lock().unwrap_or_else(|e| e.into_inner()) = h;
}
/// Return data as the next `get_return_data()` of the caller will see it (used by CPI mocks).
pub fn set_return_data(program: Pubkey, data: Vec<u8>) {
    world().return_data = Some((program, data));
}
pub fn clear_return_data() {
    world().return_data = None;
}
pub fn keep_logs(on: bool) {
    world().keep_logs = on;
}
pub fn take_logs() -> Vec<String> {
    std::mem::take(&mut world().logs)
}

// ---------------------------------------------------------------------------------------------
// Accounts: one 16-byte aligned buffer per account, laid out like the loader's input region:
//   0 u32 pad | 4 u32 original data len | 8 key | 40 owner | 72 u64 lamports | 80 u64 data len | 88 data
// data starts at 88 = 8 (mod 16), so a zero-copy struct with u128 fields behind Anchor's 8 byte
// discriminator is natively aligned; `AccountInfo::{realloc, assign}` find what they expect.
const OFF_ORIG_LEN: usize = 4;
const OFF_KEY: usize = 8;
const OFF_OWNER: usize = 40;
const OFF_LAMPORTS: usize = 72;
const OFF_DATA_LEN: usize = 80;
const OFF_DATA: usize = 88;
const SPARE: usize = 10_240;

pub struct Acct {
    buf: Vec<u128>,
    pub executable: bool,
    lamports: Rc<RefCell<&'static mut u64>>,
    data: Rc<RefCell<&'static mut [u8]>>,
}

impl Acct {
    pub fn new(key: Pubkey, owner: Pubkey, lamports: u64, data: &[u8]) -> Acct {
        let len = data.len();
        let words = (OFF_DATA + len + SPARE + 15) / 16;
        let mut buf = vec![0u128; words];
        let base = buf.as_mut_ptr() as *mut u8;
        // SAFETY: the buffer holds OFF_DATA + len + SPARE zeroed bytes, 16-aligned; offsets in range.
        let (lam, dat) = unsafe {
            *(base.add(OFF_ORIG_LEN) as *mut u32) = len as u32;
            std::ptr::copy_nonoverlapping(key.as_ref().as_ptr(), base.add(OFF_KEY), 32);
            std::ptr::copy_nonoverlapping(owner.as_ref().as_ptr(), base.add(OFF_OWNER), 32);
            *(base.add(OFF_LAMPORTS) as *mut u64) = lamports;
            *(base.add(OFF_DATA_LEN) as *mut u64) = len as u64;
            std::ptr::copy_nonoverlapping(data.as_ptr(), base.add(OFF_DATA), len);
            let lam: &'static mut u64 = &mut *(base.add(OFF_LAMPORTS) as *mut u64);
            let dat: &'static mut [u8] = std::slice::from_raw_parts_mut(base.add(OFF_DATA), len);
            (lam, dat)
        };
        Acct { buf, executable: false, lamports: Rc::new(RefCell::new(lam)), data: Rc::new(RefCell::new(dat)) }
    }
    pub fn program(key: Pubkey) -> Acct {
        let mut a = Acct::new(key, anchor_lang::solana_program::bpf_loader_upgradeable::ID, 1, &[]);
        a.executable = true;
        a
    }
    fn base(&self) -> *const u8 {
        self.buf.as_ptr() as *const u8
    }
    pub fn key(&self) -> Pubkey {
        // SAFETY: inside the buffer
        unsafe { *(self.base().add(OFF_KEY) as *const Pubkey) }
    }
    pub fn owner(&self) -> Pubkey {
        // SAFETY: inside the buffer
        unsafe { *(self.base().add(OFF_OWNER) as *const Pubkey) }
    }
    pub fn lamports(&self) -> u64 {
        **self.lamports.borrow()
    }
    /// Current data as the programs left it.
    pub fn data(&self) -> Vec<u8> {
        self.data.borrow().to_vec()
    }
    /// Overwrite owner, lamports and data (restoring a snapshot / loading an abstract state).
    pub fn set(&mut self, owner: Pubkey, lamports: u64, data: &[u8]) {
        assert!(data.len() <= self.buf.len() * 16 - OFF_DATA, "snapshot larger than the account buffer");
        let base = self.buf.as_mut_ptr() as *mut u8;
        // SAFETY: as in `new`; no AccountInfo borrow is outstanding between instructions.
        unsafe {
            std::ptr::copy_nonoverlapping(owner.as_ref().as_ptr(), base.add(OFF_OWNER), 32);
            *(base.add(OFF_ORIG_LEN) as *mut u32) = data.len() as u32;
            *(base.add(OFF_DATA_LEN) as *mut u64) = data.len() as u64;
            std::ptr::copy_nonoverlapping(data.as_ptr(), base.add(OFF_DATA), data.len());
            **self.lamports.borrow_mut() = lamports;
            *self.data.borrow_mut() = std::slice::from_raw_parts_mut(base.add(OFF_DATA), data.len());
        }
    }
    pub fn set_data(&mut self, data: &[u8]) {
        let (o, l) = (self.owner(), self.lamports());
        self.set(o, l, data)
    }
    /// An `AccountInfo` view; all views of one account share the same cells.
    pub fn info(&self, is_signer: bool, is_writable: bool) -> AccountInfo<'static> {
        // SAFETY: key/owner live inside the heap buffer, which does not move and outlives the infos
        // (drivers drop all infos when the call returns).
        let (key, owner) = unsafe {
            (&*(self.base().add(OFF_KEY) as *const Pubkey), &*(self.base().add(OFF_OWNER) as *const Pubkey))
        };
        AccountInfo {
            key,
            lamports: self.lamports.clone(),
            data: self.data.clone(),
            owner,
            rent_epoch: u64::MAX,
            is_signer,
            is_writable,
            executable: self.executable,
        }
    }
}

/// Call a program's native entry with the given infos.
pub fn call(
    entry: for<'a> fn(&Pubkey, &'a [AccountInfo<'a>], &[u8]) -> ProgramResult,
    program_id: &Pubkey,
    infos: Vec<AccountInfo<'static>>,
    data: &[u8],
) -> ProgramResult {
    // SAFETY: the slice is only used during the call; `'static` is needed because AccountInfo is
    // invariant in its lifetime.
    let s: &'static [AccountInfo<'static>] = unsafe { std::mem::transmute(&infos[..]) };
    let r = entry(program_id, s, data);
    drop(infos);
    r
}

/// Deterministic, readable test keys: byte 0 = tag, byte 1.. = index.
pub fn key(tag: u8, i: u32) -> Pubkey {
    let mut b = [0u8; 32];
    b[0] = tag;
    b[1..5].copy_from_slice(&i.to_le_bytes());
    b[31] = 0x77;
    Pubkey::new_from_array(b)
}

/// `Box<T>` of zero bytes without putting `T` on the stack (zero-copy structs are large and contain
/// u128; bytemuck's own `zeroed_box` needs a cargo feature that would fork the shared build).
pub fn zeroed_box<T: bytemuck::Zeroable>() -> Box<T> {
    let layout = std::alloc::Layout::new::<T>();
    assert!(layout.size() > 0);
    // SAFETY: T is Zeroable, so all-zero bytes are a valid T; allocated with T's layout.
    unsafe {
        let p = std::alloc::alloc_zeroed(layout) as *mut T;
        assert!(!p.is_null());
        Box::from_raw(p)
    }
}

/// solana-msg's native `msg!` prints straight to stdout (it does not go through the syscall stubs):
/// point fd 1 at /dev/null for the rest of the process; drivers report on stderr.
pub fn silence_stdout() {
    if std::env::var("VERIF_SOL_LOG").map(|v| v == "1").unwrap_or(false) {
        return;
    }
    // SAFETY: plain POSIX calls on valid, NUL-terminated arguments.
    unsafe {
        let fd = libc::open(b"/dev/null\0".as_ptr() as *const libc::c_char, libc::O_WRONLY);
        if fd >= 0 {
            libc::dup2(fd, 1);
            libc::close(fd);
        }
    }
}

/// From inside a CPI handler: run a real program `entry` as the callee.  The callee sees the infos
/// in the order of the instruction's metas, with the metas' signer/writable flags (a PDA signer of the
/// caller is whatever the caller's instruction says), sharing the caller's account cells.
pub fn dispatch(
    entry: for<'a> fn(&Pubkey, &'a [AccountInfo<'a>], &[u8]) -> ProgramResult,
    instruction: &Instruction,
    account_infos: &[AccountInfo],
) -> ProgramResult {
    let mut infos: Vec<AccountInfo<'static>> = Vec::new();
    for m in &instruction.accounts {
        let Some(a) = account_infos.iter().find(|a| *a.key == m.pubkey) else {
            return Err(anchor_lang::solana_program::program_error::ProgramError::NotEnoughAccountKeys);
        };
        let mut c = a.clone();
        c.is_signer = m.is_signer;
        c.is_writable = m.is_writable;
        // SAFETY: lifetime erasure only; the clone shares the Rc cells and the key/owner pointers of
        // an info that outlives this call.
        infos.push(unsafe { std::mem::transmute::<AccountInfo<'_>, AccountInfo<'static>>(c) });
    }
    call(entry, &instruction.program_id, infos, &instruction.data)
}
