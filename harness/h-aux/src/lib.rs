//! h-aux: drivers for the treasury, timelock, liquidity-provider and competition programs and GLV
//! (state/function level, in memory); binaries under src/bin/.
pub mod rt;
pub mod util;
