//! C15 (SDK side): the `Pool` of the off-chain market model (crates/programs/src/model/pool.rs: the
//! gmsol-model `Balance` / `Pool` impls for the IDL type `gmsol_programs::gmsol_store::types::Pool`),
//! pure and impure.  Same operations, same domains and the SAME event format as the store-side driver
//! harness/h-programs/src/bin/c15.rs, so that tools/props/c15.py judges both with Trace_Pool / Wide_Pool.
//!   small  --pmax P --imax I      every (state, operation) pair of the bounded domain
//!   random --seed S --n N         N sequences of 4 operations on one persistent pool object
//!   wide   --seed S --n N         the u128 type limits first (totals MAX, MAX-1, 2^127 +- 1, deltas that
//!                                 reach them), then boundary-biased random; values as decimal strings
use gmsol_model::{Balance, Delta, Pool as _};
use gmsol_programs::gmsol_store::types::Pool;
use h_sdk::util::{guarded, quiet_panics, Args, Rng, Sink};
use serde_json::{json, Value};

mod hook {
    //! the SDK type has public fields: no hook needed
    use super::Pool;
    pub fn pool_set_is_pure(p: &mut Pool, pure: bool) {
        p.is_pure = pure as u8;
    }
    pub fn pool_set_amounts(p: &mut Pool, l: u128, s: u128) {
        p.long_token_amount = l;
        p.short_token_amount = s;
    }
    pub fn pool_is_pure(p: &Pool) -> bool {
        p.is_pure != 0
    }
    pub fn pool_amounts(p: &Pool) -> (u128, u128) {
        (p.long_token_amount, p.short_token_amount)
    }
}

fn new_pool(pure: bool, l: u128, s: u128) -> Pool {
    let mut p: Pool = bytemuck::Zeroable::zeroed();
    hook::pool_set_is_pure(&mut p, pure);
    hook::pool_set_amounts(&mut p, l, s);
    p
}

#[derive(Clone, Copy)]
enum Op {
    Long(i128),
    Short(i128),
    Both(i128, i128),
    Cancel,
}

fn num(wide: bool, v: i128) -> Value {
    if wide { json!(v.to_string()) } else { json!(v as i64) }
}
fn unum(wide: bool, v: u128) -> Value {
    if wide { json!(v.to_string()) } else { json!(v as i64) }
}

/// Apply `op` to the real pool in place; returns the logged event.
fn step(pool: &mut Pool, op: Op, wide: bool) -> Value {
    let pure = hook::pool_is_pure(pool);
    let (l0, s0) = hook::pool_amounts(pool);
    let views = |p: &Pool| -> Option<(u128, u128)> {
        guarded(|| (p.long_amount().ok(), p.short_amount().ok()))
            .ok()
            .and_then(|(a, b)| Some((a?, b?)))
    };
    let v0 = views(pool);
    let (name, dl, ds) = match op {
        Op::Long(d) => ("apply_long", d, 0),
        Op::Short(d) => ("apply_short", d, 0),
        Op::Both(a, b) => ("apply_both", a, b),
        Op::Cancel => ("cancel", 0, 0),
    };
    let mut work = *pool;
    let res = guarded(|| match op {
        Op::Long(d) => work.apply_delta_to_long_amount(&d).is_ok(),
        Op::Short(d) => work.apply_delta_to_short_amount(&d).is_ok(),
        Op::Both(a, b) => match work.checked_apply_delta(Delta::new_both_sides(true, &a, &b)) {
            Ok(n) => {
                work = n;
                true
            }
            Err(_) => false,
        },
        Op::Cancel => match work.checked_cancel_amounts() {
            Ok(n) => {
                work = n;
                true
            }
            Err(_) => false,
        },
    });
    let (ok, panic) = match res {
        Ok(ok) => (ok, false),
        Err(()) => (false, true),
    };
    // the in-place operations mutate `work` even when they fail half-way: what the caller sees is `work`
    *pool = work;
    let (l1, s1) = hook::pool_amounts(pool);
    let v1 = views(pool);
    let panic = panic || v0.is_none() || v1.is_none();
    let (vl0, vs0) = v0.unwrap_or((0, 0));
    let (vl1, vs1) = v1.unwrap_or((0, 0));
    json!({
        "op": name, "pure": pure, "dl": num(wide, dl), "ds": num(wide, ds), "ok": ok, "panic": panic,
        "l0": unum(wide, l0), "s0": unum(wide, s0), "l1": unum(wide, l1), "s1": unum(wide, s1),
        "vl0": unum(wide, vl0), "vs0": unum(wide, vs0), "vl1": unum(wide, vl1), "vs1": unum(wide, vs1),
    })
}

const BOTH: [i128; 9] = [-40, -3, -2, -1, 0, 1, 2, 3, 40];

fn small(args: &Args) -> i32 {
    let pmax = args.num("pmax", 40) as u128;
    let imax = args.num("imax", 8) as u128;
    let mut sink = Sink::create(&args.str("out", "c15s-small.ndjson"));
    let mut states: Vec<(bool, u128, u128)> = (0..=pmax).map(|l| (true, l, 0)).collect();
    for l in 0..=imax {
        for s in 0..=imax {
            states.push((false, l, s));
        }
    }
    for (pure, l, s) in states {
        let mut ops: Vec<Op> = vec![Op::Cancel];
        for d in -40..=40i128 {
            ops.push(Op::Long(d));
            ops.push(Op::Short(d));
        }
        for a in BOTH {
            for b in BOTH {
                ops.push(Op::Both(a, b));
            }
        }
        for op in ops {
            let mut p = new_pool(pure, l, s);
            sink.emit(step(&mut p, op, false));
        }
    }
    println!("events {}", sink.finish());
    0
}

fn random(args: &Args) -> i32 {
    let n = args.num("n", 2000);
    let mut rng = Rng::new(args.num("seed", 1));
    let mut sink = Sink::create(&args.str("out", "c15s-random.ndjson"));
    for _ in 0..n {
        let pure = rng.chance(2, 3);
        let l = rng.below(41) as u128;
        let s = if pure { 0 } else { rng.below(41) as u128 };
        let mut p = new_pool(pure, l, s);
        for _ in 0..4 {
            let d = rng.range(-40, 40) as i128;
            let op = match rng.below(7) {
                0 | 1 => Op::Long(d),
                2 | 3 => Op::Short(d),
                4 | 5 => Op::Both(d, rng.range(-40, 40) as i128),
                _ => Op::Cancel,
            };
            sink.emit(step(&mut p, op, false));
        }
    }
    println!("events {}", sink.finish());
    0
}

fn wide_u(rng: &mut Rng) -> u128 {
    match rng.below(10) {
        0 => 0,
        1 => 1,
        2 => u128::MAX - rng.below(3) as u128,
        3 => (u128::MAX >> 1).wrapping_add(rng.below(3) as u128).wrapping_sub(1), // around 2^127
        4 => (1u128 << rng.below(128)).wrapping_add(rng.below(3) as u128).wrapping_sub(1),
        5 => 10u128.pow(rng.below(39) as u32),
        6 => rng.next128() >> rng.below(128),
        7 => rng.below(5) as u128 + 2,
        _ => rng.next128(),
    }
}
fn wide_s(rng: &mut Rng) -> i128 {
    match rng.below(8) {
        0 => i128::MIN,
        1 => i128::MAX,
        2 => i128::MIN + 1 + rng.below(2) as i128,
        3 => rng.range(-2, 2) as i128,
        _ => {
            let m = (wide_u(rng) >> 1) as i128;
            if rng.chance(1, 2) { m } else { -m }
        }
    }
}

fn wide(args: &Args) -> i32 {
    let n = args.num("n", 100);
    let mut rng = Rng::new(args.num("seed", 1) ^ 0x15_15);
    let mut sink = Sink::create(&args.str("out", "c15s-wide.ndjson"));
    let mut emitted = 0;
    // the type limits first, deterministically: stored totals at and next to u128::MAX and 2^127, read
    // (cancel / zero deltas) and reached by a delta
    let top = u128::MAX;
    let half = 1u128 << 127;
    for (pure, totals, ops) in [
        (true, vec![top, top - 1, half], vec![Op::Cancel, Op::Long(0), Op::Short(0), Op::Long(1), Op::Short(1), Op::Short(-1), Op::Both(1, -1)]),
        (false, vec![top, half + 1], vec![Op::Cancel, Op::Long(1), Op::Both(0, 0)]),
    ] {
        for l in totals {
            for op in ops.iter() {
                let mut p = new_pool(pure, l, if pure { 0 } else { 3 });
                sink.emit(step(&mut p, *op, true));
                emitted += 1;
            }
        }
    }
    while emitted < n {
        let pure = rng.chance(3, 4);
        let l = wide_u(&mut rng);
        let s = if pure { 0 } else { wide_u(&mut rng) };
        let mut p = new_pool(pure, l, s);
        for _ in 0..4 {
            // deltas related to the current total make exact-fit and off-by-one cases likely
            let (cl, _) = hook::pool_amounts(&p);
            let rel = |rng: &mut Rng| -> i128 {
                match rng.below(4) {
                    0 => {
                        let room = u128::MAX - cl;
                        let r = room.min(i128::MAX as u128) as i128;
                        r.saturating_add(rng.below(2) as i128)
                    }
                    1 => -(cl.min(i128::MAX as u128) as i128) - rng.below(2) as i128,
                    _ => wide_s(rng),
                }
            };
            let op = match rng.below(7) {
                0 | 1 => Op::Long(rel(&mut rng)),
                2 | 3 => Op::Short(rel(&mut rng)),
                4 | 5 => Op::Both(rel(&mut rng), wide_s(&mut rng)),
                _ => Op::Cancel,
            };
            sink.emit(step(&mut p, op, true));
            emitted += 1;
            if emitted >= n {
                break;
            }
        }
    }
    println!("events {}", sink.finish());
    0
}

fn main() {
    quiet_panics();
    let (mode, args) = Args::from_env();
    let code = match mode.as_str() {
        "small" => small(&args),
        "random" => random(&args),
        "wide" => wide(&args),
        _ => 2,
    };
    std::process::exit(code);
}
