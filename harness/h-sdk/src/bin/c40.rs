//! C40: the SDK market model (crates/programs/src/model, utils/store.rs) agrees with the program
//! (programs/store/src/states/market/{model,pool}.rs).
//!
//! One byte image of a `Market` account is read twice: as the program's `gmsol_store::states::Market`
//! (through the program's own gmsol-model trait impls and public getters) and as the SDK's
//! `gmsol_programs::gmsol_store::accounts::Market` wrapped in `MarketModel`.  Both are projected by the
//! SAME generic function onto one flat view (accessor -> string), logged side by side.
//!
//! event kinds (all events have the keys kind, name, class, prog, sdk):
//!   view     every read accessor of the model traits, flags, balances, clocks
//!   layout   size_of / align_of of the declared SDK accounts vs the program structs, byte offsets of
//!            every Market config field, pool, clock, balance
//!   action   deposit / withdraw / swap / position-impact distribution executed by the model crate on the
//!            SDK model and on a model whose parameters and pool type are the program's (see ProgModel)
//!   discount order fee discount factor, program Store vs SDK Store on the same bytes
//!
//! modes: random --seed S --n N --out F
use anchor_lang::solana_program::{clock::Clock, program_stubs};
use gmsol_model::{
    price::{Price, Prices},
    Balance, BaseMarket, BaseMarketMut, BorrowingFeeMarket, LiquidityMarket, LiquidityMarketMut, LiquidityMarketMutExt,
    MarketAction, PerpMarket, PnlFactorKind, PoolKind, PositionImpactMarket, PositionImpactMarketMut,
    PositionImpactMarketMutExt, SwapMarket, SwapMarketMut, SwapMarketMutExt,
};
use gmsol_programs::{gmsol_store::accounts as sdk, model::MarketModel};
use gmsol_store::states as prog;
use h_sdk::util::{guarded, Args, Rng, Sink};
use serde_json::{json, Map, Value};
use std::{
    collections::BTreeMap,
    ops::{Deref, DerefMut},
    sync::{atomic::{AtomicI64, Ordering}, Arc},
};

type View = BTreeMap<String, String>;

// ---------------------------------------------------------------------------------------------
// clocks: the SDK model reads the wall clock (hook), the program the Clock sysvar (syscall stub)
static NOW: AtomicI64 = AtomicI64::new(0);
struct Stubs;
impl program_stubs::SyscallStubs for Stubs {
    fn sol_get_clock_sysvar(&self, var_addr: *mut u8) -> u64 {
        let clock = Clock { slot: 1, epoch_start_timestamp: 0, epoch: 0, leader_schedule_epoch: 0, unix_timestamp: NOW.load(Ordering::SeqCst) };
        unsafe { std::ptr::write_unaligned(var_addr as *mut Clock, clock) };
        0
    }
    fn sol_log(&self, _message: &str) {}
}
fn set_now(t: i64) {
    NOW.store(t, Ordering::SeqCst);
    gmsol_programs::model::clock_verif::set_now(Some(t));
}

// ---------------------------------------------------------------------------------------------
// the one projection used for BOTH sides
fn res<T: std::fmt::Debug>(r: gmsol_model::Result<T>) -> String {
    match r {
        Ok(v) => format!("{v:?}"),
        Err(_) => "Err".to_string(),
    }
}
fn pool<P: Balance<Num = u128>>(r: gmsol_model::Result<&P>) -> String {
    // a panic inside an accessor is data for that accessor (type-limit pool amounts), not the end of the view
    let side = |f: &dyn Fn() -> gmsol_model::Result<u128>| guarded(f).map(res).unwrap_or_else(|()| "panic".to_string());
    match r {
        Ok(p) => format!("{}|{}", side(&|| p.long_amount()), side(&|| p.short_amount())),
        Err(_) => "Err".to_string(),
    }
}

fn view<M>(m: &M, v: &mut View)
where
    M: PerpMarket<20, Num = u128, Signed = i128>,
    M::Pool: Balance<Num = u128>,
{
    v.insert("pool.primary".into(), pool(m.liquidity_pool()));
    v.insert("pool.claimable_fee".into(), pool(m.claimable_fee_pool()));
    v.insert("pool.swap_impact".into(), pool(m.swap_impact_pool()));
    v.insert("pool.position_impact".into(), pool(m.position_impact_pool()));
    v.insert("pool.borrowing_factor".into(), pool(m.borrowing_factor_pool()));
    v.insert("pool.total_borrowing".into(), pool(m.total_borrowing_pool()));
    for is_long in [true, false] {
        let s = if is_long { "long" } else { "short" };
        v.insert(format!("pool.open_interest.{s}"), pool(m.open_interest_pool(is_long)));
        v.insert(format!("pool.open_interest_in_tokens.{s}"), pool(m.open_interest_in_tokens_pool(is_long)));
        v.insert(format!("pool.collateral_sum.{s}"), pool(m.collateral_sum_pool(is_long)));
        v.insert(format!("pool.funding_amount_per_size.{s}"), pool(m.funding_amount_per_size_pool(is_long)));
        v.insert(format!("pool.claimable_funding_amount_per_size.{s}"), pool(m.claimable_funding_amount_per_size_pool(is_long)));
        v.insert(format!("max_pool_amount.{s}"), res(m.max_pool_amount(is_long)));
        v.insert(format!("max_open_interest.{s}"), res(m.max_open_interest(is_long)));
        v.insert(format!("min_collateral_factor_for_oi_multiplier.{s}"), res(m.min_collateral_factor_for_open_interest_multiplier(is_long)));
        for (k, name) in [
            (PnlFactorKind::MaxAfterDeposit, "deposit"),
            (PnlFactorKind::MaxAfterWithdrawal, "withdrawal"),
            (PnlFactorKind::MaxForTrader, "trader"),
            (PnlFactorKind::ForAdl, "adl"),
            (PnlFactorKind::MinAfterAdl, "min_after_adl"),
        ] {
            v.insert(format!("pnl_factor.{name}.{s}"), res(m.pnl_factor_config(k, is_long)));
        }
    }
    v.insert("vi_for_swaps_pool.ok".into(), m.virtual_inventory_for_swaps_pool().map(|p| p.is_some()).map_err(|_| ()).map_or("Err".into(), |b| b.to_string()));
    v.insert("vi_for_positions_pool.ok".into(), m.virtual_inventory_for_positions_pool().map(|p| p.is_some()).map_err(|_| ()).map_or("Err".into(), |b| b.to_string()));
    v.insert("usd_to_amount_divisor".into(), m.usd_to_amount_divisor().to_string());
    v.insert("reserve_factor".into(), res(m.reserve_factor()));
    v.insert("open_interest_reserve_factor".into(), res(m.open_interest_reserve_factor()));
    v.insert("ignore_open_interest_for_usage_factor".into(), res(m.ignore_open_interest_for_usage_factor()));
    v.insert("swap_impact_params".into(), res(m.swap_impact_params()));
    v.insert("swap_fee_params".into(), res(m.swap_fee_params()));
    v.insert("position_impact_params".into(), res(m.position_impact_params()));
    v.insert("position_impact_distribution_params".into(), res(m.position_impact_distribution_params()));
    v.insert("passed.position_impact_distribution".into(), res(m.passed_in_seconds_for_position_impact_distribution()));
    v.insert("borrowing_fee_params".into(), res(m.borrowing_fee_params()));
    v.insert("borrowing_fee_kink_model_params".into(), res(m.borrowing_fee_kink_model_params()));
    v.insert("passed.borrowing".into(), res(m.passed_in_seconds_for_borrowing()));
    v.insert("funding_factor_per_second".into(), m.funding_factor_per_second().to_string());
    v.insert("funding_amount_per_size_adjustment".into(), m.funding_amount_per_size_adjustment().to_string());
    v.insert("funding_fee_params".into(), res(m.funding_fee_params()));
    v.insert("position_params".into(), res(m.position_params()));
    // The program applies the order fee discount where the order is executed (RevertibleMarket wraps the
    // params with the user's factor, default 0); the SDK model always wraps with its own factor (default 0).
    // FeeParams::discount_factor() reads None as zero, so "None" and "Some(0)" are the same parameters.
    v.insert("order_fee_params".into(), res(m.order_fee_params()).replace("discount_factor: None", "discount_factor: Some(0)"));
    v.insert("liquidation_fee_params".into(), res(m.liquidation_fee_params()));
}

// ---------------------------------------------------------------------------------------------
// byte image -> both types
fn to_prog(m: &sdk::Market) -> Box<prog::Market> {
    Box::new(bytemuck::pod_read_unaligned::<prog::Market>(bytemuck::bytes_of(m)))
}

const FLAG_NAMES: [&str; 6] = ["enabled", "pure", "adl_long", "adl_short", "gt", "closed"];

fn prog_extra(p: &prog::Market, v: &mut View) {
    use gmsol_utils::market::MarketFlag;
    v.insert("flag.enabled".into(), p.flag(MarketFlag::Enabled).to_string());
    v.insert("flag.pure".into(), p.is_pure().to_string());
    v.insert("flag.adl_long".into(), p.is_adl_enabled(true).to_string());
    v.insert("flag.adl_short".into(), p.is_adl_enabled(false).to_string());
    v.insert("flag.gt".into(), p.is_gt_minting_enabled().to_string());
    v.insert("flag.closed".into(), p.is_closed().to_string());
    v.insert("balance.long".into(), p.state().long_token_balance_raw().to_string());
    v.insert("balance.short".into(), p.state().short_token_balance_raw().to_string());
    v.insert("trade_count".into(), p.state().trade_count().to_string());
    v.insert("max_pool_value_for_deposit.long".into(), res(p.max_pool_value_for_deposit(true)));
    v.insert("max_pool_value_for_deposit.short".into(), res(p.max_pool_value_for_deposit(false)));
    let meta = p.meta();
    v.insert("meta".into(), format!("{}|{}|{}|{}", meta.market_token_mint, meta.index_token_mint, meta.long_token_mint, meta.short_token_mint));
    v.insert("store".into(), p.store.to_string());
}

fn sdk_extra(model: &MarketModel, v: &mut View) {
    // the SDK keeps its flag enum private: the public surface is is_pure() and the raw container,
    // decoded here with the order documented for the account (MarketFlag of the program's IDL docs)
    let raw = model.flags.value;
    for (i, n) in FLAG_NAMES.iter().enumerate() {
        let bit = raw & (1 << i) != 0;
        let val = if *n == "pure" { model.is_pure() } else { bit };
        v.insert(format!("flag.{n}"), val.to_string());
    }
    v.insert("balance.long".into(), model.state.other.long_token_balance.to_string());
    v.insert("balance.short".into(), model.state.other.short_token_balance.to_string());
    v.insert("trade_count".into(), model.state.other.trade_count.to_string());
    v.insert("max_pool_value_for_deposit.long".into(), res(model.max_pool_value_for_deposit(true)));
    v.insert("max_pool_value_for_deposit.short".into(), res(model.max_pool_value_for_deposit(false)));
    let meta = &model.meta;
    v.insert("meta".into(), format!("{}|{}|{}|{}", meta.market_token_mint, meta.index_token_mint, meta.long_token_mint, meta.short_token_mint));
    v.insert("store".into(), model.store.to_string());
}

fn to_json(v: &View) -> Value {
    Value::Object(v.iter().map(|(k, x)| (k.clone(), Value::String(x.clone()))).collect::<Map<_, _>>())
}

fn emit(sink: &mut Sink, kind: &str, name: &str, class: &str, p: &View, s: &View) {
    sink.emit(json!({"kind": kind, "name": name, "class": class, "prog": to_json(p), "sdk": to_json(s)}));
}

// ---------------------------------------------------------------------------------------------
// random market images
macro_rules! config_fields {
    ($m:ident) => {
        $m!(swap_impact_exponent, swap_impact_positive_factor, swap_impact_negative_factor, swap_fee_receiver_factor,
            swap_fee_factor_for_positive_impact, swap_fee_factor_for_negative_impact, min_position_size_usd,
            min_collateral_value, min_collateral_factor, min_collateral_factor_for_open_interest_multiplier_for_long,
            min_collateral_factor_for_open_interest_multiplier_for_short, max_positive_position_impact_factor,
            max_negative_position_impact_factor, max_position_impact_factor_for_liquidations, position_impact_exponent,
            position_impact_positive_factor, position_impact_negative_factor, order_fee_receiver_factor,
            order_fee_factor_for_positive_impact, order_fee_factor_for_negative_impact, liquidation_fee_receiver_factor,
            liquidation_fee_factor, position_impact_distribute_factor, min_position_impact_pool_amount,
            borrowing_fee_receiver_factor, borrowing_fee_factor_for_long, borrowing_fee_factor_for_short,
            borrowing_fee_exponent_for_long, borrowing_fee_exponent_for_short, borrowing_fee_optimal_usage_factor_for_long,
            borrowing_fee_optimal_usage_factor_for_short, borrowing_fee_base_factor_for_long, borrowing_fee_base_factor_for_short,
            borrowing_fee_above_optimal_usage_factor_for_long, borrowing_fee_above_optimal_usage_factor_for_short,
            funding_fee_exponent, funding_fee_factor, funding_fee_max_factor_per_second, funding_fee_min_factor_per_second,
            funding_fee_increase_factor_per_second, funding_fee_decrease_factor_per_second,
            funding_fee_threshold_for_stable_funding, funding_fee_threshold_for_decrease_funding, reserve_factor,
            open_interest_reserve_factor, max_pnl_factor_for_long_deposit, max_pnl_factor_for_short_deposit,
            max_pnl_factor_for_long_withdrawal, max_pnl_factor_for_short_withdrawal, max_pnl_factor_for_long_trader,
            max_pnl_factor_for_short_trader, max_pnl_factor_for_long_adl, max_pnl_factor_for_short_adl,
            min_pnl_factor_after_long_adl, min_pnl_factor_after_short_adl, max_pool_amount_for_long_token,
            max_pool_amount_for_short_token, max_pool_value_for_deposit_for_long_token,
            max_pool_value_for_deposit_for_short_token, max_open_interest_for_long, max_open_interest_for_short,
            min_tokens_for_first_deposit, min_collateral_factor_for_liquidation,
            market_closed_min_collateral_factor_for_liquidation, market_closed_borrowing_fee_base_factor,
            market_closed_borrowing_fee_above_optimal_usage_factor)
    };
}

const UNIT: u128 = 100_000_000_000_000_000_000; // 10^20

fn key(rng: &mut Rng) -> anchor_lang::prelude::Pubkey {
    let mut b = [0u8; 32];
    for c in b.chunks_mut(8) {
        c.copy_from_slice(&rng.next().to_le_bytes());
    }
    anchor_lang::prelude::Pubkey::new_from_array(b)
}

/// every byte random: only the views are compared
fn wild_market(rng: &mut Rng) -> sdk::Market {
    let mut bytes = vec![0u8; std::mem::size_of::<sdk::Market>()];
    for b in bytes.iter_mut() {
        *b = rng.next() as u8;
    }
    let mut m: sdk::Market = bytemuck::pod_read_unaligned(&bytes);
    // "any account bytes": the is_pure byte of every pool is canonical (0 / 1) in two thirds of the pools and ANY
    // byte otherwise (2..=255 are non-canonical: both readers must still agree); flag containers, paddings and
    // reserved areas keep their fully random bytes
    for_each_pool(&mut m, |ps, rng| {
        ps.pool.is_pure = match rng.below(6) {
            0 | 1 => 0,
            2 | 3 => 1,
            4 => 2 + rng.below(254) as u8,
            _ => *rng.pick(&[2u8, 3, 0x80, 0xFE, 0xFF]),
        }
    }, rng);
    // type limits of the pool amounts, in pure and impure pools
    for_each_pool(&mut m, |ps, rng| {
        if rng.chance(1, 5) {
            ps.pool.long_token_amount = limit_amount(rng);
        }
        if rng.chance(1, 5) {
            ps.pool.short_token_amount = limit_amount(rng);
        }
    }, rng);
    closed_market_cases(&mut m, rng);
    if rng.chance(1, 2) {
        m.virtual_inventory_for_swaps = Default::default();
    }
    if rng.chance(1, 2) {
        m.virtual_inventory_for_positions = Default::default();
    }
    m
}

fn limit_amount(rng: &mut Rng) -> u128 {
    *rng.pick(&[u128::MAX, u128::MAX - 1, u128::MAX - 2, 1u128 << 127, (1u128 << 127) - 1, (1u128 << 127) + 1, u64::MAX as u128, 0, 1, 2, 3])
}

/// all four (closed, enable-closed-params) flag combinations, every closed-market parameter and its
/// regular counterpart zero / non-zero independently
fn closed_market_cases(m: &mut sdk::Market, rng: &mut Rng) {
    let combo = rng.below(4);
    m.flags.value = (m.flags.value & !(1 << 5)) | (((combo & 1) as u8) << 5);
    let enable = (combo >> 1) & 1 == 1;
    if enable {
        m.config.flag.value |= 1 << 2;
    } else {
        m.config.flag.value &= !(1 << 2);
    }
    let c = &mut m.config;
    for f in [
        &mut c.market_closed_min_collateral_factor_for_liquidation, &mut c.min_collateral_factor_for_liquidation,
        &mut c.market_closed_borrowing_fee_base_factor, &mut c.market_closed_borrowing_fee_above_optimal_usage_factor,
        &mut c.borrowing_fee_base_factor_for_long, &mut c.borrowing_fee_base_factor_for_short,
        &mut c.borrowing_fee_above_optimal_usage_factor_for_long, &mut c.borrowing_fee_above_optimal_usage_factor_for_short,
    ] {
        if rng.chance(1, 2) {
            *f = 0;
        } else if *f == 0 {
            *f = 1 + rng.below(1_000_000) as u128;
        }
    }
}

fn for_each_pool(m: &mut sdk::Market, mut f: impl FnMut(&mut gmsol_programs::gmsol_store::types::PoolStorage, &mut Rng), rng: &mut Rng) {
    let p = &mut m.state.pools;
    for ps in [
        &mut p.primary, &mut p.swap_impact, &mut p.claimable_fee, &mut p.open_interest_for_long, &mut p.open_interest_for_short,
        &mut p.open_interest_in_tokens_for_long, &mut p.open_interest_in_tokens_for_short, &mut p.position_impact,
        &mut p.borrowing_factor, &mut p.funding_amount_per_size_for_long, &mut p.funding_amount_per_size_for_short,
        &mut p.claimable_funding_amount_per_size_for_long, &mut p.claimable_funding_amount_per_size_for_short,
        &mut p.collateral_sum_for_long, &mut p.collateral_sum_for_short, &mut p.total_borrowing,
    ] {
        f(ps, rng);
    }
}

/// a market the model crate can act on: plausible parameters, every flag combination, pure or not
fn plausible_market(rng: &mut Rng, now: i64) -> sdk::Market {
    use bytemuck::Zeroable;
    let mut m = sdk::Market::zeroed();
    let pure = rng.chance(1, 3);
    let mut flags = 1u8; // enabled
    if pure { flags |= 1 << 1; }
    for bit in 2..6 { if rng.chance(1, 2) { flags |= 1 << bit; } }
    m.flags.value = flags;
    m.config.flag.value = rng.below(16) as _;
    m.meta.market_token_mint = key(rng);
    m.meta.index_token_mint = key(rng);
    m.meta.long_token_mint = key(rng);
    m.meta.short_token_mint = if pure { m.meta.long_token_mint } else { key(rng) };
    m.store = key(rng);
    let frac = |rng: &mut Rng, max_num: u64, den: u128| UNIT * (rng.below(max_num + 1) as u128) / den;
    macro_rules! set_all { ($($f:ident),*) => { $( m.config.$f = frac(rng, 1000, 1000); )* } }
    config_fields!(set_all);
    let c = &mut m.config;
    c.swap_impact_exponent = UNIT * (1 + rng.below(2) as u128);
    c.position_impact_exponent = UNIT * (1 + rng.below(2) as u128);
    c.funding_fee_exponent = UNIT;
    c.borrowing_fee_exponent_for_long = UNIT;
    c.borrowing_fee_exponent_for_short = UNIT;
    c.swap_impact_positive_factor = frac(rng, 20, 1_000_000_000_000);
    c.swap_impact_negative_factor = frac(rng, 40, 1_000_000_000_000);
    c.swap_fee_factor_for_positive_impact = frac(rng, 50, 10_000);
    c.swap_fee_factor_for_negative_impact = frac(rng, 70, 10_000);
    c.swap_fee_receiver_factor = frac(rng, 100, 100);
    c.max_pool_amount_for_long_token = 10u128.pow(18 + rng.below(4) as u32);
    c.max_pool_amount_for_short_token = 10u128.pow(18 + rng.below(4) as u32);
    c.max_pool_value_for_deposit_for_long_token = UNIT * 10u128.pow(6 + rng.below(8) as u32);
    c.max_pool_value_for_deposit_for_short_token = UNIT * 10u128.pow(6 + rng.below(8) as u32);
    c.max_open_interest_for_long = UNIT * 10u128.pow(9);
    c.max_open_interest_for_short = UNIT * 10u128.pow(9);
    c.min_tokens_for_first_deposit = rng.below(1000) as u128;
    c.position_impact_distribute_factor = frac(rng, 100, 1_000);
    c.min_position_impact_pool_amount = rng.below(1_000_000) as u128;
    for_each_pool(&mut m, |ps, rng| {
        ps.pool.is_pure = pure as u8;
        ps.pool.long_token_amount = rng.below(1_000_000_000_000) as u128;
        ps.pool.short_token_amount = if pure { 0 } else { rng.below(1_000_000_000_000) as u128 };
    }, rng);
    // always-impure pools of the program (Pools::init)
    for ps in [&mut m.state.pools.position_impact, &mut m.state.pools.borrowing_factor, &mut m.state.pools.total_borrowing] {
        ps.pool.is_pure = 0;
        ps.pool.short_token_amount = rng.below(1_000_000_000) as u128;
    }
    if rng.chance(2, 3) {
        // no open positions: no pnl, no pending borrowing fees -> liquidity actions go through
        let p = &mut m.state.pools;
        for ps in [&mut p.open_interest_for_long, &mut p.open_interest_for_short, &mut p.open_interest_in_tokens_for_long,
            &mut p.open_interest_in_tokens_for_short, &mut p.collateral_sum_for_long, &mut p.collateral_sum_for_short,
            &mut p.total_borrowing, &mut p.borrowing_factor] {
            ps.pool.long_token_amount = 0;
            ps.pool.short_token_amount = 0;
        }
    }
    if rng.chance(1, 4) {
        m.state.pools.primary.pool.long_token_amount = 0;
        m.state.pools.primary.pool.short_token_amount = 0;
    }
    closed_market_cases(&mut m, rng);
    m.state.clocks.price_impact_distribution = now - rng.below(5000) as i64;
    m.state.clocks.borrowing = now - rng.below(5000) as i64 + 100;
    m.state.clocks.funding = now - rng.below(5000) as i64;
    m.state.other.long_token_balance = rng.next() >> 8;
    m.state.other.short_token_balance = rng.next() >> 8;
    m.state.other.funding_factor_per_second = (rng.below(2_000_000) as i128) - 1_000_000;
    m.state.other.trade_count = rng.below(1000);
    m
}

// ---------------------------------------------------------------------------------------------
// actions: the model crate acting on the program's parameters and the program's Pool type
struct ProgModel {
    m: Box<prog::Market>,
    pools: BTreeMap<PoolKind, prog::market::pool::Pool>,
    supply: u128,
    pid_clock: i64,
}
impl ProgModel {
    fn new(m: Box<prog::Market>, supply: u64) -> Self {
        let mut pools = BTreeMap::new();
        for kind in [PoolKind::Primary, PoolKind::SwapImpact, PoolKind::ClaimableFee, PoolKind::PositionImpact, PoolKind::BorrowingFactor, PoolKind::TotalBorrowing,
            PoolKind::OpenInterestForLong, PoolKind::OpenInterestForShort, PoolKind::OpenInterestInTokensForLong, PoolKind::OpenInterestInTokensForShort,
            PoolKind::CollateralSumForLong, PoolKind::CollateralSumForShort] {
            if let Some(p) = m.pool(kind) {
                pools.insert(kind, p);
            }
        }
        let pid_clock = m.clock(gmsol_model::ClockKind::PriceImpactDistribution).unwrap_or(0);
        Self { m, pools, supply: supply as u128, pid_clock }
    }
    fn p(&self, k: PoolKind) -> gmsol_model::Result<&prog::market::pool::Pool> {
        self.pools.get(&k).ok_or(gmsol_model::Error::MissingPoolKind(k))
    }
    fn pm(&mut self, k: PoolKind) -> gmsol_model::Result<&mut prog::market::pool::Pool> {
        self.pools.get_mut(&k).ok_or(gmsol_model::Error::MissingPoolKind(k))
    }
}
impl BaseMarket<20> for ProgModel {
    type Num = u128;
    type Signed = i128;
    type Pool = prog::market::pool::Pool;
    fn liquidity_pool(&self) -> gmsol_model::Result<&Self::Pool> { self.p(PoolKind::Primary) }
    fn claimable_fee_pool(&self) -> gmsol_model::Result<&Self::Pool> { self.p(PoolKind::ClaimableFee) }
    fn swap_impact_pool(&self) -> gmsol_model::Result<&Self::Pool> { self.p(PoolKind::SwapImpact) }
    fn open_interest_pool(&self, is_long: bool) -> gmsol_model::Result<&Self::Pool> { self.p(if is_long { PoolKind::OpenInterestForLong } else { PoolKind::OpenInterestForShort }) }
    fn open_interest_in_tokens_pool(&self, is_long: bool) -> gmsol_model::Result<&Self::Pool> { self.p(if is_long { PoolKind::OpenInterestInTokensForLong } else { PoolKind::OpenInterestInTokensForShort }) }
    fn collateral_sum_pool(&self, is_long: bool) -> gmsol_model::Result<&Self::Pool> { self.p(if is_long { PoolKind::CollateralSumForLong } else { PoolKind::CollateralSumForShort }) }
    fn virtual_inventory_for_swaps_pool(&self) -> gmsol_model::Result<Option<impl Deref<Target = Self::Pool>>> { Ok(None::<&Self::Pool>) }
    fn virtual_inventory_for_positions_pool(&self) -> gmsol_model::Result<Option<impl Deref<Target = Self::Pool>>> { Ok(None::<&Self::Pool>) }
    fn usd_to_amount_divisor(&self) -> Self::Num { self.m.usd_to_amount_divisor() }
    fn max_pool_amount(&self, is_long_token: bool) -> gmsol_model::Result<Self::Num> { self.m.max_pool_amount(is_long_token) }
    fn pnl_factor_config(&self, kind: PnlFactorKind, is_long: bool) -> gmsol_model::Result<Self::Num> { self.m.pnl_factor_config(kind, is_long) }
    fn reserve_factor(&self) -> gmsol_model::Result<Self::Num> { self.m.reserve_factor() }
    fn open_interest_reserve_factor(&self) -> gmsol_model::Result<Self::Num> { self.m.open_interest_reserve_factor() }
    fn max_open_interest(&self, is_long: bool) -> gmsol_model::Result<Self::Num> { self.m.max_open_interest(is_long) }
    fn ignore_open_interest_for_usage_factor(&self) -> gmsol_model::Result<bool> { self.m.ignore_open_interest_for_usage_factor() }
}
impl BaseMarketMut<20> for ProgModel {
    fn liquidity_pool_mut(&mut self) -> gmsol_model::Result<&mut Self::Pool> { self.pm(PoolKind::Primary) }
    fn claimable_fee_pool_mut(&mut self) -> gmsol_model::Result<&mut Self::Pool> { self.pm(PoolKind::ClaimableFee) }
    fn virtual_inventory_for_swaps_pool_mut(&mut self) -> gmsol_model::Result<Option<impl DerefMut<Target = Self::Pool>>> { Ok(None::<&mut Self::Pool>) }
}
impl SwapMarket<20> for ProgModel {
    fn swap_impact_params(&self) -> gmsol_model::Result<gmsol_model::params::PriceImpactParams<Self::Num>> { self.m.swap_impact_params() }
    fn swap_fee_params(&self) -> gmsol_model::Result<gmsol_model::params::FeeParams<Self::Num>> { self.m.swap_fee_params() }
}
impl SwapMarketMut<20> for ProgModel {
    fn swap_impact_pool_mut(&mut self) -> gmsol_model::Result<&mut Self::Pool> { self.pm(PoolKind::SwapImpact) }
}
impl PositionImpactMarket<20> for ProgModel {
    fn position_impact_pool(&self) -> gmsol_model::Result<&Self::Pool> { self.p(PoolKind::PositionImpact) }
    fn position_impact_params(&self) -> gmsol_model::Result<gmsol_model::params::PriceImpactParams<Self::Num>> { self.m.position_impact_params() }
    fn position_impact_distribution_params(&self) -> gmsol_model::Result<gmsol_model::params::position::PositionImpactDistributionParams<Self::Num>> { self.m.position_impact_distribution_params() }
    fn passed_in_seconds_for_position_impact_distribution(&self) -> gmsol_model::Result<u64> {
        let d = NOW.load(Ordering::SeqCst).saturating_sub(self.pid_clock);
        Ok(if d > 0 { d as u64 } else { 0 })
    }
}
impl PositionImpactMarketMut<20> for ProgModel {
    fn position_impact_pool_mut(&mut self) -> gmsol_model::Result<&mut Self::Pool> { self.pm(PoolKind::PositionImpact) }
    fn just_passed_in_seconds_for_position_impact_distribution(&mut self) -> gmsol_model::Result<u64> {
        // the program's AsClockMut on the copied clock value (states/market/clock.rs)
        gmsol_store::states::market::clock::AsClockMut::from(&mut self.pid_clock).just_passed_in_seconds()
    }
}
impl BorrowingFeeMarket<20> for ProgModel {
    fn borrowing_factor_pool(&self) -> gmsol_model::Result<&Self::Pool> { self.p(PoolKind::BorrowingFactor) }
    fn total_borrowing_pool(&self) -> gmsol_model::Result<&Self::Pool> { self.p(PoolKind::TotalBorrowing) }
    fn borrowing_fee_params(&self) -> gmsol_model::Result<gmsol_model::params::fee::BorrowingFeeParams<Self::Num>> { self.m.borrowing_fee_params() }
    fn passed_in_seconds_for_borrowing(&self) -> gmsol_model::Result<u64> { self.m.passed_in_seconds_for_borrowing() }
    fn borrowing_fee_kink_model_params(&self) -> gmsol_model::Result<gmsol_model::params::fee::BorrowingFeeKinkModelParams<Self::Num>> { self.m.borrowing_fee_kink_model_params() }
}
impl LiquidityMarket<20> for ProgModel {
    fn total_supply(&self) -> Self::Num { self.supply }
    fn max_pool_value_for_deposit(&self, is_long_token: bool) -> gmsol_model::Result<Self::Num> { self.m.max_pool_value_for_deposit(is_long_token) }
}
impl LiquidityMarketMut<20> for ProgModel {
    fn mint(&mut self, amount: &Self::Num) -> gmsol_model::Result<()> {
        // the program mints u64 market tokens (RevertibleLiquidityMarket::mint)
        let a: u64 = (*amount).try_into().map_err(|_| gmsol_model::Error::Overflow)?;
        let s: u64 = self.supply.try_into().map_err(|_| gmsol_model::Error::Overflow)?;
        self.supply = s.checked_add(a).ok_or(gmsol_model::Error::Overflow)? as u128;
        Ok(())
    }
    fn burn(&mut self, amount: &Self::Num) -> gmsol_model::Result<()> {
        let a: u64 = (*amount).try_into().map_err(|_| gmsol_model::Error::Overflow)?;
        let s: u64 = self.supply.try_into().map_err(|_| gmsol_model::Error::Overflow)?;
        self.supply = s.checked_sub(a).ok_or(gmsol_model::Error::Overflow)? as u128;
        Ok(())
    }
}

fn state_view<M>(m: &M, v: &mut View)
where
    M: LiquidityMarket<20, Num = u128, Signed = i128>,
    M::Pool: Balance<Num = u128>,
{
    v.insert("pool.primary".into(), pool(m.liquidity_pool()));
    v.insert("pool.claimable_fee".into(), pool(m.claimable_fee_pool()));
    v.insert("pool.swap_impact".into(), pool(m.swap_impact_pool()));
    v.insert("pool.position_impact".into(), pool(m.position_impact_pool()));
    v.insert("supply".into(), m.total_supply().to_string());
}

#[derive(Clone, Debug)]
enum Act {
    Deposit(u128, u128),
    Withdraw(u128),
    Swap(bool, u128),
    Distribute,
}

fn act<M>(m: &mut M, a: &Act, prices: Prices<u128>) -> String
where
    M: LiquidityMarketMut<20, Num = u128, Signed = i128> + PositionImpactMarketMut<20>,
    M::Pool: Balance<Num = u128>,
{
    let r = guarded(|| match a {
        Act::Deposit(l, s) => m.deposit(*l, *s, prices).and_then(|x| x.execute()).map(|r| format!("{r:?}")),
        Act::Withdraw(t) => m.withdraw(*t, prices).and_then(|x| x.execute()).map(|r| format!("{r:?}")),
        Act::Swap(is_long, amt) => m.swap(*is_long, *amt, prices).and_then(|x| x.execute()).map(|r| format!("{r:?}")),
        Act::Distribute => m.distribute_position_impact().and_then(|x| x.execute()).map(|r| format!("{r:?}")),
    });
    match r {
        Err(()) => "panic".to_string(),
        Ok(Err(e)) => format!("Err({e})"),
        Ok(Ok(s)) => s,
    }
}

// ---------------------------------------------------------------------------------------------
fn views(sink: &mut Sink, m: &sdk::Market, supply: u64, class: &str, name: &str) {
    let p = to_prog(m);
    let model = MarketModel::from_parts(Arc::new(*m), supply);
    let (mut pv, mut sv) = (View::new(), View::new());
    let pr = guarded(|| { let mut v = View::new(); view(&*p, &mut v); prog_extra(&p, &mut v); v });
    let sr = guarded(|| { let mut v = View::new(); view(&model, &mut v); sdk_extra(&model, &mut v); v });
    match pr { Ok(v) => pv = v, Err(()) => { pv.insert("panic".into(), "true".into()); } }
    match sr { Ok(v) => sv = v, Err(()) => { sv.insert("panic".into(), "true".into()); } }
    emit(sink, "view", name, class, &pv, &sv);
}

fn actions(sink: &mut Sink, rng: &mut Rng, m: &sdk::Market, supply: u64, class: &str) {
    let price = |rng: &mut Rng| { let p = 10u128.pow(8 + rng.below(8) as u32) * (1 + rng.below(9) as u128); let spread = p / (50 + rng.below(1000) as u128); Price { min: p - spread, max: p + rng.below(2) as u128 * spread } };
    let long = price(rng);
    let prices = Prices { index_token_price: price(rng), long_token_price: long, short_token_price: if m.flags.value & 2 != 0 { long } else { price(rng) } };
    let mut pm = ProgModel::new(to_prog(m), supply);
    let mut sm = MarketModel::from_parts(Arc::new(*m), supply);
    let n = 1 + rng.below(4);
    for step in 0..n {
        let amt = |rng: &mut Rng| {
            let e = 3 + rng.below(9) as u32;
            if rng.chance(1, 6) { 0 } else { rng.below(10u64.pow(e)) as u128 }
        };
        let a = match rng.below(6) {
            0 | 1 => Act::Deposit(amt(rng), amt(rng)),
            2 => Act::Withdraw(amt(rng).min(supply as u128)),
            3 | 4 => Act::Swap(rng.chance(1, 2), amt(rng)),
            _ => Act::Distribute,
        };
        let (mut pv, mut sv) = (View::new(), View::new());
        let pr = act(&mut pm, &a, prices);
        let sr = sm.with_vis_disabled(|sm| act(sm, &a, prices));
        pv.insert("report".into(), pr);
        sv.insert("report".into(), sr);
        state_view(&pm, &mut pv);
        state_view(&sm, &mut sv);
        emit(sink, "action", &format!("{a:?}#{step}"), class, &pv, &sv);
    }
}

macro_rules! size_pair {
    ($p:ident, $s:ident, $name:ident) => {
        size_pair!($p, $s, $name, prog::$name)
    };
    ($p:ident, $s:ident, $name:ident, $pt:ty) => {{
        $p.insert(format!("size.{}", stringify!($name)), std::mem::size_of::<$pt>().to_string());
        $s.insert(format!("size.{}", stringify!($name)), std::mem::size_of::<sdk::$name>().to_string());
        $p.insert(format!("align.{}", stringify!($name)), std::mem::align_of::<$pt>().to_string());
        $s.insert(format!("align.{}", stringify!($name)), std::mem::align_of::<sdk::$name>().to_string());
    }};
}

fn layout(sink: &mut Sink) {
    use bytemuck::Zeroable;
    let (mut p, mut s) = (View::new(), View::new());
    size_pair!(p, s, Market);
    size_pair!(p, s, Position);
    size_pair!(p, s, Store);
    size_pair!(p, s, Order);
    size_pair!(p, s, Deposit);
    size_pair!(p, s, Withdrawal);
    size_pair!(p, s, Shift);
    size_pair!(p, s, Glv);
    size_pair!(p, s, GlvDeposit);
    size_pair!(p, s, GlvWithdrawal);
    size_pair!(p, s, GlvShift);
    size_pair!(p, s, Oracle);
    size_pair!(p, s, PriceFeed);
    size_pair!(p, s, UserHeader);
    size_pair!(p, s, TokenMapHeader);
    size_pair!(p, s, GtExchange, prog::gt::GtExchange);
    size_pair!(p, s, GtExchangeVault, prog::gt::GtExchangeVault);
    size_pair!(p, s, VirtualInventory, prog::market::virtual_inventory::VirtualInventory);
    emit(sink, "layout", "sizes", "sizes", &p, &s);
    // offsets inside Market: program side = address of what the public getter returns, SDK side = offset_of!
    let (mut p, mut s) = (View::new(), View::new());
    let pm = Box::new(prog::Market::zeroed());
    let base = &*pm as *const prog::Market as usize;
    let off = |r: usize| (r - base).to_string();
    macro_rules! cfg_off { ($($f:ident),*) => { $(
        {
            let key: gmsol_utils::market::MarketConfigKey = stringify!($f).parse().expect("config key");
            let r = pm.get_config_by_key(key).map(|f| off(f as *const u128 as usize)).unwrap_or_else(|| "none".into());
            p.insert(format!("off.config.{}", stringify!($f)), r);
            s.insert(format!("off.config.{}", stringify!($f)), (std::mem::offset_of!(sdk::Market, config) + std::mem::offset_of!(gmsol_programs::gmsol_store::types::MarketConfig, $f)).to_string());
        }
    )* } }
    config_fields!(cfg_off);
    macro_rules! pool_off { ($($kind:ident => $f:ident),*) => { $(
        {
            let r = pm.try_pool(PoolKind::$kind).map(|x| off(x as *const _ as usize)).unwrap_or_else(|_| "none".into());
            p.insert(format!("off.pool.{}", stringify!($f)), r);
            s.insert(format!("off.pool.{}", stringify!($f)), (std::mem::offset_of!(sdk::Market, state) + std::mem::offset_of!(gmsol_programs::gmsol_store::types::State, pools)
                + std::mem::offset_of!(gmsol_programs::gmsol_store::types::Pools, $f) + std::mem::offset_of!(gmsol_programs::gmsol_store::types::PoolStorage, pool)).to_string());
        }
    )* } }
    pool_off!(Primary => primary, SwapImpact => swap_impact, ClaimableFee => claimable_fee, OpenInterestForLong => open_interest_for_long,
        OpenInterestForShort => open_interest_for_short, OpenInterestInTokensForLong => open_interest_in_tokens_for_long,
        OpenInterestInTokensForShort => open_interest_in_tokens_for_short, PositionImpact => position_impact, BorrowingFactor => borrowing_factor,
        FundingAmountPerSizeForLong => funding_amount_per_size_for_long, FundingAmountPerSizeForShort => funding_amount_per_size_for_short,
        ClaimableFundingAmountPerSizeForLong => claimable_funding_amount_per_size_for_long,
        ClaimableFundingAmountPerSizeForShort => claimable_funding_amount_per_size_for_short, CollateralSumForLong => collateral_sum_for_long,
        CollateralSumForShort => collateral_sum_for_short, TotalBorrowing => total_borrowing);
    p.insert("off.meta".into(), off(pm.meta() as *const _ as usize));
    s.insert("off.meta".into(), std::mem::offset_of!(sdk::Market, meta).to_string());
    p.insert("off.store".into(), off(&pm.store as *const _ as usize));
    s.insert("off.store".into(), std::mem::offset_of!(sdk::Market, store).to_string());
    p.insert("off.other".into(), off(pm.state() as *const _ as usize));
    s.insert("off.other".into(), (std::mem::offset_of!(sdk::Market, state) + std::mem::offset_of!(gmsol_programs::gmsol_store::types::State, other)).to_string());
    p.insert("off.indexer".into(), off(pm.indexer() as *const _ as usize));
    s.insert("off.indexer".into(), std::mem::offset_of!(sdk::Market, indexer).to_string());
    emit(sink, "layout", "market_offsets", "offsets", &p, &s);
}

fn discount(sink: &mut Sink, rng: &mut Rng) {
    let mut bytes = vec![0u8; std::mem::size_of::<sdk::Store>()];
    let wild = rng.chance(1, 3);
    if wild {
        for b in bytes.iter_mut() { *b = rng.next() as u8; }
    }
    let mut st: sdk::Store = bytemuck::pod_read_unaligned(&bytes);
    st.gt.max_rank = if wild && rng.chance(1, 2) { rng.below(40) } else { rng.below(16) };
    if !wild || rng.chance(1, 2) {
        // arbitrary factors: tiny, thirds, sevenths, near UNIT, above UNIT, fully random below UNIT, and round ones
        let factor = |rng: &mut Rng| -> u128 {
            match rng.below(10) {
                0 => rng.below(4) as u128,
                1 => UNIT / 3 + rng.below(3) as u128,
                2 => UNIT / 7 * (1 + rng.below(6) as u128) + rng.below(2) as u128,
                3 => UNIT - rng.below(4) as u128,
                4 => UNIT + rng.below(3) as u128,
                5 => UNIT * (rng.below(1001) as u128) / 1000,
                6 => 10u128.pow(rng.below(21) as u32) + rng.below(2) as u128,
                _ => rng.next128() % (UNIT + 1),
            }
        };
        for f in st.gt.order_fee_discount_factors.iter_mut() { *f = factor(rng); }
        st.factor.order_fee_discount_for_referred_user = factor(rng);
    }
    let ps: Box<prog::Store> = Box::new(bytemuck::pod_read_unaligned(bytemuck::bytes_of(&st)));
    for _ in 0..6 {
        let rank = rng.below(18) as u8;
        let referred = rng.chance(1, 2);
        let (mut p, mut s) = (View::new(), View::new());
        let f = |r: Result<Result<u128, ()>, ()>| match r { Err(()) => "panic".to_string(), Ok(Err(())) => "Err".to_string(), Ok(Ok(v)) => v.to_string() };
        p.insert("discount".into(), f(guarded(|| ps.order_fee_discount_factor(rank, referred).map_err(|_| ()))));
        s.insert("discount".into(), f(guarded(|| st.order_fee_discount_factor(rank, referred).map_err(|_| ()))));
        emit(sink, "discount", &format!("rank={rank},referred={referred},max_rank={}", st.gt.max_rank), if wild { "wild" } else { "plausible" }, &p, &s);
    }
}

fn random(args: &Args) -> i32 {
    let n = args.num("n", 300);
    let mut rng = Rng::new(args.num("seed", 1) ^ 0xC40);
    let mut sink = Sink::create(&args.str("out", "c40.ndjson"));
    layout(&mut sink);
    for i in 0..n {
        let now = 1_700_000_000 + rng.below(1_000_000) as i64;
        set_now(now);
        let supply = rng.next() >> rng.below(40);
        let w = wild_market(&mut rng);
        views(&mut sink, &w, supply, "wild", &format!("wild#{i}"));
        let m = plausible_market(&mut rng, now);
        let supply = if m.state.pools.primary.pool.long_token_amount == 0 { 0 } else { rng.below(1_000_000_000_000) };
        views(&mut sink, &m, supply, "plausible", &format!("plausible#{i}"));
        actions(&mut sink, &mut rng, &m, supply, if m.flags.value & 2 != 0 { "pure" } else { "impure" });
        discount(&mut sink, &mut rng);
    }
    println!("events {}", sink.finish());
    0
}

fn main() {
    h_sdk::util::quiet_panics();
    program_stubs::set_syscall_stubs(Box::new(Stubs));
    let (mode, args) = Args::from_env();
    let code = match mode.as_str() {
        "random" => random(&args),
        _ => 2,
    };
    std::process::exit(code);
}
