//! C43: SDK conversions between on-chain integers and rust_decimal::Decimal
//! (crates/sdk/src/utils/fixed.rs).
//!
//! Every event is one call chain on the REAL code: integer -> Decimal -> integer with the same
//! decimals ("to"), or arbitrary Decimal -> integer ("from").  Big values are logged as decimal digit
//! strings (TLC compares and concatenates strings only); when everything fits 31 bits the integer
//! copies are logged too and TLC checks conformance with DecimalConv.tla.
//!
//! modes: small --out F            dense small values, all ops, decimals 0..40
//!        wide --seed S --n N --out F   boundary-biased u64/u128/i128 values, decimals 0..255
//!        replay --in events --out F    re-execute recorded events
use gmsol_sdk::utils::fixed as fx;
use h_sdk::util::{guarded, Args, Rng, Sink};
use rust_decimal::Decimal;
use serde_json::{json, Value};

const LIM: u128 = (1u128 << 31) - 1;

struct DecInfo {
    m: u128,
    s: u32,
    neg: bool,
}
fn info(d: &Decimal) -> DecInfo {
    DecInfo { m: d.mantissa().unsigned_abs(), s: d.scale(), neg: d.is_sign_negative() }
}

/// (status, magnitude, negative)
fn back_call(op: &str, dec: Decimal, d: u8) -> (&'static str, u128, bool) {
    let r: Result<Result<(u128, bool), ()>, ()> = guarded(|| match op {
        "ufixed" | "uvalue" | "from_value" => fx::decimal_to_value(dec, d).map(|v| (v, false)).map_err(|_| ()),
        "uamount" | "from_amount" => fx::decimal_to_amount(dec, d).map(|v| (v as u128, false)).map_err(|_| ()),
        _ => fx::decimal_to_signed_value(dec, d).map(|v| (v.unsigned_abs(), v < 0)).map_err(|_| ()),
    });
    match r {
        Err(()) => ("panic", 0, false),
        Ok(Err(())) => ("err", 0, false),
        Ok(Ok((v, n))) => ("ok", v, n),
    }
}

fn pow10_fits(m: u128, k: i64) -> bool {
    // m * 10^k <= LIM  (k may be <= 0)
    if m == 0 || k <= 0 {
        return true;
    }
    if k > 9 {
        return false;
    }
    m.checked_mul(10u128.pow(k as u32)).map(|v| v <= LIM).unwrap_or(false)
}

fn to_event(sink: &mut Sink, op: &str, x: u128, neg: bool, d: u8) {
    let neg = neg && x != 0;
    // the conversion to Decimal
    let r: Result<Option<Decimal>, ()> = guarded(|| match op {
        "ufixed" => fx::unsigned_fixed_to_decimal(x, d),
        "sfixed" => fx::signed_fixed_to_decimal(signed(x, neg), d),
        "uvalue" => Some(fx::unsigned_value_to_decimal(x)),
        "svalue" => Some(fx::signed_value_to_decimal(signed(x, neg))),
        "uamount" => Some(fx::unsigned_amount_to_decimal(x as u64, d)),
        "samount" => Some(fx::signed_amount_to_decimal(signed(x, neg) as i64, d)),
        _ => panic!("unknown op"),
    });
    let (st, dec) = match r {
        Err(()) => ("panic", None),
        Ok(None) => ("none", None),
        Ok(Some(v)) => ("some", Some(v)),
    };
    let (di, (bst, back, bneg)) = match dec {
        Some(v) => (info(&v), back_call(op, v, d)),
        None => (DecInfo { m: 0, s: 0, neg: false }, ("skip", 0, false)),
    };
    let small = x <= LIM && di.m <= LIM && back <= LIM && pow10_fits(di.m, d as i64 - di.s as i64) && d <= 60;
    emit(sink, "to", op, x, neg, d, st, &di, bst, back, bneg, small);
}

fn from_event(sink: &mut Sink, op: &str, m: u128, s: u32, neg: bool, d: u8) {
    let dec = Decimal::from_i128_with_scale(if neg { -(m as i128) } else { m as i128 }, s);
    let di = info(&dec);
    let (bst, back, bneg) = back_call(op, dec, d);
    let small = m <= LIM && back <= LIM && pow10_fits(m, d as i64 - s as i64) && d <= 60;
    emit(sink, "from", op, 0, false, d, "some", &di, bst, back, bneg, small);
}

fn signed(x: u128, neg: bool) -> i128 {
    if neg {
        (x as i128).wrapping_neg()
    } else {
        x as i128
    }
}

#[allow(clippy::too_many_arguments)]
fn emit(sink: &mut Sink, dir: &str, op: &str, x: u128, neg: bool, d: u8, st: &str, di: &DecInfo, bst: &str, back: u128, bneg: bool, small: bool) {
    let i = |v: u128| if small { v as i64 } else { 0 };
    sink.emit(json!({
        "dir": dir, "op": op, "x": x.to_string(), "neg": neg, "d": d, "st": st,
        "m": di.m.to_string(), "s": di.s, "dneg": di.neg,
        "bst": bst, "back": back.to_string(), "bneg": bneg,
        "small": small, "xi": i(x), "mi": i(di.m), "bi": i(back),
    }));
}

const TO_OPS: &[&str] = &["ufixed", "sfixed", "uvalue", "svalue", "uamount", "samount"];
const FROM_OPS: &[&str] = &["from_amount", "from_value", "from_signed"];

fn op_x(op: &str, x: u128, neg: bool) -> Option<(u128, bool)> {
    // clamp the operand into the type of the conversion
    match op {
        "ufixed" | "uvalue" => Some((x, false)),
        "sfixed" | "svalue" => {
            if x <= i128::MAX as u128 || (neg && x == 1u128 << 127) {
                Some((x, neg))
            } else {
                None
            }
        }
        "uamount" => (x <= u64::MAX as u128).then_some((x, false)),
        "samount" => (x <= i64::MAX as u128 || (neg && x == 1u128 << 63)).then_some((x, neg)),
        _ => None,
    }
}

fn small(args: &Args) -> i32 {
    let mut sink = Sink::create(&args.str("out", "c43-small.ndjson"));
    let dense = args.num("dense", 120) as u128;
    let mut xs: Vec<u128> = (0..=dense).collect();
    for k in 2..10u32 {
        let p = 10u128.pow(k);
        xs.extend([p - 1, p, p + 1, 5 * p, 7 * p + 3]);
    }
    xs.extend([LIM - 1, LIM, 123_456_789, 2_000_000_000, 1_000_000_007, 214_748_364]);
    xs.sort();
    xs.dedup();
    let ds: Vec<u8> = (0..=12).chain([17, 18, 19, 20, 27, 28, 29, 30, 37, 38, 39, 40, 46, 47, 48, 60]).collect();
    for op in TO_OPS {
        for &x in xs.iter() {
            for neg in [false, true] {
                if neg && !op.starts_with('s') {
                    continue;
                }
                if op.ends_with("value") {
                    to_event(&mut sink, op, x, neg, 20);
                    continue;
                }
                for &d in ds.iter() {
                    to_event(&mut sink, op, x, neg, d);
                }
            }
        }
    }
    // arbitrary small decimals -> integer
    let ms: Vec<u128> = (0..=30).chain([45, 49, 50, 51, 95, 99, 100, 101, 149, 150, 995, 999, 1000, 1234, 1235, 5555, 99_999, 123_456_789, LIM]).collect();
    for op in FROM_OPS {
        for &m in ms.iter() {
            for s in (0..=6).chain([9, 10, 19, 20, 27, 28]) {
                for neg in [false, true] {
                    for &d in ds.iter() {
                        from_event(&mut sink, op, m, s, neg, d);
                    }
                }
            }
        }
    }
    println!("events {}", sink.finish());
    0
}

fn wide_u128(rng: &mut Rng) -> u128 {
    let max_repr: u128 = (1u128 << 96) - 1;
    match rng.below(16) {
        0 => rng.below(3) as u128,
        1 => u128::MAX - rng.below(3) as u128,
        2 => (i128::MAX as u128).wrapping_add(rng.below(5) as u128).wrapping_sub(2),
        3 => max_repr.wrapping_add(rng.below(5) as u128).wrapping_sub(2),
        4 => (u64::MAX as u128).wrapping_add(rng.below(5) as u128).wrapping_sub(2),
        5 => (i64::MAX as u128).wrapping_add(rng.below(5) as u128).wrapping_sub(2),
        6 => 10u128.pow(rng.below(39) as u32),
        7 => 10u128.pow(rng.below(39) as u32).wrapping_mul(rng.below(9) as u128 + 1),
        8 => 10u128.pow(rng.below(39) as u32).wrapping_sub(1),
        9 => {
            // many trailing zeros: representable although above 2^96
            let z = 10 + rng.below(20) as u32;
            (rng.next128() >> rng.below(60)) / 10u128.pow(z) * 10u128.pow(z)
        }
        10 => (1u128 << rng.below(128)).wrapping_add(rng.below(3) as u128).wrapping_sub(1),
        11 => rng.next() as u128,
        12 => rng.next128() >> 32,
        _ => rng.next128() >> rng.below(128),
    }
}

fn wide_d(rng: &mut Rng) -> u8 {
    match rng.below(10) {
        0 => *rng.pick(&[0u8, 1, 6, 8, 9, 18, 20]),
        1 => *rng.pick(&[27u8, 28, 29, 30, 38, 39, 40, 46, 47, 48, 66, 67, 255]),
        2 => rng.below(256) as u8,
        _ => rng.below(45) as u8,
    }
}

fn wide(args: &Args) -> i32 {
    let n = args.num("n", 5000);
    let mut rng = Rng::new(args.num("seed", 1) ^ 0xC43);
    let mut sink = Sink::create(&args.str("out", "c43-wide.ndjson"));
    let mut made = 0;
    while made < n {
        if rng.chance(1, 4) {
            // arbitrary Decimal -> integer
            let op = *rng.pick(FROM_OPS);
            let m = wide_u128(&mut rng) & ((1u128 << 96) - 1);
            let s = rng.below(29) as u32;
            from_event(&mut sink, op, m, s, rng.chance(1, 3), wide_d(&mut rng));
            made += 1;
            continue;
        }
        let op = *rng.pick(TO_OPS);
        let mut x = wide_u128(&mut rng);
        if op.ends_with("amount") {
            x = if rng.chance(1, 2) { x & u64::MAX as u128 } else { x >> 64 };
        }
        let neg = rng.chance(1, 2);
        let Some((x, neg)) = op_x(op, x, neg) else { continue };
        let d = if op.ends_with("value") { 20 } else { wide_d(&mut rng) };
        to_event(&mut sink, op, x, neg, d);
        made += 1;
    }
    println!("events {}", sink.finish());
    0
}

/// re-execute recorded events (the inputs of each line) on the current tree
fn replay(args: &Args) -> i32 {
    let text = std::fs::read_to_string(args.str("in", "events.ndjson")).expect("read events");
    let mut sink = Sink::create(&args.str("out", "c43-replay.ndjson"));
    for line in text.lines().filter(|l| !l.trim().is_empty()) {
        let v: Value = serde_json::from_str(line).expect("json");
        let op = v["op"].as_str().unwrap().to_string();
        let d = v["d"].as_u64().unwrap() as u8;
        if v["dir"] == "to" {
            let x: u128 = v["x"].as_str().unwrap().parse().unwrap();
            to_event(&mut sink, &op, x, v["neg"].as_bool().unwrap(), d);
        } else {
            let m: u128 = v["m"].as_str().unwrap().parse().unwrap();
            from_event(&mut sink, &op, m, v["s"].as_u64().unwrap() as u32, v["dneg"].as_bool().unwrap(), d);
        }
    }
    println!("events {}", sink.finish());
    0
}

fn main() {
    if std::env::var("C43_LOUD").is_err() {
        h_sdk::util::quiet_panics();
    }
    let (mode, args) = Args::from_env();
    let code = match mode.as_str() {
        "small" => small(&args),
        "wide" => wide(&args),
        "replay" => replay(&args),
        _ => 2,
    };
    std::process::exit(code);
}
