//! C31, SDK side: evaluates the SDK's copy of the order fee discount
//! (crates/programs/src/utils/store.rs `Store::order_fee_discount_factor`) on the SAME Store bytes the
//! program side (h-programs c31) used, and merges the result into the events.
//!   c31s merge --in events.ndjson --stores stores.bin --out merged.ndjson
//! adds `sdk_ok`, `sdk_s` (decimal string) and, for wide events, `sdk`.
use gmsol_programs::gmsol_store::accounts::Store as SdkStore;
use h_sdk::util::{guarded, Args, Sink};
use serde_json::{json, Value};

fn main() {
    h_sdk::util::quiet_panics();
    let (mode, args) = Args::from_env();
    if mode != "merge" {
        eprintln!("unknown mode {mode}");
        std::process::exit(2);
    }
    let bytes = std::fs::read(args.str("stores", "")).expect("read --stores");
    // the program's Store and the SDK's IDL-generated Store must have the same size
    let size = std::mem::size_of::<gmsol_store::states::Store>();
    if size != std::mem::size_of::<SdkStore>() {
        eprintln!("layout mismatch: program Store {} bytes, SDK Store {} bytes", size, std::mem::size_of::<SdkStore>());
        std::process::exit(3);
    }
    assert!(bytes.len() % size == 0, "stores file is not a whole number of Store structs");
    let input = std::fs::read_to_string(args.str("in", "")).expect("read --in");
    let mut sink = Sink::create(&args.str("out", "c31-merged.ndjson"));
    let mut cache: Option<(usize, Box<SdkStore>)> = None;
    for line in input.lines().filter(|l| !l.trim().is_empty()) {
        let mut e: Value = serde_json::from_str(line).expect("json");
        let cfg = e["cfg"].as_u64().expect("cfg") as usize;
        if cache.as_ref().map(|c| c.0) != Some(cfg) {
            let s: SdkStore = bytemuck::pod_read_unaligned(&bytes[cfg * size..(cfg + 1) * size]);
            cache = Some((cfg, Box::new(s)));
        }
        let store = &cache.as_ref().unwrap().1;
        let rank = e["rank"].as_u64().unwrap() as u8;
        let referred = e["referred"].as_bool().unwrap();
        let r = guarded(|| store.order_fee_discount_factor(rank, referred));
        let (ok, v) = match r {
            Ok(Ok(v)) => (true, v),
            _ => (false, 0u128),
        };
        let o = e.as_object_mut().unwrap();
        o.insert("sdk_ok".into(), json!(ok));
        o.insert("sdk_s".into(), json!(v.to_string()));
        if o.get("op").and_then(|x| x.as_str()) == Some("wide") {
            o.insert("sdk".into(), json!(v.to_string()));
        }
        sink.emit(e);
    }
    eprintln!("c31s merge: {} events", sink.finish());
}
