//! C41: transaction packing (crates/solana-utils transaction_group.rs, instruction_group.rs,
//! utils/transaction_size.rs).
//!
//! An abstract input (TLC prints it, or `random` draws it) is a sequence of parallel groups of atomic
//! groups `[id, n, payer, m]`.  The driver realises it with concrete instructions (varied programs,
//! account lists, signers, data sizes, lookup tables, limits), runs the REAL
//! `TransactionGroup::add* ; optimize ; to_transactions`, serializes every produced transaction and
//! reads the facts the monitors need back from the serialized bytes.
//!
//! modes: replay --in inputs.ndjson --seed S --reals R --out trace.ndjson
//!        random --seed S --n N --out trace.ndjson
use gmsol_solana_utils::{
    address_lookup_table::AddressLookupTables,
    instruction_group::{AtomicGroupOptions, ComputeBudgetOptions, GetInstructionsOptions, ParallelGroupOptions},
    signer::TransactionSigners,
    transaction_group::TransactionGroupOptions,
    AtomicGroup, ParallelGroup, TransactionGroup,
};
use h_sdk::util::{guarded, Args, Rng, Sink};
use serde_json::{json, Value};
use solana_sdk::{
    address_lookup_table::AddressLookupTableAccount,
    hash::Hash,
    instruction::{AccountMeta, Instruction},
    packet::PACKET_DATA_SIZE,
    pubkey::Pubkey,
    signature::Keypair,
    transaction::VersionedTransaction,
};
use std::{rc::Rc, str::FromStr};

#[derive(Clone, Debug)]
struct AbsAg {
    n: usize,
    payer: u8,
    m: bool,
}
#[derive(Clone, Debug)]
struct AbsPg {
    m: bool,
    ags: Vec<AbsAg>,
}
#[derive(Clone, Debug)]
struct AbsInput {
    pgs: Vec<AbsPg>,
    allow: bool,
}

fn key(rng: &mut Rng) -> Pubkey {
    let mut b = [0u8; 32];
    for c in b.chunks_mut(8) {
        c.copy_from_slice(&rng.next().to_le_bytes());
    }
    Pubkey::new_from_array(b)
}

struct World {
    payers: [Pubkey; 2],
    extra_signers: Vec<Pubkey>,
    pool: Vec<Pubkey>,
    programs: Vec<Pubkey>,
    luts: AddressLookupTables,
    n_luts: usize,
    opts: TransactionGroupOptions,
}

fn world(rng: &mut Rng) -> World {
    let payers = [key(rng), key(rng)];
    let extra_signers = vec![key(rng), key(rng)];
    let pool: Vec<Pubkey> = (0..14).map(|_| key(rng)).collect();
    let programs: Vec<Pubkey> = (0..3).map(|_| key(rng)).collect();
    let n_luts = *rng.pick(&[0usize, 0, 1, 2, 2, 3]);
    let mut luts = AddressLookupTables::default();
    for _ in 0..n_luts {
        let mut addrs = vec![];
        for p in pool.iter() {
            if rng.chance(1, 2) {
                addrs.push(*p);
            }
        }
        // things that must NOT be looked up even though a table lists them
        if rng.chance(1, 3) {
            addrs.push(*rng.pick(&programs));
        }
        if rng.chance(1, 3) {
            addrs.push(*rng.pick(&extra_signers));
        }
        if rng.chance(1, 4) {
            addrs.push(payers[rng.below(2) as usize]);
        }
        if rng.chance(1, 4) && !addrs.is_empty() {
            let d = addrs[0];
            addrs.push(d); // duplicate entry
        }
        luts.add(&AddressLookupTableAccount { key: key(rng), addresses: addrs });
    }
    let memo = if rng.chance(1, 6) { Some("verif-memo".repeat(1 + rng.below(3) as usize)) } else { None };
    let opts = TransactionGroupOptions {
        max_transaction_size: *rng.pick(&[PACKET_DATA_SIZE, PACKET_DATA_SIZE, 1000, 800, 640, 520]),
        max_instructions_per_tx: *rng.pick(&[2usize, 3, 3, 4, 6, 14]),
        memo,
        memo_signers: None,
        extra_compute_units: if rng.chance(1, 4) { Some(rng.below(100_000) as u32) } else { None },
    };
    World { payers, extra_signers, pool, programs, luts, n_luts, opts }
}

/// One concrete atomic group for an abstract one; `id` fixes the instruction tags (id * 10 + k).
fn realise_ag(rng_seed: u64, w: &World, a: &AbsAg, id: usize) -> AtomicGroup {
    let mut rng = Rng::new(rng_seed);
    let payer = w.payers[(a.payer - 1) as usize];
    let mut ixs = vec![];
    let mut signers: Vec<Pubkey> = vec![];
    let payer_signs_ix = a.n > 0 && rng.chance(5, 6);
    let payer_ix = rng.below(a.n.max(1) as u64) as usize;
    let fat = *rng.pick(&[0usize, 0, 8, 24, 60, 150]);
    for k in 0..a.n {
        let program = *rng.pick(&w.programs);
        let mut metas = vec![];
        if payer_signs_ix && k == payer_ix {
            metas.push(AccountMeta::new(payer, true));
            signers.push(payer);
        }
        let na = rng.below(7) as usize;
        for _ in 0..na {
            let (pk, can_sign) = match rng.below(12) {
                0 => (w.extra_signers[rng.below(2) as usize], true),
                1 => (*rng.pick(&w.programs), false), // a program id used as a plain account
                2 => (payer, false),                    // the payer as a non-signer account
                _ => (*rng.pick(&w.pool), false),
            };
            let is_signer = can_sign && rng.chance(3, 4);
            if is_signer {
                signers.push(pk);
            }
            metas.push(AccountMeta { pubkey: pk, is_signer, is_writable: rng.chance(1, 2) });
        }
        let tag = (id * 10 + k) as u16;
        let mut data = tag.to_le_bytes().to_vec();
        let extra = if fat == 0 { rng.below(6) as usize } else { rng.below(fat as u64 + 1) as usize };
        for _ in 0..extra {
            data.push(rng.next() as u8);
        }
        ixs.push(Instruction { program_id: program, accounts: metas, data });
    }
    let mut ag = AtomicGroup::with_instructions_and_options(&payer, ixs, AtomicGroupOptions { is_mergeable: a.m });
    for s in signers {
        ag.add_signer(&s);
    }
    ag.compute_budget_mut().set_limit(50_000 + rng.below(300_000) as u32);
    ag
}

fn payer_no(w: &World, p: &Pubkey) -> i64 {
    if *p == w.payers[0] {
        1
    } else if *p == w.payers[1] {
        2
    } else if *p == Pubkey::default() {
        0
    } else {
        9
    }
}

fn skip_program(p: &Pubkey) -> bool {
    *p == solana_sdk::compute_budget::id() || *p == Pubkey::from_str("MemoSq4gqABAXKb96qnH8TysNcWxMyWCqXgDLGmfcHr").unwrap()
}

fn tag_of(data: &[u8]) -> i64 {
    if data.len() >= 2 {
        u16::from_le_bytes([data[0], data[1]]) as i64
    } else {
        -1
    }
}

fn build_opts(o: &TransactionGroupOptions) -> GetInstructionsOptions {
    // what TransactionGroupOptions::instruction_options(&ComputeBudgetOptions::default()) yields
    GetInstructionsOptions {
        compute_budget: ComputeBudgetOptions::default(),
        memo: o.memo.clone(),
        memo_signers: o.memo_signers.clone(),
        extra_compute_units: o.extra_compute_units.unwrap_or(if o.memo.is_some() { 50_000 } else { 0 }),
    }
}

/// facts of one produced transaction, read back from its serialized bytes
fn tx_facts(w: &World, tx: &VersionedTransaction) -> (Vec<i64>, i64, usize) {
    let bytes = bincode::serialize(tx).expect("serialize");
    let back: VersionedTransaction = bincode::deserialize(&bytes).expect("deserialize");
    let keys = back.message.static_account_keys();
    let mut tags = vec![];
    for ix in back.message.instructions() {
        let pid = keys[ix.program_id_index as usize];
        if skip_program(&pid) {
            continue;
        }
        tags.push(tag_of(&ix.data));
    }
    (tags, payer_no(w, &keys[0]), bytes.len())
}

fn run_one(sink: &mut Sink, case_id: u64, inp: &AbsInput, seed: u64) {
    let mut rng = Rng::new(seed);
    let w = world(&mut rng);
    let ag_seeds: Vec<Vec<u64>> = inp.pgs.iter().map(|pg| pg.ags.iter().map(|_| rng.next()).collect()).collect();
    // pass 1: which parallel groups does `add` accept (validate_instruction_group is what add calls)
    let probe = TransactionGroup::with_options_and_luts(w.opts.clone(), w.luts.clone());
    let mut accepted: Vec<usize> = vec![];
    for (p, pg) in inp.pgs.iter().enumerate() {
        let ags: Vec<AtomicGroup> = pg.ags.iter().enumerate().map(|(k, a)| realise_ag(ag_seeds[p][k], &w, a, 0)).collect();
        let g = ParallelGroup::with_options(ags, ParallelGroupOptions { is_mergeable: pg.m });
        if probe.validate_instruction_group(&g).is_ok() {
            accepted.push(p);
        }
    }
    let rejected = inp.pgs.len() - accepted.len();
    if accepted.is_empty() {
        return;
    }
    // pass 2: final ids over the accepted groups, the real add
    let mut tg = TransactionGroup::with_options_and_luts(w.opts.clone(), w.luts.clone());
    let mut flat: Vec<AtomicGroup> = vec![];
    let mut pgs_json = vec![];
    let mut id = 0usize;
    for &p in accepted.iter() {
        let pg = &inp.pgs[p];
        let mut ags = vec![];
        let mut ags_json = vec![];
        for (k, a) in pg.ags.iter().enumerate() {
            id += 1;
            let ag = realise_ag(ag_seeds[p][k], &w, a, id);
            flat.push(ag.clone());
            ags.push(ag);
            ags_json.push(json!({"id": id, "n": a.n, "payer": a.payer, "m": a.m}));
        }
        pgs_json.push(json!({"m": pg.m, "ags": ags_json}));
        let g = ParallelGroup::with_options(ags, ParallelGroupOptions { is_mergeable: pg.m });
        tg.add(g).expect("group was validated before");
    }
    let n = flat.len();
    // the size oracle as the real estimator answers it (used for conformance only)
    let opts = build_opts(&w.opts);
    let mut fit = vec![vec![false; n]; n];
    for a in 0..n {
        let mut x = flat[a].clone();
        for b in (a + 1)..n {
            let y = &flat[b];
            let cnt = x.len() + y.len();
            let size = x.transaction_size_after_merge(y, true, Some(&w.luts), opts.clone());
            fit[a][b] = cnt <= w.opts.max_instructions_per_tx && size <= w.opts.max_transaction_size;
            x.merge(y.clone());
        }
    }
    let panicked = guarded(|| {
        tg.optimize(inp.allow);
    })
    .is_err();
    let mut out = vec![];
    let mut unbuilt = 0;
    if !panicked {
        let signers = TransactionSigners::<Rc<Keypair>>::default();
        let batches: Vec<_> = tg.to_transactions(&signers, Hash::default(), true).collect();
        for (b, res) in batches.into_iter().enumerate() {
            let pg = &tg.groups()[b];
            let mut txs_json = vec![];
            let built: Vec<Option<VersionedTransaction>> = match res {
                Ok(txs) => txs.into_iter().map(Some).collect(),
                Err(_) => pg
                    .iter()
                    .map(|ag| {
                        signers
                            .sign_atomic_instruction_group(ag, Hash::default(), opts.clone(), Some(&w.luts), true, |_| Ok(()))
                            .map_err(|err| {
                                if std::env::var("C41_DEBUG").is_ok() {
                                    eprintln!("case {case_id}: build error: {err}");
                                }
                            })
                            .ok()
                    })
                    .collect(),
            };
            for (t, ag) in pg.iter().enumerate() {
                let est = ag.transaction_size(true, Some(&w.luts), opts.clone());
                // what TransactionGroup::add looked at: the estimate WITHOUT the memo instruction
                let est0 = ag.transaction_size(true, Some(&w.luts), GetInstructionsOptions::default());
                match built.get(t).and_then(|x| x.as_ref()) {
                    Some(tx) => {
                        let (tags, payer, real) = tx_facts(&w, tx);
                        txs_json.push(json!({"ixs": tags, "payer": payer, "nix": tags.len(), "est": est, "est0": est0, "real": real, "built": true}));
                    }
                    None => {
                        unbuilt += 1;
                        let tags: Vec<i64> = ag.iter().map(|ix| tag_of(&ix.data)).collect();
                        txs_json.push(json!({"ixs": tags, "payer": payer_no(&w, ag.payer()), "nix": ag.len(), "est": est, "est0": est0, "real": 0, "built": false}));
                    }
                }
            }
            out.push(Value::Array(txs_json));
        }
    }
    sink.emit(json!({
        "case": case_id, "seed": seed.to_string(), "allow": inp.allow,
        "maxIx": w.opts.max_instructions_per_tx, "maxSize": w.opts.max_transaction_size,
        "memo": w.opts.memo.is_some(), "luts": w.n_luts, "rejected": rejected,
        "orig": abs_json(inp), "pgs": pgs_json, "fit": fit, "panic": panicked, "unbuilt": unbuilt, "out": out,
    }));
}

fn abs_json(inp: &AbsInput) -> Value {
    let pgs: Vec<Value> = inp
        .pgs
        .iter()
        .map(|pg| {
            let ags: Vec<Value> = pg.ags.iter().map(|a| json!({"n": a.n, "payer": a.payer, "m": a.m})).collect();
            json!({"m": pg.m, "ags": ags})
        })
        .collect();
    json!({"pgs": pgs, "allow": inp.allow})
}

fn parse_input(v: &Value) -> AbsInput {
    let pgs = v["pgs"]
        .as_array()
        .expect("pgs")
        .iter()
        .map(|pg| AbsPg {
            m: pg["m"].as_bool().unwrap(),
            ags: pg["ags"]
                .as_array()
                .unwrap()
                .iter()
                .map(|a| AbsAg { n: a["n"].as_u64().unwrap() as usize, payer: a["payer"].as_u64().unwrap() as u8, m: a["m"].as_bool().unwrap() })
                .collect(),
        })
        .collect();
    AbsInput { pgs, allow: v["allow"].as_bool().unwrap() }
}

/// a recorded event carries the seed of its realisation: replaying it reproduces the same instructions
fn fixed_seed(v: &Value) -> Option<u64> {
    v.get("seed").and_then(|s| s.as_str()).and_then(|s| s.parse().ok())
}

fn replay(args: &Args) -> i32 {
    let text = std::fs::read_to_string(args.str("in", "inputs.ndjson")).expect("read inputs");
    let reals = args.num("reals", 1);
    let seed = args.num("seed", 1);
    let mut sink = Sink::create(&args.str("out", "c41-replay.ndjson"));
    let mut case = 0u64;
    for line in text.lines().filter(|l| !l.trim().is_empty()) {
        let v: Value = serde_json::from_str(line).expect("json");
        let inp = parse_input(&v);
        if let Some(fs) = fixed_seed(&v) {
            case += 1;
            run_one(&mut sink, case, &inp, fs);
            continue;
        }
        for r in 0..reals {
            case += 1;
            run_one(&mut sink, case, &inp, seed ^ case.wrapping_mul(0x9E37) ^ (r << 48));
        }
    }
    println!("events {}", sink.finish());
    0
}

fn random(args: &Args) -> i32 {
    let n = args.num("n", 1000);
    let seed = args.num("seed", 1);
    let mut rng = Rng::new(seed ^ 0xC41);
    let mut sink = Sink::create(&args.str("out", "c41-random.ndjson"));
    for case in 1..=n {
        let npg = 1 + rng.below(4) as usize;
        // biased flags: mostly mergeable, otherwise little would be merged
        let pgs = (0..npg)
            .map(|_| AbsPg {
                m: rng.chance(4, 5),
                ags: (0..(1 + rng.below(2)))
                    .map(|_| AbsAg {
                        n: if rng.chance(1, 12) { 0 } else { 1 + rng.below(3) as usize },
                        payer: if rng.chance(3, 4) { 1 } else { 2 },
                        m: rng.chance(5, 6),
                    })
                    .collect(),
            })
            .collect();
        let inp = AbsInput { pgs, allow: rng.chance(1, 2) };
        run_one(&mut sink, case, &inp, rng.next());
    }
    println!("events {}", sink.finish());
    0
}

fn main() {
    h_sdk::util::quiet_panics();
    let (mode, args) = Args::from_env();
    let code = match mode.as_str() {
        "replay" => replay(&args),
        "random" => random(&args),
        _ => 2,
    };
    std::process::exit(code);
}
