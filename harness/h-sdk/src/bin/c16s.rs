//! C16 (SDK side): every market configuration key feeds the parameter of the SDK market model that it
//! names (crates/programs/src/model/market.rs).
//!
//! Exactly the writes of the store-side driver harness/h-programs/src/bin/c16.rs: every key / flag of the
//! program's enums (strum iteration), a distinct value per key, open / closed market x closed-market switch,
//! pure / impure.  The value is written into a REAL program `Market` through its public setters; the same
//! bytes are then reinterpreted as the SDK's `Market`, wrapped in `MarketModel`, and EVERY model-trait
//! parameter accessor is read from the SDK model, for every swap pricing kind.
//! Event = the store-side event (cfg0 / cfg through the program's getters by key, params = the SDK's
//! readings) plus  target: "sdk", pricing, zero_fees (what swap_fee_params reports under Shift pricing).
//! modes:  all --out FILE
use std::{collections::BTreeMap, sync::Arc};

use anchor_lang::prelude::Pubkey;
use anchor_lang::solana_program::{clock::Clock, program_stubs};
use gmsol_model::{
    pool::delta::BalanceChange, BaseMarket, BorrowingFeeMarket, LiquidityMarket, PerpMarket, PnlFactorKind,
    PositionImpactMarket, SwapMarket,
};
use gmsol_programs::{
    gmsol_store::accounts::Market as SdkMarket,
    model::{MarketModel, SwapPricingKind},
};
use gmsol_store::states::{
    market::config::{MarketConfigFlag, MarketConfigKey},
    Market,
};
use gmsol_utils::market::MarketFlag;
use h_sdk::util::{guarded, quiet_panics, Args, Sink};
use serde_json::{json, Map, Value};
use strum::IntoEnumIterator;

const UNIT: u128 = 100_000_000_000_000_000_000;

type KV = BTreeMap<String, String>;

struct Stubs;
impl program_stubs::SyscallStubs for Stubs {
    fn sol_get_clock_sysvar(&self, var_addr: *mut u8) -> u64 {
        let clock = Clock { slot: 1, epoch_start_timestamp: 0, epoch: 0, leader_schedule_epoch: 0, unix_timestamp: 1_700_000_000 };
        unsafe { std::ptr::write_unaligned(var_addr as *mut Clock, clock) };
        0
    }
    fn sol_log(&self, _message: &str) {}
}

fn to_obj(m: &KV) -> Value {
    Value::Object(m.iter().map(|(k, v)| (k.clone(), json!(v))).collect::<Map<_, _>>())
}

fn pk(i: u8) -> Pubkey {
    Pubkey::new_from_array([i; 32])
}

fn new_market(pure: bool) -> Box<Market> {
    let mut m: Box<Market> = Box::default();
    let long = pk(3);
    let short = if pure { long } else { pk(4) };
    m.init(254, pk(9), "C16", pk(1), pk(2), long, short, true).expect("Market::init");
    m
}

/// Full projection of the market configuration through the program's public getters (by string key).
fn market_cfg(m: &Market) -> KV {
    let mut out = KV::new();
    for k in MarketConfigKey::iter() {
        let name = k.to_string();
        let v = match m.get_config(&name) {
            Ok(v) => v.to_string(),
            Err(_) => "unimplemented".to_string(),
        };
        out.insert(name, v);
    }
    for f in MarketConfigFlag::iter() {
        let name = f.to_string();
        let v = match m.get_config_flag(&name) {
            Ok(v) => v.to_string(),
            Err(_) => "unimplemented".to_string(),
        };
        out.insert(format!("flag.{name}"), v);
    }
    out
}

fn r<T: ToString, E>(x: Result<T, E>) -> String {
    match x {
        Ok(v) => v.to_string(),
        Err(_) => "err".to_string(),
    }
}

/// `name: value` of a private field, read from the struct's `Debug` rendering (the parameter
/// struct has no public getter for it).
fn debug_field(dbg: &str, field: &str) -> String {
    let pat = format!("{field}: ");
    let mut best: Option<String> = None;
    let mut from = 0;
    while let Some(i) = dbg[from..].find(&pat) {
        let at = from + i;
        let boundary = at == 0 || !dbg.as_bytes()[at - 1].is_ascii_alphanumeric() && dbg.as_bytes()[at - 1] != b'_';
        if boundary {
            let rest = &dbg[at + pat.len()..];
            let end = rest.find(|c: char| c == ',' || c == ' ' || c == '}').unwrap_or(rest.len());
            best = Some(rest[..end].to_string());
            break;
        }
        from = at + pat.len();
    }
    best.unwrap_or_else(|| "err".into())
}

/// Every configuration-backed parameter of the model traits, read from ANY implementation (here: the SDK model).
fn market_params<M>(m: &M) -> KV
where
    M: PerpMarket<20, Num = u128, Signed = i128> + LiquidityMarket<20>,
{
    let mut p = KV::new();
    let side = |l: bool| if l { "long" } else { "short" };
    for l in [true, false] {
        p.insert(format!("max_pool_amount.{}", side(l)), r(m.max_pool_amount(l)));
        p.insert(format!("max_open_interest.{}", side(l)), r(m.max_open_interest(l)));
        p.insert(format!("max_pool_value_for_deposit.{}", side(l)), r(m.max_pool_value_for_deposit(l)));
        p.insert(
            format!("min_collateral_factor_for_open_interest_multiplier.{}", side(l)),
            r(m.min_collateral_factor_for_open_interest_multiplier(l)),
        );
        for kind in PnlFactorKind::iter() {
            p.insert(format!("pnl_factor_config.{kind}.{}", side(l)), r(m.pnl_factor_config(kind, l)));
        }
    }
    p.insert("reserve_factor".into(), r(m.reserve_factor()));
    p.insert("open_interest_reserve_factor".into(), r(m.open_interest_reserve_factor()));
    p.insert("ignore_open_interest_for_usage_factor".into(), r(m.ignore_open_interest_for_usage_factor()));
    match m.swap_impact_params() {
        Ok(x) => {
            p.insert("swap_impact_params.exponent".into(), x.exponent().to_string());
            p.insert("swap_impact_params.positive_factor".into(), x.positive_factor().to_string());
            p.insert("swap_impact_params.negative_factor".into(), x.negative_factor().to_string());
        }
        Err(_) => {
            p.insert("swap_impact_params.exponent".into(), "err".into());
        }
    }
    // FeeParams has no getters for the two factors: fee(change, 1 unit) = the factor that is applied
    let fee = |x: &gmsol_model::params::FeeParams<u128>, c: BalanceChange| -> String {
        x.fee::<{ 20 }>(c, &UNIT).map(|v| v.to_string()).unwrap_or("err".into())
    };
    if let Ok(x) = m.swap_fee_params() {
        p.insert("swap_fee_params.receiver_factor".into(), x.receiver_factor().to_string());
        p.insert("swap_fee_params.positive_impact_fee_factor".into(), fee(&x, BalanceChange::Improved));
        p.insert("swap_fee_params.negative_impact_fee_factor".into(), fee(&x, BalanceChange::Worsened));
    }
    if let Ok(x) = m.order_fee_params() {
        p.insert("order_fee_params.receiver_factor".into(), x.receiver_factor().to_string());
        p.insert("order_fee_params.positive_impact_fee_factor".into(), fee(&x, BalanceChange::Improved));
        p.insert("order_fee_params.negative_impact_fee_factor".into(), fee(&x, BalanceChange::Worsened));
    }
    if let Ok(x) = m.position_impact_params() {
        p.insert("position_impact_params.exponent".into(), x.exponent().to_string());
        p.insert("position_impact_params.positive_factor".into(), x.positive_factor().to_string());
        p.insert("position_impact_params.negative_factor".into(), x.negative_factor().to_string());
    }
    if let Ok(x) = m.position_impact_distribution_params() {
        p.insert("position_impact_distribution_params.distribute_factor".into(), x.distribute_factor().to_string());
        p.insert(
            "position_impact_distribution_params.min_position_impact_pool_amount".into(),
            x.min_position_impact_pool_amount().to_string(),
        );
    }
    if let Ok(x) = m.borrowing_fee_params() {
        p.insert("borrowing_fee_params.receiver_factor".into(), x.receiver_factor().to_string());
        p.insert(
            "borrowing_fee_params.skip_borrowing_fee_for_smaller_side".into(),
            x.skip_borrowing_fee_for_smaller_side().to_string(),
        );
        for l in [true, false] {
            p.insert(format!("borrowing_fee_params.factor.{}", side(l)), x.factor(l).to_string());
            p.insert(format!("borrowing_fee_params.exponent.{}", side(l)), x.exponent(l).to_string());
        }
    }
    if let Ok(x) = m.borrowing_fee_kink_model_params() {
        for l in [true, false] {
            p.insert(
                format!("borrowing_fee_kink_model_params.optimal_usage_factor.{}", side(l)),
                x.optimal_usage_factor(l).to_string(),
            );
            p.insert(
                format!("borrowing_fee_kink_model_params.base_borrowing_factor.{}", side(l)),
                x.base_borrowing_factor(l).to_string(),
            );
            p.insert(
                format!("borrowing_fee_kink_model_params.above_optimal_usage_borrowing_factor.{}", side(l)),
                x.above_optimal_usage_borrowing_factor(l).to_string(),
            );
        }
    }
    if let Ok(x) = m.funding_fee_params() {
        p.insert("funding_fee_params.exponent".into(), x.exponent().to_string());
        p.insert("funding_fee_params.factor".into(), x.factor().to_string());
        p.insert("funding_fee_params.max_factor_per_second".into(), x.max_factor_per_second().to_string());
        p.insert("funding_fee_params.min_factor_per_second".into(), x.min_factor_per_second().to_string());
        p.insert("funding_fee_params.increase_factor_per_second".into(), x.increase_factor_per_second().to_string());
        p.insert("funding_fee_params.decrease_factor_per_second".into(), x.decrease_factor_per_second().to_string());
        p.insert("funding_fee_params.threshold_for_stable_funding".into(), x.threshold_for_stable_funding().to_string());
        p.insert(
            "funding_fee_params.threshold_for_decrease_funding".into(),
            x.threshold_for_decrease_funding().to_string(),
        );
    }
    if let Ok(x) = m.position_params() {
        p.insert("position_params.min_position_size_usd".into(), x.min_position_size_usd().to_string());
        p.insert("position_params.min_collateral_value".into(), x.min_collateral_value().to_string());
        p.insert("position_params.min_collateral_factor".into(), x.min_collateral_factor().to_string());
        p.insert(
            "position_params.min_collateral_factor_for_liquidation".into(),
            x.min_collateral_factor_for_liquidation().to_string(),
        );
        p.insert(
            "position_params.max_positive_position_impact_factor".into(),
            x.max_positive_position_impact_factor().to_string(),
        );
        p.insert(
            "position_params.max_negative_position_impact_factor".into(),
            x.max_negative_position_impact_factor().to_string(),
        );
        p.insert(
            "position_params.max_position_impact_factor_for_liquidations".into(),
            x.max_position_impact_factor_for_liquidations().to_string(),
        );
    }
    if let Ok(x) = m.liquidation_fee_params() {
        let d = format!("{x:?}");
        p.insert("liquidation_fee_params.factor".into(), debug_field(&d, "factor"));
        p.insert("liquidation_fee_params.receiver_factor".into(), debug_field(&d, "receiver_factor"));
    }
    p
}


/// the same account bytes, as the SDK declares them
fn sdk_model(m: &Market) -> MarketModel {
    let sdk: SdkMarket = bytemuck::pod_read_unaligned(bytemuck::bytes_of(m));
    MarketModel::from_parts(Arc::new(sdk), 0)
}

const SHIFT_ZERO: [&str; 2] = ["swap_fee_params.positive_impact_fee_factor", "swap_fee_params.negative_impact_fee_factor"];

struct Out {
    sink: Sink,
    all_pricings: bool,
}

impl Out {
    /// one event per swap pricing kind (all four after the distinct values are in place, Swap only before)
    #[allow(clippy::too_many_arguments)]
    fn emit(&mut self, kind: &str, key: &str, v: &str, ok: bool, err: &str, panic: bool, m: &Market, cfg0: &KV) {
        let cfg = market_cfg(m);
        let pricings: &[(SwapPricingKind, &str)] = if self.all_pricings {
            &[(SwapPricingKind::Swap, "swap"), (SwapPricingKind::Deposit, "deposit"), (SwapPricingKind::Withdrawal, "withdrawal"), (SwapPricingKind::Shift, "shift")]
        } else {
            &[(SwapPricingKind::Swap, "swap")]
        };
        for (pricing, pname) in pricings {
            let mut model = sdk_model(m);
            let read = guarded(|| model.with_swap_pricing(*pricing, |mm| market_params(&*mm)));
            let (mut params, ppanic) = match read {
                Ok(p) => (p, false),
                Err(()) => (KV::new(), true),
            };
            // shifts are not charged swap fees: the two fee factors read zero by design and are logged apart
            let mut zero = KV::new();
            for a in SHIFT_ZERO {
                let val = if *pname == "shift" { params.remove(a).unwrap_or_else(|| "missing".into()) } else { "n/a".into() };
                zero.insert(a.rsplit('.').next().unwrap().to_string(), val);
            }
            self.sink.emit(json!({
                "op": "write", "scope": "market", "kind": kind, "key": key, "v": v, "ok": ok, "err": err,
                "panic": panic || ppanic, "closed": m.is_closed(), "cfg0": to_obj(cfg0), "cfg": to_obj(&cfg),
                "params": to_obj(&params), "target": "sdk", "pricing": pname, "zero_fees": to_obj(&zero),
            }));
        }
    }
}

fn write_factor(out: &mut Out, m: &mut Market, key: MarketConfigKey, v: u128) {
    let name = key.to_string();
    let cfg0 = market_cfg(m);
    let res = guarded(|| match m.get_config_mut(&name) {
        Ok(slot) => {
            *slot = v;
            Ok(())
        }
        Err(e) => Err(format!("{e:?}")),
    });
    let (ok, err, panic) = match res {
        Ok(Ok(())) => (true, String::new(), false),
        Ok(Err(e)) => (false, e.chars().take(80).collect(), false),
        Err(()) => (false, String::new(), true),
    };
    out.emit("factor", &name, &v.to_string(), ok, &err, panic, m, &cfg0);
}

fn write_flag(out: &mut Out, m: &mut Market, flag: MarketConfigFlag, v: bool) {
    let name = flag.to_string();
    let cfg0 = market_cfg(m);
    let res = guarded(|| m.set_config_flag(&name, v).map(|_| ()).map_err(|e| format!("{e:?}")));
    let (ok, err, panic) = match res {
        Ok(Ok(())) => (true, String::new(), false),
        Ok(Err(e)) => (false, e.chars().take(80).collect(), false),
        Err(()) => (false, String::new(), true),
    };
    out.emit("flag", &format!("flag.{name}"), &v.to_string(), ok, &err, panic, m, &cfg0);
}

fn market_part(out: &mut Out) {
    for pure in [false, true] {
        for closed in [false, true] {
            for enable in [false, true] {
                let mut m = new_market(pure);
                m.set_flag(MarketFlag::Closed, closed);
                out.all_pricings = false;
                write_flag(out, &mut m, MarketConfigFlag::EnableMarketClosedParams, enable);
                // pass 1: a distinct value per key (defaults contain duplicates)
                for (i, k) in MarketConfigKey::iter().enumerate() {
                    write_factor(out, &mut m, k, 1000 + i as u128);
                }
                // pass 2: rewrite every key while all others hold distinct values; every pricing kind
                out.all_pricings = true;
                for (i, k) in MarketConfigKey::iter().enumerate() {
                    write_factor(out, &mut m, k, 5000 + i as u128);
                }
                out.all_pricings = false;
                // zero is the documented "unset" of the liquidation collateral factors
                for (i, k) in MarketConfigKey::iter().enumerate() {
                    if k.to_string().contains("min_collateral_factor_for_liquidation") {
                        write_factor(out, &mut m, k, 0);
                        write_factor(out, &mut m, k, 9000 + i as u128);
                    }
                }
                // flags: walk all assignments of the flags (Gray code), toggling one flag per step
                let flags: Vec<MarketConfigFlag> = MarketConfigFlag::iter().collect();
                let n = flags.len().min(6);
                let mut cur = vec![false; n];
                for (j, f) in flags.iter().take(n).enumerate() {
                    cur[j] = m.get_config_flag_by_key(*f);
                }
                for step in 1u32..(1 << n) + 1 {
                    let j = step.trailing_zeros() as usize % n;
                    cur[j] = !cur[j];
                    write_flag(out, &mut m, flags[j], cur[j]);
                }
            }
        }
    }
}

fn main() {
    quiet_panics();
    program_stubs::set_syscall_stubs(Box::new(Stubs));
    let (mode, args) = Args::from_env();
    if mode != "all" {
        std::process::exit(2);
    }
    let mut out = Out { sink: Sink::create(&args.str("out", "c16s.ndjson")), all_pricings: false };
    market_part(&mut out);
    println!("events {}", out.sink.finish());
}
