//! C42: swap path search of the SDK (crates/sdk/src/market_graph/mod.rs).
//!
//! A graph is given abstractly (tokens 1..n, markets [a, b, cab, cba] with integer costs, 99 = no
//! estimation, inserted in the listed order).  The driver builds the REAL `MarketGraph` through the
//! `#[cfg(gmsol_verif)]` hook `market_graph::verif::graph_from_edges`, runs the real
//! `best_swap_paths(source, skip_bellman_ford)` + `BestSwapPaths::to(target)` for every ordered pair of
//! tokens and logs one event per (graph, max_steps) with all results.
//!
//! modes: replay --in graphs.ndjson --out trace.ndjson [--skip-every N]
//!        random --seed S --n N --out trace.ndjson
use gmsol_sdk::market_graph::verif::{best_path, graph_from_edges, rate_of_distance, EdgeSpec};
use h_sdk::util::{guarded, Args, Rng, Sink};
use rust_decimal::Decimal;
use serde_json::{json, Value};
use solana_sdk::pubkey::Pubkey;

const NO_EDGE: i64 = 99;

#[derive(Clone, Debug)]
struct Mk {
    a: usize,
    b: usize,
    cab: i64,
    cba: i64,
}

fn token(i: usize) -> Pubkey {
    let mut b = [7u8; 32];
    b[0] = i as u8;
    b[31] = 0xA0;
    Pubkey::new_from_array(b)
}
fn market(i: usize) -> Pubkey {
    let mut b = [9u8; 32];
    b[0] = i as u8;
    b[31] = 0xB0;
    Pubkey::new_from_array(b)
}

fn cost(c: i64) -> Option<Decimal> {
    (c != NO_EDGE).then(|| Decimal::from(c))
}

fn dec_to_int(d: &Decimal) -> Option<i64> {
    let n = d.normalize();
    if n.scale() != 0 {
        return None;
    }
    i64::try_from(n.mantissa()).ok()
}

fn run_graph(sink: &mut Sink, case: u64, n: usize, mks: &[Mk], k: usize, skip_mode: u8) {
    let edges: Vec<EdgeSpec> = mks
        .iter()
        .enumerate()
        .map(|(i, m)| EdgeSpec { market: market(i + 1), token_a: token(m.a), token_b: token(m.b), cost_ab: cost(m.cab), cost_ba: cost(m.cba) })
        .collect();
    let graph = graph_from_edges(&edges, k);
    let known: Vec<bool> = (1..=n).map(|t| mks.iter().any(|m| m.a == t || m.b == t)).collect();
    let mut res = vec![];
    for src in 1..=n {
        for dst in 1..=n {
            // a token no market mentions is not part of the graph at all (the search reports an error)
            if !known[src - 1] || !known[dst - 1] {
                continue;
            }
            for skip in [false, true] {
                if (skip && skip_mode == 0) || (!skip && skip_mode == 2) {
                    continue;
                }
                let r = guarded(|| best_path(&graph, &token(src), &token(dst), skip));
                let mut o = json!({"src": src, "dst": dst, "skip": skip, "err": false, "panic": false, "found": false,
                                   "path": [], "cost": 0, "has_dist": false, "rate_ok": true, "arb": "none"});
                match r {
                    Err(()) => {
                        o["panic"] = json!(true);
                        o["err"] = json!(true);
                    }
                    Ok(Err(_)) => o["err"] = json!(true),
                    Ok(Ok(sr)) => {
                        o["found"] = json!(sr.rate.is_some());
                        let path: Vec<usize> = sr
                            .path
                            .iter()
                            .map(|p| (1..=mks.len()).find(|i| market(*i) == *p).unwrap_or(0))
                            .collect();
                        o["path"] = json!(path);
                        if let Some(d) = sr.distance {
                            o["has_dist"] = json!(true);
                            match dec_to_int(&d) {
                                Some(v) => o["cost"] = json!(v),
                                None => o["rate_ok"] = json!(false), // a distance that is not a sum of the integer costs
                            }
                            if let Some(rate) = sr.rate {
                                if rate != rate_of_distance(d) {
                                    o["rate_ok"] = json!(false);
                                }
                            }
                        } else if sr.rate.is_some() {
                            o["rate_ok"] = json!(false);
                        }
                        o["arb"] = json!(match sr.arbitrage_exists {
                            None => "none",
                            Some(true) => "true",
                            Some(false) => "false",
                        });
                    }
                }
                res.push(o);
            }
        }
    }
    let mk: Vec<Value> = mks.iter().map(|m| json!({"a": m.a, "b": m.b, "cab": m.cab, "cba": m.cba})).collect();
    sink.emit(json!({"case": case, "g": {"n": n, "mk": mk}, "k": k, "res": res}));
}

fn parse(v: &Value) -> (usize, Vec<Mk>, usize) {
    let g = &v["g"];
    let mks = g["mk"]
        .as_array()
        .unwrap()
        .iter()
        .map(|m| Mk { a: m["a"].as_u64().unwrap() as usize, b: m["b"].as_u64().unwrap() as usize, cab: m["cab"].as_i64().unwrap(), cba: m["cba"].as_i64().unwrap() })
        .collect();
    (g["n"].as_u64().unwrap() as usize, mks, v["k"].as_u64().unwrap() as usize)
}

fn replay(args: &Args) -> i32 {
    let text = std::fs::read_to_string(args.str("in", "graphs.ndjson")).expect("read graphs");
    let mut sink = Sink::create(&args.str("out", "c42-replay.ndjson"));
    let skip_every = args.num("skip-every", 0);
    let mut case = 0;
    for line in text.lines().filter(|l| !l.trim().is_empty()) {
        let v: Value = serde_json::from_str(line).expect("json");
        let (n, mks, k) = parse(&v);
        case += 1;
        // mode 0: Bellman-Ford with DFS fallback (the default of the SDK); 1: additionally DFS only
        let mode = if skip_every > 0 && case % skip_every == 0 { 1 } else { 0 };
        run_graph(&mut sink, case, n, &mks, k, mode);
    }
    println!("events {}", sink.finish());
    0
}

fn random(args: &Args) -> i32 {
    let n_cases = args.num("n", 1000);
    let mut rng = Rng::new(args.num("seed", 1) ^ 0xC42);
    let mut sink = Sink::create(&args.str("out", "c42-random.ndjson"));
    for case in 1..=n_cases {
        let n = 2 + rng.below(3) as usize; // 2..4 tokens
        let nm = 1 + rng.below(4) as usize; // 1..4 markets
        let nonneg = rng.chance(1, 2); // half of the graphs cannot have a negative cycle
        let mks: Vec<Mk> = (0..nm)
            .map(|_| {
                let a = 1 + rng.below(n as u64) as usize;
                let mut b = 1 + rng.below(n as u64) as usize;
                if b == a {
                    b = a % n + 1;
                }
                let mut c = |rng: &mut Rng| {
                    if rng.chance(1, 10) {
                        NO_EDGE
                    } else if nonneg {
                        rng.range(0, 3)
                    } else {
                        rng.range(-2, 3)
                    }
                };
                let (cab, cba) = (c(&mut rng), c(&mut rng));
                if rng.chance(1, 2) { Mk { a, b, cab, cba } } else { Mk { a: b, b: a, cab: cba, cba: cab } }
            })
            .collect();
        let k = 1 + rng.below(3) as usize;
        run_graph(&mut sink, case, n, &mks, k, if rng.chance(1, 4) { 1 } else { 0 });
    }
    println!("events {}", sink.finish());
    0
}

fn main() {
    h_sdk::util::quiet_panics();
    let (mode, args) = Args::from_env();
    let code = match mode.as_str() {
        "replay" => replay(&args),
        "random" => random(&args),
        _ => 2,
    };
    std::process::exit(code);
}
