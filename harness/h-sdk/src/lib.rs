//! h-sdk: shared pieces for the property drivers (each driver is a binary under src/bin/).
pub mod util;
