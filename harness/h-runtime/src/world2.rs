//! World R2: a store with a token map, custom price feeds, shared market vaults, several markets and
//! funded users, brought up through the REAL store / SPL instructions executed by the in-process
//! runtime, plus builders for the user-action instructions (deposit / withdrawal / order / shift).
//!
//! Real instructions: `initialize`, `enable_role`, `grant_role`, `initialize_token_map`, `set_token_map`,
//! `push_to_token_map(_synthetic)`, `initialize_market_vault`, `initialize_market`, `initialize_oracle`,
//! `initialize_price_feed`, `update_market_config`, `prepare_user`, SPL mint / ATA creation, and every
//! action instruction. Fabricated: the zeroed `Oracle` account (bigger than a CPI allocation may be;
//! `initialize_oracle` itself is real) and the PRICE written into the custom `PriceFeed` accounts (the
//! real writer `update_price_feed_with_chainlink` needs a signed Chainlink report and the verifier
//! program); prices are written with the `PriceFeed` verification hook `set_state`, so everything that
//! READS a price (`with_prices` -> `PriceFeed::check_and_get_price` -> `PriceValidator`) is real.
use anchor_lang::solana_program::{instruction::{AccountMeta, Instruction}, pubkey::Pubkey, system_program};
use gmsol_store::states::{
    common::action::Action, Deposit, Market, Oracle, Order, PriceFeed, PriceFeedPrice, PriceProviderKind, RoleKey, Seed, Shift,
    Store, Withdrawal,
};
use gmsol_utils::{price::PriceFlag, token_config::UpdateTokenConfigParams};

use crate::runtime::{
    keys::Labels,
    market::{market_pda, market_token_mint_pda, market_vault_pda},
    spl, store as st, Account, ExecResult, World,
};

pub const EXEC_LAMPORTS: u64 = 300_000;
pub const EXEC_FEE: u64 = 250_000;

#[derive(Clone, Debug)]
pub struct Tok {
    pub label: String,
    pub mint: Pubkey,
    pub decimals: u8,
    /// synthetic tokens have no mint and no vault
    pub synthetic: bool,
    pub feed: Pubkey,
    pub feed_id: Pubkey,
    pub vault: Pubkey,
    /// USD price (whole dollars) used by `refresh_prices`
    pub price: u64,
}

#[derive(Clone, Debug)]
pub struct Mkt {
    pub label: String,
    pub market: Pubkey,
    pub market_token: Pubkey,
    pub mt_vault: Pubkey,
    pub index: usize,
    pub long: usize,
    pub short: usize,
}

impl Mkt {
    pub fn is_pure(&self) -> bool {
        self.long == self.short
    }
}

#[derive(Clone)]
pub struct R2 {
    pub labels: Labels,
    pub admin: Pubkey,
    pub keeper: Pubkey,
    pub stranger: Pubkey,
    pub users: Vec<Pubkey>,
    pub store: Pubkey,
    pub store_wallet: Pubkey,
    pub token_map: Pubkey,
    pub oracle: Pubkey,
    pub toks: Vec<Tok>,
    pub mkts: Vec<Mkt>,
}

pub fn must(what: &str, r: ExecResult) -> ExecResult {
    assert!(r.ok, "{what} failed: {} {:?}\n{}", r.err_name, r.runtime_error, r.logs.join("\n"));
    r
}

/// (label, decimals, synthetic, usd price)
pub type TokSpec<'a> = (&'a str, u8, bool, u64);
/// (label, index token, long token, short token) by token label
pub type MktSpec<'a> = (&'a str, &'a str, &'a str, &'a str);

pub const DEFAULT_TOKS: [TokSpec<'static>; 4] = [("A", 2, false, 100), ("B", 2, false, 1), ("C", 2, false, 10), ("X", 4, true, 50)];
pub const DEFAULT_MKTS: [MktSpec<'static>; 4] =
    [("M1", "A", "A", "B"), ("M2", "X", "A", "B"), ("M3", "C", "C", "B"), ("MP", "B", "B", "B")];

impl R2 {
    /// Bring the world up. `users` get `funds` units of every real token (ATAs) and a prepared user account.
    pub fn build(w: &mut World, toks: &[TokSpec], mkts: &[MktSpec], n_users: usize, funds: u64) -> R2 {
        let mut labels = Labels::new();
        let admin = labels.key("admin");
        let keeper = labels.key("keeper");
        let stranger = labels.key("stranger");
        w.airdrop(&keeper, 1_000_000_000_000);
        w.airdrop(&stranger, 1_000_000_000_000);
        let roles = [RoleKey::MARKET_KEEPER, RoleKey::ORDER_KEEPER, RoleKey::PRICE_KEEPER, RoleKey::ORACLE_CONTROLLER];
        let grants: Vec<(&str, Pubkey)> = roles.iter().map(|r| (*r, keeper)).collect();
        let store = st::bootstrap(w, &admin, &roles, &grants);
        labels.bind(store, "store");
        let store_wallet = Pubkey::find_program_address(&[Store::WALLET_SEED, store.as_ref()], &gmsol_store::ID).0;
        labels.bind(store_wallet, "store_wallet");
        // token map
        let token_map = labels.key("token_map");
        must(
            "initialize_token_map",
            w.execute(
                &st::ix(
                    gmsol_store::accounts::InitializeTokenMap { payer: keeper, store, token_map, system_program: system_program::ID },
                    gmsol_store::instruction::InitializeTokenMap {},
                ),
                &[keeper, token_map],
            ),
        );
        must(
            "set_token_map",
            w.execute(
                &st::ix(gmsol_store::accounts::SetTokenMap { authority: keeper, store, token_map }, gmsol_store::instruction::SetTokenMap {}),
                &[keeper],
            ),
        );
        // oracle: zeroed account fabricated (too large for a CPI allocation), initialised by the real instruction
        let oracle = labels.key("oracle");
        w.set_account(
            oracle,
            Account { owner: gmsol_store::ID, lamports: 1_000_000_000, data: vec![0u8; 8 + std::mem::size_of::<Oracle>()], executable: false },
        );
        must(
            "initialize_oracle",
            w.execute(
                &st::ix(
                    gmsol_store::accounts::InitializeOracle { payer: keeper, authority: keeper, store, oracle, system_program: system_program::ID },
                    gmsol_store::instruction::InitializeOracle {},
                ),
                &[keeper],
            ),
        );
        // tokens
        let provider = PriceProviderKind::ChainlinkDataStreams;
        let mut tv: Vec<Tok> = Vec::new();
        for (i, (label, decimals, synthetic, price)) in toks.iter().enumerate() {
            let mint = labels.key(&format!("mint-{label}"));
            labels.bind(mint, label);
            let feed_id = labels.key(&format!("feedid-{label}"));
            let index = i as u16;
            let feed = Pubkey::find_program_address(
                &[PriceFeed::SEED, store.as_ref(), keeper.as_ref(), &index.to_le_bytes(), &[provider as u8], mint.as_ref()],
                &gmsol_store::ID,
            )
            .0;
            labels.bind(feed, &format!("feed-{label}"));
            let builder = UpdateTokenConfigParams::default()
                .update_price_feed(&provider, feed_id, None)
                .expect("feed slot")
                .with_expected_provider(provider)
                .with_heartbeat_duration(60);
            if *synthetic {
                must(
                    "push_to_token_map_synthetic",
                    w.execute(
                        &st::ix(
                            gmsol_store::accounts::PushToTokenMapSynthetic { authority: keeper, store, token_map, system_program: system_program::ID },
                            gmsol_store::instruction::PushToTokenMapSynthetic {
                                name: label.to_string(),
                                token: mint,
                                token_decimals: *decimals,
                                builder,
                                enable: true,
                                new: true,
                            },
                        ),
                        &[keeper],
                    ),
                );
            } else {
                must("create mint", spl::create_mint(w, &keeper, &mint, *decimals, &keeper));
                must(
                    "push_to_token_map",
                    w.execute(
                        &st::ix(
                            gmsol_store::accounts::PushToTokenMap { authority: keeper, store, token_map, token: mint, system_program: system_program::ID },
                            gmsol_store::instruction::PushToTokenMap { name: label.to_string(), builder, enable: true, new: true },
                        ),
                        &[keeper],
                    ),
                );
                must("initialize_market_vault", init_vault(w, &store, &keeper, &mint));
            }
            must(
                "initialize_price_feed",
                w.execute(
                    &st::ix(
                        gmsol_store::accounts::InitializePriceFeed { authority: keeper, store, price_feed: feed, system_program: system_program::ID },
                        gmsol_store::instruction::InitializePriceFeed { index, provider: provider as u8, token: mint, feed_id },
                    ),
                    &[keeper],
                ),
            );
            let vault = market_vault_pda(&store, &mint);
            if !*synthetic {
                labels.bind(vault, &format!("vault-{label}"));
            }
            tv.push(Tok { label: label.to_string(), mint, decimals: *decimals, synthetic: *synthetic, feed, feed_id, vault, price: *price });
        }
        // markets
        let ti = |l: &str| tv.iter().position(|t| t.label == l).unwrap_or_else(|| panic!("token {l}"));
        let mut mv: Vec<Mkt> = Vec::new();
        for (label, index, long, short) in mkts {
            let (index, long, short) = (ti(index), ti(long), ti(short));
            let market_token = market_token_mint_pda(&store, &tv[index].mint, &tv[long].mint, &tv[short].mint);
            let market = market_pda(&store, &market_token);
            labels.bind(market, label);
            labels.bind(market_token, &format!("mt-{label}"));
            must(
                "initialize_market",
                w.execute(
                    &st::ix(
                        gmsol_store::accounts::InitializeMarket {
                            authority: keeper,
                            store,
                            market_token_mint: market_token,
                            long_token_mint: tv[long].mint,
                            short_token_mint: tv[short].mint,
                            market,
                            token_map,
                            long_token_vault: tv[long].vault,
                            short_token_vault: tv[short].vault,
                            system_program: system_program::ID,
                            token_program: spl_token::ID,
                        },
                        gmsol_store::instruction::InitializeMarket { index_token_mint: tv[index].mint, name: label.to_string(), enable: true },
                    ),
                    &[keeper],
                ),
            );
            must("initialize_market_vault (market token)", init_vault(w, &store, &keeper, &market_token));
            let mt_vault = market_vault_pda(&store, &market_token);
            labels.bind(mt_vault, &format!("vault-mt-{label}"));
            mv.push(Mkt { label: label.to_string(), market, market_token, mt_vault, index, long, short });
        }
        // users
        let mut users = Vec::new();
        for i in 1..=n_users {
            let u = labels.key(&format!("u{i}"));
            w.airdrop(&u, 1_000_000_000_000);
            must("prepare_user", st::prepare_user(w, &store, &u).1);
            for t in tv.iter().filter(|t| !t.synthetic) {
                let (ata, r) = spl::create_ata(w, &keeper, &u, &t.mint);
                must("create ata", r);
                must("mint_to", spl::mint_to(w, &t.mint, &ata, &keeper, funds));
            }
            for m in &mv {
                must("create mt ata", spl::create_ata(w, &keeper, &u, &m.market_token).1);
            }
            users.push(u);
        }
        let r2 = R2 { labels, admin, keeper, stranger, users, store, store_wallet, token_map, oracle, toks: tv, mkts: mv };
        r2.refresh_prices(w);
        r2
    }

    pub fn tok(&self, label: &str) -> &Tok {
        self.toks.iter().find(|t| t.label == label).unwrap_or_else(|| panic!("token {label}"))
    }
    pub fn mkt(&self, label: &str) -> &Mkt {
        self.mkts.iter().find(|m| m.label == label).unwrap_or_else(|| panic!("market {label}"))
    }
    pub fn tok_by_mint(&self, mint: &Pubkey) -> Option<&Tok> {
        self.toks.iter().find(|t| t.mint == *mint)
    }
    pub fn mkt_by_token(&self, market_token: &Pubkey) -> Option<&Mkt> {
        self.mkts.iter().find(|m| m.market_token == *market_token)
    }
    pub fn mkt_by_key(&self, market: &Pubkey) -> Option<&Mkt> {
        self.mkts.iter().find(|m| m.market == *market)
    }
    pub fn user(&self, label: &str) -> Pubkey {
        match label {
            "keeper" => self.keeper,
            "stranger" => self.stranger,
            "admin" => self.admin,
            l => self.users[l[1..].parse::<usize>().expect("user label") - 1],
        }
    }
    pub fn ata(&self, owner: &Pubkey, mint: &Pubkey) -> Pubkey {
        spl::ata(owner, mint)
    }
    pub fn balance(&self, w: &World, account: &Pubkey) -> u64 {
        spl::token_balance(w, account).unwrap_or(0)
    }

    // ---------------------------------------------------------------- prices (fabricated writer)
    /// Write `price` (whole USD, spread `spread_bp` basis points around it) with timestamp `ts` / `slot`.
    pub fn set_price(&self, w: &mut World, tok: &Tok, price: u64, spread_bp: u64, ts: i64, slot: u64) {
        let mut acc = w.account(&tok.feed).expect("feed account").clone();
        let n = std::mem::size_of::<PriceFeed>();
        let mut pf: PriceFeed = bytemuck::pod_read_unaligned(&acc.data[8..8 + n]);
        let p = price as u128 * 100_000_000;
        let d = p * spread_bp as u128 / 10_000;
        let mut pr = PriceFeedPrice::new(8, ts, p, p - d, p + d, 0);
        pr.set_flag(PriceFlag::Open, true);
        gmsol_store::states::oracle::verif::feed::set_state(&mut pf, slot, ts, &pr);
        acc.data[8..8 + n].copy_from_slice(bytemuck::bytes_of(&pf));
        w.set_account(tok.feed, acc);
    }

    /// All feeds publish their token's nominal price "now".
    pub fn refresh_prices(&self, w: &mut World) {
        let (ts, slot) = w.clock();
        for t in &self.toks {
            self.set_price(w, t, t.price, 0, ts, slot);
        }
    }

    /// feed accounts for the (sorted) token list of a swap-params block, then the swap markets
    /// (unique, excluding the current market), as the execute instructions expect them
    fn exec_remaining(&self, tokens: &[Pubkey], path: &[Pubkey], current_market_token: &Pubkey) -> Vec<AccountMeta> {
        let mut v = Vec::new();
        for t in tokens {
            let feed = self.tok_by_mint(t).map(|t| t.feed).unwrap_or_default();
            v.push(AccountMeta::new_readonly(feed, false));
        }
        let mut seen = vec![*current_market_token];
        for mt in path {
            if !seen.contains(mt) {
                seen.push(*mt);
                v.push(AccountMeta::new(market_pda(&self.store, mt), false));
            }
        }
        v
    }

    pub fn market_state(&self, w: &World, m: &Mkt) -> Market {
        w.account_data::<Market>(&m.market).expect("market account")
    }

    // ---------------------------------------------------------------- market config
    pub fn update_market_config(&self, w: &mut World, m: &Mkt, key: &str, value: u128) -> ExecResult {
        w.execute(
            &st::ix(
                gmsol_store::accounts::UpdateMarketConfig { authority: self.keeper, store: self.store, market: m.market },
                gmsol_store::instruction::UpdateMarketConfig { key: key.to_string(), value },
            ),
            &[self.keeper],
        )
    }

    // ---------------------------------------------------------------- deposits
    pub fn deposit_pda(&self, owner: &Pubkey, nonce: &[u8; 32]) -> Pubkey {
        Pubkey::find_program_address(&[Deposit::SEED, self.store.as_ref(), owner.as_ref(), nonce], &gmsol_store::ID).0
    }

    /// The owner's preparation (escrow ATAs) + `create_deposit`, as ONE transaction.
    /// `long_in` / `short_in`: initial token (by index into `toks`) and amount; swap paths by market index.
    #[allow(clippy::too_many_arguments)]
    pub fn create_deposit(
        &self,
        w: &mut World,
        owner: &Pubkey,
        m: &Mkt,
        nonce: &[u8; 32],
        long_in: Option<(usize, u64)>,
        short_in: Option<(usize, u64)>,
        min_market_token: u64,
        long_path: &[usize],
        short_path: &[usize],
        exec_lamports: u64,
    ) -> ExecResult {
        let deposit = self.deposit_pda(owner, nonce);
        let mut ixs = vec![ata_ix(owner, &deposit, &m.market_token)];
        let lt = long_in.map(|(t, _)| self.toks[t].mint);
        let stk = short_in.map(|(t, _)| self.toks[t].mint);
        for t in [lt, stk].into_iter().flatten() {
            ixs.push(ata_ix(owner, &deposit, &t));
        }
        let mut ix = st::ix(
            gmsol_store::accounts::CreateDeposit {
                owner: *owner,
                receiver: *owner,
                store: self.store,
                market: m.market,
                deposit,
                market_token: m.market_token,
                initial_long_token: lt,
                initial_short_token: stk,
                market_token_escrow: spl::ata(&deposit, &m.market_token),
                initial_long_token_escrow: lt.map(|t| spl::ata(&deposit, &t)),
                initial_short_token_escrow: stk.map(|t| spl::ata(&deposit, &t)),
                market_token_ata: spl::ata(owner, &m.market_token),
                initial_long_token_source: lt.map(|t| spl::ata(owner, &t)),
                initial_short_token_source: stk.map(|t| spl::ata(owner, &t)),
                system_program: system_program::ID,
                token_program: spl_token::ID,
                associated_token_program: spl_associated_token_account::ID,
            },
            gmsol_store::instruction::CreateDeposit {
                nonce: *nonce,
                params: gmsol_store::ops::deposit::CreateDepositParams {
                    execution_lamports: exec_lamports,
                    long_token_swap_length: long_path.len() as u8,
                    short_token_swap_length: short_path.len() as u8,
                    initial_long_token_amount: long_in.map(|x| x.1).unwrap_or(0),
                    initial_short_token_amount: short_in.map(|x| x.1).unwrap_or(0),
                    min_market_token_amount: min_market_token,
                    should_unwrap_native_token: false,
                },
            },
        );
        for i in long_path.iter().chain(short_path.iter()) {
            ix.accounts.push(AccountMeta::new_readonly(self.mkts[*i].market, false));
        }
        ixs.push(ix);
        w.execute_tx(&ixs, &[*owner])
    }

    pub fn deposit(&self, w: &World, deposit: &Pubkey) -> Option<Deposit> {
        match w.account(deposit) {
            Some(a) if a.owner == gmsol_store::ID => w.account_data::<Deposit>(deposit),
            _ => None,
        }
    }

    /// `execute_deposit` as a keeper would build it from the deposit account. `wrong_vault`: pass the
    /// vault of another token (a hard failure).
    pub fn execute_deposit(&self, w: &mut World, executor: &Pubkey, deposit: &Pubkey, throw: bool, fee: u64) -> ExecResult {
        let ix = self.execute_deposit_ix(w, executor, deposit, throw, fee);
        w.execute(&ix, &[*executor])
    }

    pub fn execute_deposit_ix(&self, w: &World, executor: &Pubkey, deposit: &Pubkey, throw: bool, fee: u64) -> Instruction {
        let Some(d) = self.deposit(w, deposit) else {
            return self.execute_missing_ix(executor, deposit);
        };
        let lt = d.tokens().initial_long_token.token();
        let stk = d.tokens().initial_short_token.token();
        let mt = d.tokens().market_token();
        let m = self.mkt_by_token(&mt).expect("market of deposit");
        let mut ix = st::ix(
            gmsol_store::accounts::ExecuteDeposit {
                authority: *executor,
                store: self.store,
                token_map: self.token_map,
                oracle: self.oracle,
                market: m.market,
                deposit: *deposit,
                market_token: mt,
                initial_long_token: lt,
                initial_short_token: stk,
                market_token_escrow: d.tokens().market_token_account(),
                initial_long_token_escrow: d.tokens().initial_long_token.account(),
                initial_short_token_escrow: d.tokens().initial_short_token.account(),
                initial_long_token_vault: lt.map(|t| market_vault_pda(&self.store, &t)),
                initial_short_token_vault: stk.map(|t| market_vault_pda(&self.store, &t)),
                token_program: spl_token::ID,
                system_program: system_program::ID,
                chainlink_program: None,
                event_authority: st::event_authority(&gmsol_store::ID),
                program: gmsol_store::ID,
            },
            gmsol_store::instruction::ExecuteDeposit { execution_fee: fee, throw_on_execution_error: throw },
        );
        let path: Vec<Pubkey> = d.swap().iter().copied().collect();
        ix.accounts.extend(self.exec_remaining(d.swap().tokens(), &path, &mt));
        payer_writable(&mut ix, executor);
        ix
    }

    /// executing an action whose account does not exist (closed): a minimal instruction that must fail
    pub fn execute_missing_ix(&self, executor: &Pubkey, action: &Pubkey) -> Instruction {
        let m = &self.mkts[0];
        st::ix(
            gmsol_store::accounts::ExecuteDeposit {
                authority: *executor,
                store: self.store,
                token_map: self.token_map,
                oracle: self.oracle,
                market: m.market,
                deposit: *action,
                market_token: m.market_token,
                initial_long_token: None,
                initial_short_token: None,
                market_token_escrow: spl::ata(action, &m.market_token),
                initial_long_token_escrow: None,
                initial_short_token_escrow: None,
                initial_long_token_vault: None,
                initial_short_token_vault: None,
                token_program: spl_token::ID,
                system_program: system_program::ID,
                chainlink_program: None,
                event_authority: st::event_authority(&gmsol_store::ID),
                program: gmsol_store::ID,
            },
            gmsol_store::instruction::ExecuteDeposit { execution_fee: EXEC_FEE, throw_on_execution_error: false },
        )
    }

    /// `close_deposit` by `executor`. `owner` / tokens are what the creator remembers (a closed
    /// account cannot be read back).
    pub fn close_deposit(
        &self,
        w: &mut World,
        executor: &Pubkey,
        owner: &Pubkey,
        deposit: &Pubkey,
        m: &Mkt,
        lt: Option<Pubkey>,
        stk: Option<Pubkey>,
    ) -> ExecResult {
        let ix = st::ix(
            gmsol_store::accounts::CloseDeposit {
                executor: *executor,
                store: self.store,
                store_wallet: self.store_wallet,
                owner: *owner,
                receiver: *owner,
                market_token: m.market_token,
                initial_long_token: lt,
                initial_short_token: stk,
                deposit: *deposit,
                market_token_escrow: spl::ata(deposit, &m.market_token),
                initial_long_token_escrow: lt.map(|t| spl::ata(deposit, &t)),
                initial_short_token_escrow: stk.map(|t| spl::ata(deposit, &t)),
                market_token_ata: spl::ata(owner, &m.market_token),
                initial_long_token_ata: lt.map(|t| spl::ata(owner, &t)),
                initial_short_token_ata: stk.map(|t| spl::ata(owner, &t)),
                system_program: system_program::ID,
                token_program: spl_token::ID,
                associated_token_program: spl_associated_token_account::ID,
                event_authority: st::event_authority(&gmsol_store::ID),
                program: gmsol_store::ID,
            },
            gmsol_store::instruction::CloseDeposit { reason: "verif".into() },
        );
        w.execute(&ix, &[*executor])
    }

    // ---------------------------------------------------------------- withdrawals
    pub fn withdrawal_pda(&self, owner: &Pubkey, nonce: &[u8; 32]) -> Pubkey {
        Pubkey::find_program_address(&[Withdrawal::SEED, self.store.as_ref(), owner.as_ref(), nonce], &gmsol_store::ID).0
    }

    /// escrow ATAs + `create_withdrawal` in one transaction; final tokens by index into `toks`.
    #[allow(clippy::too_many_arguments)]
    pub fn create_withdrawal(
        &self,
        w: &mut World,
        owner: &Pubkey,
        m: &Mkt,
        nonce: &[u8; 32],
        market_token_amount: u64,
        final_long: usize,
        final_short: usize,
        min_long: u64,
        min_short: u64,
        long_path: &[usize],
        short_path: &[usize],
        exec_lamports: u64,
    ) -> ExecResult {
        let wd = self.withdrawal_pda(owner, nonce);
        let (fl, fs) = (self.toks[final_long].mint, self.toks[final_short].mint);
        let mut ixs = vec![ata_ix(owner, &wd, &m.market_token), ata_ix(owner, &wd, &fl)];
        if fs != fl {
            ixs.push(ata_ix(owner, &wd, &fs));
        }
        let mut ix = st::ix(
            gmsol_store::accounts::CreateWithdrawal {
                owner: *owner,
                receiver: *owner,
                store: self.store,
                market: m.market,
                withdrawal: wd,
                market_token: m.market_token,
                final_long_token: fl,
                final_short_token: fs,
                market_token_escrow: spl::ata(&wd, &m.market_token),
                final_long_token_escrow: spl::ata(&wd, &fl),
                final_short_token_escrow: spl::ata(&wd, &fs),
                market_token_source: spl::ata(owner, &m.market_token),
                system_program: system_program::ID,
                token_program: spl_token::ID,
                associated_token_program: spl_associated_token_account::ID,
            },
            gmsol_store::instruction::CreateWithdrawal {
                nonce: *nonce,
                params: gmsol_store::ops::withdrawal::CreateWithdrawalParams {
                    execution_lamports: exec_lamports,
                    long_token_swap_path_length: long_path.len() as u8,
                    short_token_swap_path_length: short_path.len() as u8,
                    market_token_amount,
                    min_long_token_amount: min_long,
                    min_short_token_amount: min_short,
                    should_unwrap_native_token: false,
                },
            },
        );
        for i in long_path.iter().chain(short_path.iter()) {
            ix.accounts.push(AccountMeta::new_readonly(self.mkts[*i].market, false));
        }
        ixs.push(ix);
        w.execute_tx(&ixs, &[*owner])
    }

    pub fn withdrawal(&self, w: &World, wd: &Pubkey) -> Option<Withdrawal> {
        match w.account(wd) {
            Some(a) if a.owner == gmsol_store::ID => w.account_data::<Withdrawal>(wd),
            _ => None,
        }
    }

    pub fn execute_withdrawal(&self, w: &mut World, executor: &Pubkey, wd: &Pubkey, throw: bool, fee: u64) -> ExecResult {
        let ix = self.execute_withdrawal_ix(w, executor, wd, throw, fee);
        w.execute(&ix, &[*executor])
    }

    pub fn execute_withdrawal_ix(&self, w: &World, executor: &Pubkey, wd: &Pubkey, throw: bool, fee: u64) -> Instruction {
        let Some(d) = self.withdrawal(w, wd) else {
            return self.execute_missing_ix(executor, wd);
        };
        let mt = d.tokens().market_token();
        let (fl, fs) = (d.tokens().final_long_token(), d.tokens().final_short_token());
        let m = self.mkt_by_token(&mt).expect("market of withdrawal");
        let mut ix = st::ix(
            gmsol_store::accounts::ExecuteWithdrawal {
                authority: *executor,
                store: self.store,
                token_map: self.token_map,
                oracle: self.oracle,
                market: m.market,
                withdrawal: *wd,
                market_token: mt,
                final_long_token: fl,
                final_short_token: fs,
                market_token_escrow: d.tokens().market_token_account(),
                final_long_token_escrow: d.tokens().final_long_token_account(),
                final_short_token_escrow: d.tokens().final_short_token_account(),
                market_token_vault: m.mt_vault,
                final_long_token_vault: market_vault_pda(&self.store, &fl),
                final_short_token_vault: market_vault_pda(&self.store, &fs),
                token_program: spl_token::ID,
                system_program: system_program::ID,
                chainlink_program: None,
                event_authority: st::event_authority(&gmsol_store::ID),
                program: gmsol_store::ID,
            },
            gmsol_store::instruction::ExecuteWithdrawal { execution_fee: fee, throw_on_execution_error: throw },
        );
        let path: Vec<Pubkey> = d.swap().iter().copied().collect();
        ix.accounts.extend(self.exec_remaining(d.swap().tokens(), &path, &mt));
        payer_writable(&mut ix, executor);
        ix
    }

    #[allow(clippy::too_many_arguments)]
    pub fn close_withdrawal(&self, w: &mut World, executor: &Pubkey, owner: &Pubkey, wd: &Pubkey, m: &Mkt, fl: Pubkey, fs: Pubkey) -> ExecResult {
        let ix = st::ix(
            gmsol_store::accounts::CloseWithdrawal {
                executor: *executor,
                store: self.store,
                store_wallet: self.store_wallet,
                owner: *owner,
                receiver: *owner,
                market_token: m.market_token,
                final_long_token: fl,
                final_short_token: fs,
                withdrawal: *wd,
                market_token_escrow: spl::ata(wd, &m.market_token),
                final_long_token_escrow: spl::ata(wd, &fl),
                final_short_token_escrow: spl::ata(wd, &fs),
                market_token_ata: spl::ata(owner, &m.market_token),
                final_long_token_ata: spl::ata(owner, &fl),
                final_short_token_ata: spl::ata(owner, &fs),
                system_program: system_program::ID,
                token_program: spl_token::ID,
                associated_token_program: spl_associated_token_account::ID,
                event_authority: st::event_authority(&gmsol_store::ID),
                program: gmsol_store::ID,
            },
            gmsol_store::instruction::CloseWithdrawal { reason: "verif".into() },
        );
        w.execute(&ix, &[*executor])
    }

    // ---------------------------------------------------------------- swap orders
    pub fn order_pda(&self, owner: &Pubkey, nonce: &[u8; 32]) -> Pubkey {
        Pubkey::find_program_address(&[Order::SEED, self.store.as_ref(), owner.as_ref(), nonce], &gmsol_store::ID).0
    }

    /// escrow ATAs + `create_order_v2(MarketSwap)` in one transaction. `path` (market indices) is passed
    /// as given; the order's market is `market` (a valid order uses the LAST market of the path).
    #[allow(clippy::too_many_arguments)]
    pub fn create_swap_order(
        &self,
        w: &mut World,
        owner: &Pubkey,
        market: &Mkt,
        nonce: &[u8; 32],
        token_in: usize,
        token_out: usize,
        amount: u64,
        min_output: u64,
        path: &[usize],
        exec_lamports: u64,
    ) -> ExecResult {
        let order = self.order_pda(owner, nonce);
        let (ti, to) = (self.toks[token_in].mint, self.toks[token_out].mint);
        let mut ixs = vec![ata_ix(owner, &order, &ti)];
        if to != ti {
            ixs.push(ata_ix(owner, &order, &to));
        }
        let is_collateral_long = self.toks[market.long].mint == to;
        let mut ix = st::ix(
            gmsol_store::accounts::CreateOrderV2 {
                owner: *owner,
                receiver: *owner,
                store: self.store,
                market: market.market,
                user: st::user_pda(&self.store, owner),
                order,
                position: None,
                initial_collateral_token: Some(ti),
                final_output_token: to,
                long_token: None,
                short_token: None,
                initial_collateral_token_escrow: Some(spl::ata(&order, &ti)),
                final_output_token_escrow: Some(spl::ata(&order, &to)),
                long_token_escrow: None,
                short_token_escrow: None,
                initial_collateral_token_source: Some(spl::ata(owner, &ti)),
                system_program: system_program::ID,
                token_program: spl_token::ID,
                associated_token_program: spl_associated_token_account::ID,
                callback_authority: None,
                callback_program: None,
                callback_shared_data_account: None,
                callback_partitioned_data_account: None,
                event_authority: st::event_authority(&gmsol_store::ID),
                program: gmsol_store::ID,
            },
            gmsol_store::instruction::CreateOrderV2 {
                nonce: *nonce,
                params: gmsol_store::ops::order::CreateOrderParams {
                    kind: gmsol_utils::order::OrderKind::MarketSwap,
                    decrease_position_swap_type: None,
                    execution_lamports: exec_lamports,
                    swap_path_length: path.len() as u8,
                    initial_collateral_delta_amount: amount,
                    size_delta_value: 0,
                    is_long: true,
                    is_collateral_long,
                    min_output: Some(min_output as u128),
                    trigger_price: None,
                    acceptable_price: None,
                    should_unwrap_native_token: false,
                    valid_from_ts: None,
                },
                callback_version: None,
            },
        );
        for i in path {
            ix.accounts.push(AccountMeta::new_readonly(self.mkts[*i].market, false));
        }
        ixs.push(ix);
        w.execute_tx(&ixs, &[*owner])
    }

    pub fn order(&self, w: &World, order: &Pubkey) -> Option<Order> {
        match w.account(order) {
            Some(a) if a.owner == gmsol_store::ID => w.account_data::<Order>(order),
            _ => None,
        }
    }

    /// `execute_increase_or_swap_order_v2` for a swap order, built from the order account.
    pub fn execute_swap_order(&self, w: &mut World, executor: &Pubkey, order: &Pubkey, throw: bool, fee: u64) -> ExecResult {
        let ix = self.execute_swap_order_ix(w, executor, order, throw, fee);
        w.execute(&ix, &[*executor])
    }

    pub fn execute_swap_order_ix(&self, w: &World, executor: &Pubkey, order: &Pubkey, throw: bool, fee: u64) -> Instruction {
        let Some(o) = self.order(w, order) else {
            return self.execute_missing_ix(executor, order);
        };
        let owner = *o.header().owner();
        let m = self.mkt_by_key(o.header().market()).expect("market of order");
        let ti = o.tokens().initial_collateral().token();
        let to = o.tokens().final_output_token().token();
        let mut ix = st::ix(
            gmsol_store::accounts::ExecuteIncreaseOrSwapOrderV2 {
                authority: *executor,
                store: self.store,
                token_map: self.token_map,
                oracle: self.oracle,
                market: m.market,
                owner,
                user: st::user_pda(&self.store, &owner),
                order: *order,
                position: None,
                event: None,
                initial_collateral_token: ti,
                final_output_token: to,
                long_token: None,
                short_token: None,
                initial_collateral_token_escrow: o.tokens().initial_collateral().account(),
                final_output_token_escrow: o.tokens().final_output_token().account(),
                long_token_escrow: None,
                short_token_escrow: None,
                initial_collateral_token_vault: ti.map(|t| market_vault_pda(&self.store, &t)),
                final_output_token_vault: to.map(|t| market_vault_pda(&self.store, &t)),
                long_token_vault: None,
                short_token_vault: None,
                token_program: spl_token::ID,
                system_program: system_program::ID,
                callback_authority: None,
                callback_program: None,
                callback_shared_data_account: None,
                callback_partitioned_data_account: None,
                event_authority: st::event_authority(&gmsol_store::ID),
                program: gmsol_store::ID,
            },
            gmsol_store::instruction::ExecuteIncreaseOrSwapOrderV2 {
                recent_timestamp: w.clock().0,
                execution_fee: fee,
                throw_on_execution_error: throw,
            },
        );
        let path: Vec<Pubkey> = o.swap().iter().copied().collect();
        ix.accounts.extend(self.exec_remaining(o.swap().tokens(), &path, &m.market_token));
        payer_writable(&mut ix, executor);
        ix
    }

    #[allow(clippy::too_many_arguments)]
    pub fn close_swap_order(&self, w: &mut World, executor: &Pubkey, owner: &Pubkey, order: &Pubkey, ti: Pubkey, to: Pubkey) -> ExecResult {
        let mut ix = st::ix(
            gmsol_store::accounts::CloseOrderV2 {
                executor: *executor,
                store: self.store,
                store_wallet: self.store_wallet,
                owner: *owner,
                receiver: *owner,
                rent_receiver: *owner,
                user: st::user_pda(&self.store, owner),
                referrer_user: None,
                order: *order,
                initial_collateral_token: Some(ti),
                final_output_token: Some(to),
                long_token: None,
                short_token: None,
                initial_collateral_token_escrow: Some(spl::ata(order, &ti)),
                final_output_token_escrow: Some(spl::ata(order, &to)),
                long_token_escrow: None,
                short_token_escrow: None,
                initial_collateral_token_ata: Some(spl::ata(owner, &ti)),
                final_output_token_ata: Some(spl::ata(owner, &to)),
                long_token_ata: None,
                short_token_ata: None,
                system_program: system_program::ID,
                token_program: spl_token::ID,
                associated_token_program: spl_associated_token_account::ID,
                callback_authority: None,
                callback_program: None,
                callback_shared_data_account: None,
                callback_partitioned_data_account: None,
                event_authority: st::event_authority(&gmsol_store::ID),
                program: gmsol_store::ID,
            },
            gmsol_store::instruction::CloseOrderV2 { reason: "verif".into() },
        );
        payer_writable(&mut ix, executor);
        w.execute(&ix, &[*executor])
    }

    // ---------------------------------------------------------------- shifts
    pub fn shift_pda(&self, owner: &Pubkey, nonce: &[u8; 32]) -> Pubkey {
        Pubkey::find_program_address(&[Shift::SEED, self.store.as_ref(), owner.as_ref(), nonce], &gmsol_store::ID).0
    }

    #[allow(clippy::too_many_arguments)]
    pub fn create_shift(&self, w: &mut World, owner: &Pubkey, from: &Mkt, to: &Mkt, nonce: &[u8; 32], amount: u64, min_to: u64, exec_lamports: u64) -> ExecResult {
        let shift = self.shift_pda(owner, nonce);
        let mut ixs = vec![ata_ix(owner, &shift, &from.market_token)];
        if to.market_token != from.market_token {
            ixs.push(ata_ix(owner, &shift, &to.market_token));
        }
        ixs.push(st::ix(
            gmsol_store::accounts::CreateShift {
                owner: *owner,
                receiver: *owner,
                store: self.store,
                from_market: from.market,
                to_market: to.market,
                shift,
                from_market_token: from.market_token,
                to_market_token: to.market_token,
                from_market_token_escrow: spl::ata(&shift, &from.market_token),
                to_market_token_escrow: spl::ata(&shift, &to.market_token),
                from_market_token_source: spl::ata(owner, &from.market_token),
                to_market_token_ata: spl::ata(owner, &to.market_token),
                system_program: system_program::ID,
                token_program: spl_token::ID,
                associated_token_program: spl_associated_token_account::ID,
            },
            gmsol_store::instruction::CreateShift {
                nonce: *nonce,
                params: gmsol_store::ops::shift::CreateShiftParams {
                    execution_lamports: exec_lamports,
                    from_market_token_amount: amount,
                    min_to_market_token_amount: min_to,
                },
            },
        ));
        w.execute_tx(&ixs, &[*owner])
    }

    pub fn shift(&self, w: &World, shift: &Pubkey) -> Option<Shift> {
        match w.account(shift) {
            Some(a) if a.owner == gmsol_store::ID => w.account_data::<Shift>(shift),
            _ => None,
        }
    }

    pub fn execute_shift(&self, w: &mut World, executor: &Pubkey, shift: &Pubkey, throw: bool, fee: u64) -> ExecResult {
        let ix = self.execute_shift_ix(w, executor, shift, throw, fee);
        w.execute(&ix, &[*executor])
    }

    pub fn execute_shift_ix(&self, w: &World, executor: &Pubkey, shift: &Pubkey, throw: bool, fee: u64) -> Instruction {
        let Some(s) = self.shift(w, shift) else {
            return self.execute_missing_ix(executor, shift);
        };
        let from = self.mkt_by_token(&s.tokens().from_market_token()).expect("from market");
        let to = self.mkt_by_token(&s.tokens().to_market_token()).expect("to market");
        let mut ix = st::ix(
            gmsol_store::accounts::ExecuteShift {
                authority: *executor,
                store: self.store,
                token_map: self.token_map,
                oracle: self.oracle,
                from_market: from.market,
                to_market: to.market,
                shift: *shift,
                from_market_token: from.market_token,
                to_market_token: to.market_token,
                from_market_token_escrow: s.tokens().from_market_token_account(),
                to_market_token_escrow: s.tokens().to_market_token_account(),
                from_market_token_vault: from.mt_vault,
                token_program: spl_token::ID,
                chainlink_program: None,
                event_authority: st::event_authority(&gmsol_store::ID),
                program: gmsol_store::ID,
            },
            gmsol_store::instruction::ExecuteShift { execution_lamports: fee, throw_on_execution_error: throw },
        );
        let mut tokens: Vec<Pubkey> = [from.index, from.long, from.short, to.index, to.long, to.short].iter().map(|i| self.toks[*i].mint).collect();
        tokens.sort();
        tokens.dedup();
        ix.accounts.extend(self.exec_remaining(&tokens, &[], &from.market_token));
        payer_writable(&mut ix, executor);
        ix
    }

    pub fn close_shift(&self, w: &mut World, executor: &Pubkey, owner: &Pubkey, shift: &Pubkey, from: &Mkt, to: &Mkt) -> ExecResult {
        let mut ix = st::ix(
            gmsol_store::accounts::CloseShift {
                executor: *executor,
                store: self.store,
                store_wallet: self.store_wallet,
                owner: *owner,
                receiver: *owner,
                shift: *shift,
                from_market_token: from.market_token,
                to_market_token: to.market_token,
                from_market_token_escrow: spl::ata(shift, &from.market_token),
                to_market_token_escrow: spl::ata(shift, &to.market_token),
                from_market_token_ata: spl::ata(owner, &from.market_token),
                to_market_token_ata: spl::ata(owner, &to.market_token),
                system_program: system_program::ID,
                token_program: spl_token::ID,
                associated_token_program: spl_associated_token_account::ID,
                event_authority: st::event_authority(&gmsol_store::ID),
                program: gmsol_store::ID,
            },
            gmsol_store::instruction::CloseShift { reason: "verif".into() },
        );
        payer_writable(&mut ix, executor);
        w.execute(&ix, &[*executor])
    }

    // ---------------------------------------------------------------- keeper / treasury transfers
    /// `claim_fees_from_market` by `authority` (the store's receiver) into the authority's ATA
    pub fn claim_fees(&self, w: &mut World, authority: &Pubkey, m: &Mkt, tok: &Tok) -> ExecResult {
        let (target, r) = spl::create_ata(w, authority, authority, &tok.mint);
        if !r.ok {
            return r;
        }
        w.execute(
            &st::ix(
                gmsol_store::accounts::ClaimFeesFromMarket {
                    authority: *authority,
                    store: self.store,
                    market: m.market,
                    token_mint: tok.mint,
                    vault: tok.vault,
                    target,
                    token_program: spl_token::ID,
                    event_authority: st::event_authority(&gmsol_store::ID),
                    program: gmsol_store::ID,
                },
                gmsol_store::instruction::ClaimFeesFromMarket {},
            ),
            &[*authority],
        )
    }

    /// `market_transfer_in` by the keeper (MARKET_KEEPER) from `from_owner`'s ATA
    pub fn market_transfer_in(&self, w: &mut World, from_owner: &Pubkey, m: &Mkt, tok: &Tok, amount: u64) -> ExecResult {
        w.execute(
            &st::ix(
                gmsol_store::accounts::MarketTransferIn {
                    authority: self.keeper,
                    store: self.store,
                    from_authority: *from_owner,
                    market: m.market,
                    from: spl::ata(from_owner, &tok.mint),
                    vault: tok.vault,
                    token_program: spl_token::ID,
                    event_authority: st::event_authority(&gmsol_store::ID),
                    program: gmsol_store::ID,
                },
                gmsol_store::instruction::MarketTransferIn { amount },
            ),
            &[self.keeper, *from_owner],
        )
    }

    /// action state of any action account (header is the first field of every action): 0 pending,
    /// 1 completed, 2 cancelled; None when the account does not exist / is not the store's
    pub fn action_state(&self, w: &World, action: &Pubkey) -> Option<u8> {
        use gmsol_store::states::common::action::{ActionHeader, ActionState};
        match w.account(action) {
            Some(a) if a.owner == gmsol_store::ID => w.account_data::<ActionHeader>(action).map(|h| match h.action_state() {
                Ok(ActionState::Pending) => 0,
                Ok(ActionState::Completed) => 1,
                Ok(ActionState::Cancelled) => 2,
                _ => 255,
            }),
            _ => None,
        }
    }
}

fn init_vault(w: &mut World, store: &Pubkey, keeper: &Pubkey, mint: &Pubkey) -> ExecResult {
    w.execute(
        &st::ix(
            gmsol_store::accounts::InitializeMarketVault {
                authority: *keeper,
                store: *store,
                mint: *mint,
                vault: market_vault_pda(store, mint),
                system_program: system_program::ID,
                token_program: spl_token::ID,
            },
            gmsol_store::instruction::InitializeMarketVault {},
        ),
        &[*keeper],
    )
}

/// The executor of a keeper instruction is the transaction's fee payer, which the Solana runtime always
/// loads writable whatever the instruction's meta says (the programs pay the execution fee to it).
pub fn payer_writable(ix: &mut Instruction, payer: &Pubkey) {
    for m in ix.accounts.iter_mut() {
        if m.pubkey == *payer && m.is_signer {
            m.is_writable = true;
        }
    }
}

/// idempotent creation of the associated token account of (`owner`, `mint`), paid by `payer`
pub fn ata_ix(payer: &Pubkey, owner: &Pubkey, mint: &Pubkey) -> Instruction {
    spl_associated_token_account::instruction::create_associated_token_account_idempotent(payer, owner, mint, &spl_token::ID)
}

/// hash of the market's economic state (pools, clocks, balances, trade count, funding factor, flags):
/// everything except the revertible buffer and the revision stamps, which every balance-neutral
/// transfer-in / transfer-out pair advances.
pub fn market_digest(m: &Market) -> u64 {
    use gmsol_model::{ClockKind, PoolKind};
    use std::hash::{Hash, Hasher};
    let mut h = std::collections::hash_map::DefaultHasher::new();
    for k in [
        PoolKind::Primary,
        PoolKind::SwapImpact,
        PoolKind::ClaimableFee,
        PoolKind::OpenInterestForLong,
        PoolKind::OpenInterestForShort,
        PoolKind::OpenInterestInTokensForLong,
        PoolKind::OpenInterestInTokensForShort,
        PoolKind::PositionImpact,
        PoolKind::BorrowingFactor,
        PoolKind::FundingAmountPerSizeForLong,
        PoolKind::FundingAmountPerSizeForShort,
        PoolKind::ClaimableFundingAmountPerSizeForLong,
        PoolKind::ClaimableFundingAmountPerSizeForShort,
        PoolKind::CollateralSumForLong,
        PoolKind::CollateralSumForShort,
        PoolKind::TotalBorrowing,
    ] {
        if let Some(p) = m.pool(k) {
            use gmsol_model::Balance;
            p.long_amount().unwrap_or(u128::MAX).hash(&mut h);
            p.short_amount().unwrap_or(u128::MAX).hash(&mut h);
        }
    }
    for c in [ClockKind::PriceImpactDistribution, ClockKind::Borrowing, ClockKind::Funding, ClockKind::AdlForLong, ClockKind::AdlForShort] {
        m.clock(c).hash(&mut h);
    }
    let o = m.state();
    o.long_token_balance_raw().hash(&mut h);
    o.short_token_balance_raw().hash(&mut h);
    o.trade_count().hash(&mut h);
    o.funding_factor_per_second().hash(&mut h);
    m.is_enabled().hash(&mut h);
    m.is_closed().hash(&mut h);
    h.finish()
}
